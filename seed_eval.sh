#!/bin/bash
# seed_eval.sh <prop> <n> [checks...]
# Confirms a seeded change (from /tmp/seed/<prop>/out/<n>) in a scratch worktree (demo fails with it,
# passes without it, pinned suite passes with it), stores it under /verif/seeded/<prop>-<n>/, then
# applies it to /repo, runs the given checks (default: <prop> quick) and reverts /repo.
set -u
PROP="$1"; N="$2"; shift 2
CHECKS="${*:-$PROP}"
SRC="${SEEDROOT:-/tmp/seed}/$PROP/out/$N"
DST="/verif/seeded/$PROP-${SEEDTAG:-}$N"
WT=/tmp/evalwt
export CARGO_NET_OFFLINE=true CARGO_TARGET_DIR=/tmp/evalwt-target
[ -f "$SRC/patch.diff" ] || { echo "no patch in $SRC"; exit 2; }
mkdir -p "$DST"
cp "$SRC/patch.diff" "$DST/"; cp "$SRC/meta.json" "$DST/" 2>/dev/null; rm -rf "$DST/demo"; cp -r "$SRC/demo" "$DST/demo"
if [ ! -d "$WT" ]; then git -C /repo worktree add -q --detach "$WT" HEAD; fi
cd "$WT" && git checkout -q --detach "$(git -C /repo rev-parse HEAD)" && git checkout -q -- . && git clean -fdq
PKG=$(python3 -c "import json,re;m=json.load(open('$DST/meta.json'));c=m.get('demo_cmd','');r=re.search(r'-p\s+(\S+)',c);print(r.group(1) if r else '')")
TEST=$(python3 -c "import json,re;m=json.load(open('$DST/meta.json'));c=m.get('demo_cmd','');r=re.search(r'--test\s+(\S+)',c);print(r.group(1) if r else '')")
case "$PKG" in rustzx-z80) TDIR=rustzx-z80/tests;; rustzx-test) TDIR=rustzx-test/tests;; rustzx-core) TDIR=rustzx-core/tests;; vtx) TDIR=vtx/tests;; aym) TDIR=aym/tests;; rustzx-utils) TDIR=rustzx-utils/tests;; *) TDIR="";; esac
REPORT="$DST/confirm.txt"; : > "$REPORT"
if [ -n "$TDIR" ] && [ -n "$TEST" ]; then
  mkdir -p "$TDIR"; cp "$DST"/demo/*.rs "$TDIR"/ 2>/dev/null
  # extra demo assets (anything not .rs) next to the test
  for f in "$DST"/demo/*; do case "$f" in *.rs) ;; *) cp -r "$f" "$TDIR"/ ;; esac; done
  cargo test --offline -p "$PKG" --test "$TEST" > /tmp/evalwt-demo0.log 2>&1; R0=$?
  git apply "$DST/patch.diff" || { echo "patch does not apply" | tee -a "$REPORT"; exit 2; }
  cargo test --offline -p "$PKG" --test "$TEST" > /tmp/evalwt-demo1.log 2>&1; R1=$?
  echo "demo without change: exit $R0 ($(grep -E '^test result' /tmp/evalwt-demo0.log | tail -1))" | tee -a "$REPORT"
  echo "demo with change:    exit $R1 ($(grep -E '^test result' /tmp/evalwt-demo1.log | tail -1))" | tee -a "$REPORT"
  # pinned suite with the change (demo file removed so it is not counted)
  rm -f "$TDIR"/$(basename "$DST"/demo/*.rs 2>/dev/null | head -1)
  for f in "$DST"/demo/*.rs; do rm -f "$TDIR/$(basename "$f")"; done
  cargo test --workspace --no-fail-fast --offline > /tmp/evalwt-suite.log 2>&1
  P=$(grep -E '^test result' /tmp/evalwt-suite.log | awk '{p+=$4; f+=$6} END {print p" passed "f" failed"}')
  echo "pinned suite with change: $P" | tee -a "$REPORT"
else
  echo "demo not in cargo-test form (demo_cmd: $(python3 -c "import json;print(json.load(open('$DST/meta.json')).get('demo_cmd',''))")) - confirm by hand" | tee -a "$REPORT"
fi
git checkout -q -- . ; git clean -fdq
# ---- run the checks against /repo with the change applied
cd "${EVALROOT:-/verif}"; unset CARGO_TARGET_DIR
git -C /repo apply "$DST/patch.diff" || { echo "patch does not apply to /repo" | tee -a "$REPORT"; exit 2; }
for c in $CHECKS; do
  OUT=$(./check "$c" quick 2>&1 | grep -E "^(VIOLATION|KNOWN|SUMMARY|MACHINERY|DETAIL)" | cut -c1-260)
  V=$(echo "$OUT" | grep -c '^VIOLATION')
  echo "check $c quick: $V violation line(s)" | tee -a "$REPORT"
  echo "$OUT" | grep -E "^DETAIL" | head -3 >> "$REPORT"
  echo "$OUT" | grep -E "^SUMMARY|^MACHINERY" >> "$REPORT"
done
git -C /repo checkout -- . ; git -C /repo status --short | head -3
echo "== $PROP-$N done" | tee -a "$REPORT"
