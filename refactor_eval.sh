#!/bin/bash
# refactor_eval.sh <prop> <n> [checks...]
# A behaviour-preserving refactoring (from ${SEEDROOT:-/tmp/seed4}/<prop>/out/<n>) must leave every
# check silent. Confirms in a scratch worktree that the pinned suite passes with it, stores it under
# /verif/seeded/<prop>-<tag><n>/, applies it to /repo, runs the given checks (default: all 20, quick)
# and reverts /repo. Any VIOLATION line is either a false alarm of the machinery or a refactoring that
# was not behaviour preserving after all: to be triaged by hand.
set -u
PROP="$1"; N="$2"; shift 2
CHECKS="${*:-C01 C02 C03 C04 C05 C06 C07 C08 C09 C10 C11 C12 C13 C14 C15 C16 C17 C18 C19 C20}"
SRC="${SEEDROOT:-/tmp/seed4}/$PROP/out/$N"
DST="/verif/seeded/$PROP-${SEEDTAG:-r4-}$N"
WT=/tmp/evalwt
export CARGO_NET_OFFLINE=true CARGO_TARGET_DIR=/tmp/evalwt-target
[ -f "$SRC/patch.diff" ] || { echo "no patch in $SRC"; exit 2; }
mkdir -p "$DST"; cp "$SRC/patch.diff" "$DST/"; cp "$SRC/meta.json" "$DST/" 2>/dev/null
if [ ! -d "$WT" ]; then git -C /repo worktree add -q --detach "$WT" HEAD; fi
cd "$WT" && git checkout -q --detach "$(git -C /repo rev-parse HEAD)" && git checkout -q -- . && git clean -fdq
REPORT="$DST/confirm.txt"; : > "$REPORT"
git apply "$DST/patch.diff" || { echo "patch does not apply" | tee -a "$REPORT"; exit 2; }
cargo test --workspace --no-fail-fast --offline > /tmp/evalwt-suite.log 2>&1
P=$(grep -E '^test result' /tmp/evalwt-suite.log | awk '{p+=$4; f+=$6} END {print p" passed "f" failed"}')
echo "pinned suite with refactoring: $P" | tee -a "$REPORT"
git checkout -q -- . ; git clean -fdq
cd "${EVALROOT:-/verif}"; unset CARGO_TARGET_DIR
git -C /repo apply "$DST/patch.diff" || { echo "patch does not apply to /repo" | tee -a "$REPORT"; exit 2; }
for c in $CHECKS; do
  OUT=$(./check "$c" quick 2>&1 | grep -E "^(VIOLATION|KNOWN|SUMMARY|MACHINERY|DETAIL)" | cut -c1-300)
  V=$(echo "$OUT" | grep -c '^VIOLATION'); M=$(echo "$OUT" | grep -c '^MACHINERY')
  echo "check $c quick: $V violation line(s), $M machinery line(s)" | tee -a "$REPORT"
  echo "$OUT" | grep -E "^(DETAIL|MACHINERY)" | head -3 | tee -a "$REPORT"
done
git -C /repo checkout -- . ; git -C /repo status --short | head -3
echo "== $PROP-$N (refactoring) done" | tee -a "$REPORT"
