#!/usr/bin/env python3
"""Regenerates MANIFEST.json from the table below (keeps it valid at all times)."""
import json, subprocess
CHECKS = {
 "C06": dict(level="model_checking", ref="§C06",
   technique="explicit-state BFS over the paging latch by history replay on the real Emulator, lock-step reference memory map",
   text="Every reachable paging state (256 raw latch states, 64 K transitions per ROM configuration) is reached by CPU-executed OUTs on a fresh real Emulator and compared with a reference memory map at all 65536 addresses, with CPU store/load probes and an all-banks RAM diff; exhaustive over the latch, so the only thing left out is RAM contents other than the position-coded markers.",
   note="Trusts the cfg-guarded read-only accessors (verif_paging, verif_ram_bank) and execute_poke for placing marker bytes and probe code."),
}
CHECKS["C11"]=dict(level="model_checking", ref="§C11",
   technique="explicit-state search over all partitions of elapsed time into tape steps 0..16 on the real Tap, decomposed at reload events, judged by an independent pulse decoder",
   text="For each tape image every reachable state of the real tape state machine under every partition of time into process_clocks steps of 0..16 T is visited (tens of millions of states per run); on every edge transition the pulse must be the one the reference waveform expects and last between nominal and nominal+32 T, and the pulse list must decode (independent decoder) to exactly the TAP blocks with the stated pilot counts. Exhaustive over schedules for the listed tapes; tapes themselves are a small alphabet. Machine level: seven polling programs in contended/uncontended RAM run while the tape plays and every pulse as well as the running total must stay within nominal..nominal+32 of emulated time. System level: the real ROM loader runs in real time in the real Emulator with the tape playing and must give the same memory, IX, DE and carry as fast loading and RefLdBytes.",
   note="Trusts hook H3 (Tap: Clone + verif_state). Decomposition at reload events is re-validated on every exit transition (state must equal the pre-pass state).")
CHECKS["C12"]=dict(level="model_checking", ref="§C12",
   technique="explicit-state BFS over command histories on the real Tap in lock step with a reference deck (refinement mapping to the uninterrupted tape)",
   text="All histories of up to 4 (quick) / 5 (thorough) commands from {stop, play, rewind-while-stopped}, issued at every T-state position inside the listed windows of the waveform (start, first pilot pulses, pilot-sync-first byte, last bits, pause head and tail, next pilot, end of tape, after the end), from a playing and a cold deck; after every action the complete tape state except prev_state must equal the uninterrupted tape's state at the reference deck position, and stopped time must change nothing. Dedup on the complete state including prev_state.",
   note="Refinement target is the C11-verified uninterrupted chain. Not judged: rewind while playing. Trusts hook H3.")
CHECKS["C17"]=dict(level="model_checking", ref="§C17",
   technique="exhaustive enumeration of event histories up to a depth (history replay on a fresh real Emulator), lock-step reference matrix, failing histories delta-debugged to minimal ones",
   text="Every event history up to depth 2 over the full alphabet (40 keys, 7 compound keys, 10 Sinclair controls, 8 Kempston bits, 4 mouse buttons, wheel, motion) and up to depth 4 (quick) / 5 (thorough) over each collision cluster (controls that share matrix positions across sources) is replayed on a fresh real Emulator and read back through IN instructions executed by the emulated CPU; all 8 half-rows, all 256 selector bytes, the Kempston port and the mouse ports are compared with a reference matrix. No state merging on the implementation side.",
   note="Keyboard/joystick and mouse are read on two machine configurations (which device wins a shared port is C07). Known finding: Sinclair joystick 2 down.")
CHECKS["C01"]=dict(level="model_checking", ref="§C01",
   technique="finite product enumeration per opcode encoding over the discovered read set plus exhaustive pair/triple sequences, lock step with an independent silicon-validated reference interpreter",
   text="For every one of the 1786 distinct encodings the atoms of machine state the instruction depends on are discovered on the reference model and the full product of their domains (all 256 values each when at most three byte atoms are involved in thorough; boundary alphabets within a tuple budget otherwise) is executed on the real Z80::emulate and on RefZ80, with two contrasting backgrounds for everything else; all ordered pairs of encodings (thorough: all triples ending in SCF/CCF/BIT observers) carry hidden state across instructions. Every register, both IFFs, IM, HALT, MEMPTR, Q (observable bits) and the ordered data-carrying bus accesses are compared.",
   note="RefZ80 (harness/refz80) written independently of rustzx and validated against zexall, z80test 1.2 full/memptr/ccf and z80bltst before every use (stamp keyed by its source hash). Q after a repeating block iteration is not judged (no ground truth, unobservable).")
CHECKS["C18"]=dict(level="model_checking", ref="§C18",
   technique="finite product enumeration on the chip core (tick level, via hook) plus explicit enumeration of write/generate histories and of all select/data port values",
   text="All 4096 tone periods x 3 channels, all noise periods, all 16 envelope shapes x 7 periods, all 256 mixer values, all volume codes, all 7 stereo modes on the tick-exact core; 12 sample rates x 4 programmes on the public sample path (finite, bounded, tone frequency); all histories of <=3 ops over a 99-op alphabet and <=4/5 over a reduced one against the final register file; all 256 select values x data alphabet through the real Spectrum ports on 48K+AY and 128K.",
   note="Hook H4 (verif_tick, verif_levels). Not judged: EP=0, NP=0, TP=1 on the analog path (sits on the interpolator's Nyquist zero).")
CHECKS["C20"]=dict(level="model_checking", ref="§C20",
   technique="exhaustive enumeration of all partitions of the output into play() buffer lengths, recording backend plus bit-exact differential on the real chip, writer-based decode check",
   text="For frames 0..3, samples-per-frame {1,2,3,5}, mono and stereo, every composition of the output into play() buffer lengths (incl. length 1, odd stereo lengths, past-the-end calls) is executed against a recording AY backend (frame k written exactly at sample k*spf, R13=FF skipped, totals) and 2^11 cut subsets on the real AymPrecise bit-exactly; Vtx::load is checked on files produced by an independent writer (literal-only LH5 validated through delharc) and on the four shipped files.",
   note="Not judged: player frequency 0, sample rate below player frequency. Largest stereo configuration uses capacity compositions x odd/even patterns (noted in evidence).")
CHECKS["C02"]=dict(level="model_checking", ref="§C02",
   technique="explicit-state BFS over instruction boundaries with a lazily chosen program and scripted INT/NMI levels, lock step with the reference interpreter",
   text="From 24-72 roots (IFF1/IFF2 x IM x I x acknowledge byte) every history of 3 (quick) / 4 (thorough) instruction boundaries is explored, the environment choosing at each boundary the instruction token at PC (22 tokens: EI, DI, HALT, RET/RETI/RETN, IM x, LD A,I/R, prefix chains DD DD, DD FD, FD DD ED, DD EI, DD HALT, DDCB) and the INT/NMI levels, including levels that rise inside a prefix chain; acceptance, entry cycles, pushed address, vector, IFF1/IFF2, HALT release and R are compared with RefZ80 after every aligned step. Dedup on the complete implementation state, reference state and memory.",
   note="RefZ80 validated as in C01 (z80bltst exercises IM 2 interrupts inside block instructions). Not judged: NMI directly after EI/DI, order of cycles inside interrupt entry.")
CHECKS["C03"]=dict(level="model_checking", ref="§C03",
   technique="finite product enumeration per opcode encoding comparing call-granular bus-cycle lists with the reference interpreter's documented lists",
   text="For every encoding and every tuple of the atoms that select a timing variant or an address (flags, B, BC, A==(HL), operands, all address registers, IR), two backgrounds with pairwise distinct register values so every delay address identifies its source, the ordered list of bus calls made by Z80::emulate (4-T fetch, 3-T read/write, single delay T-states with address, port cycles) must equal RefZ80's documented list; interrupt entry in IM 0/1/2 and NMI (running and halted) after every encoding: total 13/19/11 T and accesses.",
   note="Documented lists are RefZ80's (FUSE/Zilog breakdowns), totals unit-tested against the Zilog manual (121 variants). Machine-level T totals are C04/C05.")
CHECKS["C04"]=dict(level="model_checking", ref="§C04",
   technique="finite product enumeration: encodings x timing variants x placements x start T-states, single steps of the real Emulator against reference interpreter + literal contention formula",
   text="Every encoding, every timing variant (conditions, repeat/final iteration, port parity), every contended/uncontended assignment of the address roles it uses (code, operand address, HL/IX/IY, BC/DE/A as pointer and port high byte, SP, I), both machines and every start T of the frame in thorough (complete windows around frame start, first picture lines, a mid line, the 191/192 edge and the frame end in quick) is single-stepped on the real Emulator and on RefZ80+RefULA; elapsed T must agree exactly; ten cycle-kind probes put the address at 0xC000 under all eight 128K banks.",
   note="Frame clock is placed with the hook verif_set_frame_clocks (assumes contention depends only on the clock value; C05 is the control without placing). RefULA = the formula in the property text.")
CHECKS["C05"]=dict(level="model_checking", ref="§C05",
   technique="complete enumeration of the frame's T-states for the INT window plus lock-step execution of an enumerated program alphabet over whole frames against the reference machine",
   text="An enabled interrupt is accepted at a boundary at T iff T<32 for every T of the frame on both machines (running and halted); all loop bodies of up to 2 (quick) / 3 (thorough) elements over a 17-element alphabet (HALT, LDIR, indexed 23-T op, EI, DI, OUT, NOP sleds hitting many residues), in contended/uncontended RAM, with IM 2 handlers of three lengths, run for 6/40 whole frames on the real Emulator without ever placing the clock and on RefZ80+RefULA: absolute T, PC and SP compared after every instruction (tens of millions of boundaries), interrupt counter at the end;  The INT window is also checked after frame ends reached by real execution: 4/13/23-T instructions straddling the frame end with every overrun 0..22 and fillers that put the first interrupt-enabled boundary on every T up to about 60.emulate_frames(FrameCount(n)) emulates exactly n frames.",
   note="Absolute time of the implementation uses the hook frame counter. Programs are an alphabet, not all programs.")
CHECKS["C10"]=dict(level="model_checking", ref="§C10",
   technique="finite product enumeration of tapes x requests and request sequences through the real ROM trap, against a ROM-validated reference of LD-BYTES",
   text="Block lengths around every 128-byte buffer boundary x flag bytes x right/wrong checksum, each followed by a sentinel block, x expected flag x LOAD/VERIFY x seven DE values (incl. the flag-test-skipping D=FF) x IX in RAM / ROM-RAM edge / wrap / screen x VERIFY images equal or differing at first/middle/last byte, plus request sequences running past the end of the tape and on an empty tape, on both machines: each request enters the real ROM at 0556h on the real Emulator with fast loading on; all 64K of memory, IX, DE and carry are compared with RefLdBytes; past the end the routine must not return and the loop-invariant registers must equal the ROM polling a silent tape.",
   note="RefLdBytes is validated on every run against the genuine 48K ROM routine executed on RefZ80 with RefTape's ideal waveform. Not judged: ROM call frames just below SP; files truncated inside a block.")
CHECKS["C07"]=dict(level="model_checking", ref="§C07",
   technique="finite product enumeration over all 65536 port addresses x read/write x device configurations, executed by the emulated CPU, plus all T-states for the floating bus",
   text="Every one of the 65536 port addresses is read (IN A,(C)) and written (OUT (C),A) by the emulated CPU on 20 (quick) / 32 (thorough) configurations of machine x Kempston x mouse x extender claim set; each device answers with a distinct byte, write effects are observed on border, paging latch, AY read-back and the extender log; a three-valued claim table transcribed from the statement decides which accesses are judged (exactly one claimant, none possible). The floating bus is read at every T of the frame on 48K, 128K and 128K with the shadow screen: FF outside the fetch windows, only bytes of the displayed bank's current line inside, and every one of the 64 bytes the ULA fetches for a line must be seen at some T; EAR on bit 6 follows the tape level.",
   note="Not judged: ports selecting two devices, the wider A0=1/A5=0 family for the mouse, phase of the floating bus inside the fetch window (+-8 T).")
CHECKS["C08"]=dict(level="exploration", ref="§C08",
   technique="finite product enumeration of screen contents x writers x configurations with a pixel-exact reference decode; every store time around the ULA fetch for the beam clause",
   text="Latin-square screen contents (every one of the 6912 addresses meets every byte value across the 256 frames of the thorough tier, 32 in quick) and 26 address-line frames are put into display memory by eight writers (LDIR, CPU store loop, poke, tape fast load through the ROM, SNA, SZX stored/zlib, SCR) on four machine/screen-bank configurations; after two unchanged frames all 49152 pixels must equal the standard decode of the displayed bank; FLASH period over 48 frames, paging bit 3 switched between frames (also right after SNA/SZX loads with pictures in both banks), and for picture lines x 3 columns every store time from 90 T before to 70 T after the ULA fetch decides current/next frame, once with the clock placed and once with a free-running CPU idling to the store time.",
   note="Exploration level: contents are an arranged cover, not all 2^55296 screens; cell-locality of the decode is the argument for the arrangement. Not judged: first FLASH phase, +-16 T around the fetch.")
CHECKS["C09"]=dict(level="exploration", ref="§C09",
   technique="finite product enumeration of write times (every T of the frame, all pairs inside a line) on the real Emulator against a beam-position model of the border buffer",
   text="An OUT to an even port (six addresses incl. paging- and AY-overlapping ones) executed by the emulated CPU at every T of the frame in thorough (five complete lines and both frame ends in quick), every ordered pair of OUTs inside one line at three line positions, writes straddling the frame wrap, two-frame histories with repeated colours, write-free frames and snapshot borders of all 8 colours on both machines; every border pixel of the completed 320x240 buffer farther than 8 T from the I/O cycle of a write must show the colour last written before the beam reached it, and border_color() must report the last write.",
   note="Exploration level: sequences of more than two writes per frame are not enumerated. Frame clock placed through the hook.")
CHECKS["C19"]=dict(level="exploration", ref="§C19",
   technique="finite product enumeration of sample rates x machines x toggle times (every T of the frame) x volumes, and all 2^6 drain schedules",
   text="For ten sample rates from 8000 to 384000 Hz on both machines a speaker toggle is executed by the emulated CPU at every T of the frame in thorough (three 256-T windows in quick): the drained frame must hold floor(rate/50) samples (by emulated time), every sample outside the one-sample edge window must equal the level set before/after the write, the edge must land within one sample of the OUT, all samples finite and bounded by the volume; MIC bit, volumes 0/1/200 and double toggles on sparser time sets; all 64 drain/no-drain patterns over six frames x rates x machines x AY on/off keep the queue below two frames' worth.",
   note="Exploration level: one or two toggles per frame, not arbitrary programs. Beeper-only configuration for the edge test. Frame clock placed through the hook.")
CHECKS["C13"]=dict(level="exploration", ref="§C13",
   technique="finite product enumeration of save states x receiving states on the real save/load path, with a lock-step continuation against a pristine twin",
   text="Save states (two register patterns with all register bytes distinct, IM, IFF2, border, R and I boundary values, all 256 paging values on the 128K in thorough reached by CPU-executed OUTs, seven SP placements on the 48K incl. the ROM edge) are saved through save_snapshot and loaded into nine receivers (same machine now/1/1000 instructions later, fresh, halted, mid DD prefix, right after EI, paging locked elsewhere, everything different); registers, border, paging latch, lock and map, and every RAM bank are compared, then 24 instructions of an observer program run in lock step against a pristine twin; registers and all RAM of the saving machine are compared before/after the save.",
   note="Exploration level: RAM contents are position codes, register values two patterns plus boundary values. Not judged: IFF1, MEMPTR/Q, 48K PC with ROM below SP.")
CHECKS["C14"]=dict(level="exploration", ref="§C14",
   technique="finite product enumeration of abstract states x encodings x receivers x model pairing with spec-based writers; absolute and differential oracles",
   text="Abstract machine states (registers, IM, I/R boundary values, border, six paging values incl. shadow screen and lock, position-coded RAM in all banks, two pictures, AY register file) are written by independent SNA/SZX/SCR writers in every equivalent encoding (SNA; SZX stored, zlib, six chunk orders, unknown chunks interleaved, v1.4/1.5) and loaded into six receivers (fresh, halted, mid prefix, paging locked, everything different, ROM running mid-frame); every item is compared with the abstract state (registers, IFFs, latches cleared, border, paging latch+lock+map, all RAM banks, AY registers read back through the ports, the picture after three frames), all encodings x receivers of a state must end in the same digest, plus audible AY state, HALTED in both PC conventions, EILAST, files of the other model, SCR into four receivers.",
   note="Exploration level: states are a structured alphabet (6 quick / 30 thorough variants per machine). Writers follow the published layouts. Not judged: which HALTED PC convention a file uses; items a format does not carry.")
CHECKS["C15"]=dict(level="fault_enumeration", ref="§C15",
   technique="exhaustive input-family and asset-fault enumeration on every loader entry point with panic, hang, allocation and asset-call monitors",
   text="Every loader entry point (SNA, SZX, TAP incl. playing and fast-load requests, SCR, ROM set, gzip-wrapped SNA, VTX) on both machines is driven with: all byte strings up to length 2 (quick: all of length <=1 and a structured quarter-thousand of length 2) and short alphabet strings; every prefix of every seed file (stride in quick for the big ones); boundary values of every structural field alone and in all pairs; every single-byte substitution in header regions plus a stride through the data; an asset fault of each kind {Err, one-byte short read, Ok(0), seek failure} at every call index (all pairs in thorough) and chunked reads. A structure-aware family offers SZX RAMP chunks with well-formed stored/zlib page data of sizes 0..200000 and valid/invalid page numbers. A case fails on a panic, on not returning within the watchdog limit, on exceeding the asset-call budget, on a single allocation out of proportion to the input, or when the emulator cannot emulate further frames afterwards.",
   note="Four exhaustive families, not all strings up to 160 KiB. Hung cases are detected by an in-process watchdog (thread abandoned and replaced). Not judged: vtx::Player.")
CHECKS["C16"]=dict(level="exploration", ref="§C16",
   technique="schedule enumeration (all compositions of K frames into calls, deviation-bounded stopwatch answers, breakpoint subsets, all drain patterns, asset implementations) with a differential digest oracle",
   text="Five scenarios (ROM boot, ROM with key events at frame boundaries, autoloaded tape with fast load, real-time tape load, AY/beeper tune snapshot) on both machines are driven in every composition of the K frames into FrameCount(n) calls, in Max mode with each stopwatch reading chosen from {0, limit, limit+1 ns} up to a deviation bound, with breakpoint stops at subsets of eight ROM addresses and at every instruction, with sound off, with every drain/no-drain pattern, and with the same file bytes delivered by BufferCursor, chunked reads, a real file and GzipAsset; at every frame boundary reached, a digest of registers, all RAM, paging, frame clock, both frame buffers (and audio where comparable) must equal the default driving's digest for that frame; the default is run twice.",
   note="Exploration level: scenarios are five programs, K = 6 (quick) / 12 (thorough) frames. Not judged: number of frames a Max call emulates; audio when not drained every frame.")
NOT_YET = {
}
def main():
    props=[json.loads(l) for l in open('/verif/properties.jsonl')]
    checks=[]
    for pid,c in sorted(CHECKS.items()):
        checks.append({
          "property_id": pid,
          "quick_cmd": f"./check {pid} quick",
          "thorough_cmd": f"./check {pid} thorough",
          "evidence_file": f"/verif/evidence/{pid}.json",
          "replay_cmd_template": f"./check {pid} quick --replay {{path}}",
          "engine": "vcheck",
          "level_claimed": {"category": c["level"], "text": c["text"], "design_ref": c["ref"]},
          "level_note": c["note"],
          "technique": c["technique"],
        })
    na=[]
    for p in props:
        if p["id"] not in CHECKS:
            na.append({"property_id": p["id"], "reason": NOT_YET.get(p["id"], "check not built yet in this round; design in DESIGN.md §"+p["id"]+" (bounded exhaustive exploration applies, nothing claimed until the check exists)")})
    hooks=subprocess.run("git -C /repo log --format=%H --grep='^verif hooks'",shell=True,capture_output=True,text=True).stdout.split()
    m={
      "version":1,
      "setup_cmd":"cd /verif/harness && CARGO_NET_OFFLINE=true cargo build --release --offline -p vcheck -p refz80",
      "hooks":{"guard":"--cfg rustzx_verif","enable":"RUSTFLAGS via /verif/harness/.cargo/config.toml: --cfg rustzx_verif (harness path-depends on /repo crates, so every check rebuilds them from the working tree with hooks on)",
               "baseline_off_cmd":"cd /repo && cargo test --workspace --no-fail-fast --offline","source_commits":hooks,"add_only":True},
      "engines":[{"name":"vcheck","path":"/verif/harness/vcheck","serves_properties":sorted(CHECKS),"kind_free_text":"bounded exhaustive exploration on the real code: finite product enumeration, explicit-state BFS (clone or history replay), deviation-bounded environment exploration; lock-step reference models"}],
      "checks":checks,
      "not_applicable":na,
      "notes":"See DESIGN.md. Known findings: /verif/KNOWN_FINDINGS.txt. Exit 2 = machinery failure (never a verdict)."
    }
    json.dump(m,open('/verif/MANIFEST.json','w'),indent=1)
main()
