//! Independent reference model of the NMOS Zilog Z80.
//!
//! Written from the public documentation only (Zilog user manual, "The Undocumented Z80
//! Documented", the MEMPTR note, Patrik Rak's SCF/CCF "Q" findings, the classic per-instruction
//! bus-cycle breakdowns and the published research about the flags of repeating block
//! instructions).  All flags are computed from bit formulas.
//!
//! One `step()` is one hardware-granular step: an interrupt acceptance, a lone DD/FD prefix byte,
//! one iteration of a repeating block instruction, or one complete instruction.

#![forbid(unsafe_code)]

pub mod testbus;

pub const CF: u8 = 0x01;
pub const NF: u8 = 0x02;
pub const PF: u8 = 0x04;
pub const XF: u8 = 0x08;
pub const HF: u8 = 0x10;
pub const YF: u8 = 0x20;
pub const ZF: u8 = 0x40;
pub const SF: u8 = 0x80;
const XYF: u8 = XF | YF;

/// Bus seen by the reference CPU. One call = one documented machine-cycle piece.
pub trait RefBus {
    /// M1 opcode fetch cycle, 4 T-states (refresh included).
    fn m1(&mut self, addr: u16) -> u8;
    /// 3 T-state memory read
    fn mem_read(&mut self, addr: u16) -> u8;
    /// 3 T-state memory write
    fn mem_write(&mut self, addr: u16, val: u8);
    /// `n` additional single T-states during which `addr` is on the address bus without MREQ
    fn delay(&mut self, addr: u16, n: u8);
    /// 4 T-state I/O read cycle
    fn io_read(&mut self, port: u16) -> u8;
    /// 4 T-state I/O write cycle
    fn io_write(&mut self, port: u16, val: u8);
    /// Byte placed on the data bus during a maskable-interrupt acknowledge (takes no time by itself)
    fn int_ack(&mut self) -> u8;
    /// `n` T-states with no address of interest (used only inside interrupt/NMI acknowledge)
    fn idle(&mut self, n: u8);
    /// Level of INT, sampled by `step()` at an instruction boundary where acceptance is possible
    fn int_line(&mut self) -> bool;
    /// NMI request, sampled by `step()` at an instruction boundary where acceptance is possible
    fn nmi_line(&mut self) -> bool;
}

#[derive(Clone, Debug, PartialEq, Eq, Hash, Default)]
pub struct RefZ80 {
    pub a: u8,
    pub f: u8,
    pub b: u8,
    pub c: u8,
    pub d: u8,
    pub e: u8,
    pub h: u8,
    pub l: u8,
    pub a_alt: u8,
    pub f_alt: u8,
    pub b_alt: u8,
    pub c_alt: u8,
    pub d_alt: u8,
    pub e_alt: u8,
    pub h_alt: u8,
    pub l_alt: u8,
    pub ix: u16,
    pub iy: u16,
    pub sp: u16,
    pub pc: u16,
    pub i: u8,
    pub r: u8,
    pub iff1: bool,
    pub iff2: bool,
    /// 0, 1, 2
    pub im: u8,
    pub halted: bool,
    /// a.k.a. WZ
    pub memptr: u16,
    /// Q latch as it stands AFTER the last completed instruction: equal to F if that instruction
    /// modified F, else 0.  (SCF/CCF compute flags 3/5 from ((Q ^ F) | A).)
    pub q: u8,
    /// 0 = none, 0xDD / 0xFD = an index prefix has been fetched and the next opcode is still to come
    pub pending_prefix: u8,
    /// true right after EI (and DI): nothing is accepted at the next boundary
    pub int_inhibit: bool,
}

#[derive(Clone, Copy, Debug, PartialEq, Eq)]
pub enum StepKind {
    Instruction,
    Prefix,
    IntAccepted,
    NmiAccepted,
}

/// Index mode of the instruction being executed.
#[derive(Clone, Copy, PartialEq, Eq)]
enum Idx {
    Hl,
    Ix,
    Iy,
}

#[inline]
fn parity_even(v: u8) -> bool {
    v.count_ones() & 1 == 0
}

/// S, Z and the undocumented bits 5/3 of a result byte.
#[inline]
fn sz53(v: u8) -> u8 {
    (v & (SF | XYF)) | if v == 0 { ZF } else { 0 }
}

/// S, Z, 5, 3 and parity of a result byte.
#[inline]
fn sz53p(v: u8) -> u8 {
    sz53(v) | if parity_even(v) { PF } else { 0 }
}

#[inline]
fn hi(v: u16) -> u8 {
    (v >> 8) as u8
}

#[inline]
fn lo(v: u16) -> u8 {
    (v & 0xFF) as u8
}

#[inline]
fn mk16(h: u8, l: u8) -> u16 {
    ((h as u16) << 8) | l as u16
}

impl RefZ80 {
    pub fn new() -> Self {
        Self::default()
    }

    // ---------------------------------------------------------------- register helpers

    #[inline]
    pub fn af(&self) -> u16 {
        mk16(self.a, self.f)
    }
    #[inline]
    pub fn bc(&self) -> u16 {
        mk16(self.b, self.c)
    }
    #[inline]
    pub fn de(&self) -> u16 {
        mk16(self.d, self.e)
    }
    #[inline]
    pub fn hl(&self) -> u16 {
        mk16(self.h, self.l)
    }
    #[inline]
    pub fn set_bc(&mut self, v: u16) {
        self.b = hi(v);
        self.c = lo(v);
    }
    #[inline]
    pub fn set_de(&mut self, v: u16) {
        self.d = hi(v);
        self.e = lo(v);
    }
    #[inline]
    pub fn set_hl(&mut self, v: u16) {
        self.h = hi(v);
        self.l = lo(v);
    }
    /// (I << 8) | R as currently held.
    #[inline]
    pub fn ir(&self) -> u16 {
        mk16(self.i, self.r)
    }

    #[inline]
    fn inc_r(&mut self) {
        self.r = (self.r & 0x80) | (self.r.wrapping_add(1) & 0x7F);
    }

    /// Every write of F by an instruction goes through here so that Q tracks it.
    #[inline]
    fn set_f(&mut self, f: u8) {
        self.f = f;
        self.q = f;
    }

    #[inline]
    fn hlx(&self, idx: Idx) -> u16 {
        match idx {
            Idx::Hl => self.hl(),
            Idx::Ix => self.ix,
            Idx::Iy => self.iy,
        }
    }

    #[inline]
    fn set_hlx(&mut self, idx: Idx, v: u16) {
        match idx {
            Idx::Hl => self.set_hl(v),
            Idx::Ix => self.ix = v,
            Idx::Iy => self.iy = v,
        }
    }

    /// 8-bit register by encoding (0=B 1=C 2=D 3=E 4=H 5=L 7=A); 4/5 follow the index mode.
    fn get_r(&self, r: u8, idx: Idx) -> u8 {
        match r {
            0 => self.b,
            1 => self.c,
            2 => self.d,
            3 => self.e,
            4 => hi(self.hlx(idx)),
            5 => lo(self.hlx(idx)),
            7 => self.a,
            _ => unreachable!("(HL) is not a register"),
        }
    }

    fn set_r(&mut self, r: u8, idx: Idx, v: u8) {
        match r {
            0 => self.b = v,
            1 => self.c = v,
            2 => self.d = v,
            3 => self.e = v,
            4 => {
                let x = self.hlx(idx);
                self.set_hlx(idx, mk16(v, lo(x)));
            }
            5 => {
                let x = self.hlx(idx);
                self.set_hlx(idx, mk16(hi(x), v));
            }
            7 => self.a = v,
            _ => unreachable!("(HL) is not a register"),
        }
    }

    /// 16-bit register pair by encoding (0=BC 1=DE 2=HL/IX/IY 3=SP).
    fn get_rp(&self, p: u8, idx: Idx) -> u16 {
        match p {
            0 => self.bc(),
            1 => self.de(),
            2 => self.hlx(idx),
            _ => self.sp,
        }
    }

    fn set_rp(&mut self, p: u8, idx: Idx, v: u16) {
        match p {
            0 => self.set_bc(v),
            1 => self.set_de(v),
            2 => self.set_hlx(idx, v),
            _ => self.sp = v,
        }
    }

    fn cond(&self, y: u8) -> bool {
        match y & 7 {
            0 => self.f & ZF == 0,
            1 => self.f & ZF != 0,
            2 => self.f & CF == 0,
            3 => self.f & CF != 0,
            4 => self.f & PF == 0,
            5 => self.f & PF != 0,
            6 => self.f & SF == 0,
            _ => self.f & SF != 0,
        }
    }

    // ---------------------------------------------------------------- bus helpers

    #[inline]
    fn fetch_m1<B: RefBus>(&mut self, bus: &mut B) -> u8 {
        let v = bus.m1(self.pc);
        self.pc = self.pc.wrapping_add(1);
        self.inc_r();
        v
    }

    #[inline]
    fn imm8<B: RefBus>(&mut self, bus: &mut B) -> u8 {
        let v = bus.mem_read(self.pc);
        self.pc = self.pc.wrapping_add(1);
        v
    }

    #[inline]
    fn imm16<B: RefBus>(&mut self, bus: &mut B) -> u16 {
        let l = self.imm8(bus);
        let h = self.imm8(bus);
        mk16(h, l)
    }

    fn push16<B: RefBus>(&mut self, bus: &mut B, v: u16) {
        self.sp = self.sp.wrapping_sub(1);
        bus.mem_write(self.sp, hi(v));
        self.sp = self.sp.wrapping_sub(1);
        bus.mem_write(self.sp, lo(v));
    }

    fn pop16<B: RefBus>(&mut self, bus: &mut B) -> u16 {
        let l = bus.mem_read(self.sp);
        self.sp = self.sp.wrapping_add(1);
        let h = bus.mem_read(self.sp);
        self.sp = self.sp.wrapping_add(1);
        mk16(h, l)
    }

    /// Effective address of the `(HL)` operand of an unprefixed-table instruction.
    /// With an index prefix: reads the displacement (pc:3), 5 delay T-states on that byte's
    /// address, MEMPTR = IX+d.
    fn ea<B: RefBus>(&mut self, bus: &mut B, idx: Idx) -> u16 {
        if idx == Idx::Hl {
            return self.hl();
        }
        let dpc = self.pc;
        let d = self.imm8(bus) as i8;
        bus.delay(dpc, 5);
        let addr = self.hlx(idx).wrapping_add(d as i16 as u16);
        self.memptr = addr;
        addr
    }

    // ---------------------------------------------------------------- interrupts

    fn leave_halt_return_address(&mut self) -> u16 {
        if self.halted {
            self.halted = false;
            self.pc.wrapping_add(1)
        } else {
            self.pc
        }
    }

    fn enter_nmi<B: RefBus>(&mut self, bus: &mut B) {
        let ret = self.leave_halt_return_address();
        self.inc_r();
        self.iff1 = false;
        bus.idle(5);
        self.push16(bus, ret);
        self.pc = 0x0066;
        self.memptr = self.pc;
        self.q = 0;
    }

    fn enter_int<B: RefBus>(&mut self, bus: &mut B) {
        let ret = self.leave_halt_return_address();
        self.inc_r();
        self.iff1 = false;
        self.iff2 = false;
        bus.idle(7);
        self.push16(bus, ret);
        if self.im == 2 {
            let v = bus.int_ack();
            let addr = mk16(self.i, v);
            let l = bus.mem_read(addr);
            let h = bus.mem_read(addr.wrapping_add(1));
            self.pc = mk16(h, l);
        } else {
            self.pc = 0x0038;
        }
        self.memptr = self.pc;
        self.q = 0;
    }

    // ---------------------------------------------------------------- step

    /// Execute ONE hardware-granular step (see the crate documentation).
    pub fn step<B: RefBus>(&mut self, bus: &mut B) -> StepKind {
        if self.pending_prefix == 0 {
            if self.int_inhibit {
                self.int_inhibit = false;
            } else {
                if bus.nmi_line() {
                    self.enter_nmi(bus);
                    return StepKind::NmiAccepted;
                }
                if bus.int_line() && self.iff1 {
                    self.enter_int(bus);
                    return StepKind::IntAccepted;
                }
            }
        }

        if self.halted {
            // The CPU executes NOPs; by convention of this model the fetch address is PC itself.
            let _ = bus.m1(self.pc);
            self.inc_r();
            self.q = 0;
            return StepKind::Instruction;
        }

        let op = self.fetch_m1(bus);
        if op == 0xDD || op == 0xFD {
            self.pending_prefix = op;
            return StepKind::Prefix;
        }
        let idx = match self.pending_prefix {
            0xDD => Idx::Ix,
            0xFD => Idx::Iy,
            _ => Idx::Hl,
        };
        self.pending_prefix = 0;
        let q_in = self.q;
        self.q = 0;
        match op {
            0xCB => {
                if idx == Idx::Hl {
                    self.exec_cb(bus)
                } else {
                    self.exec_xycb(bus, idx)
                }
            }
            0xED => self.exec_ed(bus),
            _ => self.exec_main(bus, op, idx, q_in),
        }
        StepKind::Instruction
    }

    // ---------------------------------------------------------------- 8-bit ALU

    fn add8(&mut self, v: u8, carry: u8) {
        let a = self.a as u16;
        let b = v as u16;
        let r = a + b + carry as u16;
        let r8 = r as u8;
        let f = sz53(r8)
            | ((a ^ b ^ r) as u8 & HF)
            | ((((a ^ r) & (b ^ r) & 0x80) >> 5) as u8)
            | ((r >> 8) as u8 & CF);
        self.a = r8;
        self.set_f(f);
    }

    /// Returns the result; flags 5/3 taken from the result (caller of CP overrides them).
    fn sub8_flags(&mut self, v: u8, carry: u8) -> u8 {
        let a = self.a as u16;
        let b = v as u16;
        let r = a.wrapping_sub(b).wrapping_sub(carry as u16);
        let r8 = r as u8;
        let f = sz53(r8)
            | NF
            | ((a ^ b ^ r) as u8 & HF)
            | ((((a ^ b) & (a ^ r) & 0x80) >> 5) as u8)
            | ((r >> 8) as u8 & CF);
        self.set_f(f);
        r8
    }

    fn alu(&mut self, y: u8, v: u8) {
        match y & 7 {
            0 => self.add8(v, 0),
            1 => self.add8(v, self.f & CF),
            2 => self.a = self.sub8_flags(v, 0),
            3 => self.a = self.sub8_flags(v, self.f & CF),
            4 => {
                self.a &= v;
                self.set_f(sz53p(self.a) | HF);
            }
            5 => {
                self.a ^= v;
                self.set_f(sz53p(self.a));
            }
            6 => {
                self.a |= v;
                self.set_f(sz53p(self.a));
            }
            _ => {
                // CP: flags of A - v, bits 5/3 from the operand
                let _ = self.sub8_flags(v, 0);
                let f = (self.f & !XYF) | (v & XYF);
                self.set_f(f);
            }
        }
    }

    fn inc8(&mut self, v: u8) -> u8 {
        let r = v.wrapping_add(1);
        let mut f = (self.f & CF) | sz53(r);
        if r & 0x0F == 0 {
            f |= HF;
        }
        if r == 0x80 {
            f |= PF;
        }
        self.set_f(f);
        r
    }

    fn dec8(&mut self, v: u8) -> u8 {
        let r = v.wrapping_sub(1);
        let mut f = (self.f & CF) | NF | sz53(r);
        if r & 0x0F == 0x0F {
            f |= HF;
        }
        if r == 0x7F {
            f |= PF;
        }
        self.set_f(f);
        r
    }

    fn daa(&mut self) {
        let a = self.a;
        let mut corr = 0u8;
        let mut carry = self.f & CF;
        if self.f & HF != 0 || (a & 0x0F) > 9 {
            corr |= 0x06;
        }
        if carry != 0 || a > 0x99 {
            corr |= 0x60;
            carry = CF;
        }
        let r = if self.f & NF != 0 {
            a.wrapping_sub(corr)
        } else {
            a.wrapping_add(corr)
        };
        let f = sz53p(r) | (self.f & NF) | ((a ^ r) & HF) | carry;
        self.a = r;
        self.set_f(f);
    }

    /// Rotate/shift group of the CB table.
    fn rot(&mut self, y: u8, v: u8) -> u8 {
        let cin = self.f & CF;
        let (r, c) = match y & 7 {
            0 => (v.rotate_left(1), v >> 7),
            1 => (v.rotate_right(1), v & 1),
            2 => ((v << 1) | cin, v >> 7),
            3 => ((v >> 1) | (cin << 7), v & 1),
            4 => (v << 1, v >> 7),
            5 => ((v >> 1) | (v & 0x80), v & 1),
            6 => ((v << 1) | 1, v >> 7),
            _ => (v >> 1, v & 1),
        };
        self.set_f(sz53p(r) | c);
        r
    }

    /// BIT n: `xy` supplies bits 5/3.
    fn bit(&mut self, n: u8, v: u8, xy: u8) {
        let t = v & (1u8 << (n & 7));
        let mut f = (self.f & CF) | HF | (t & SF) | (xy & XYF);
        if t == 0 {
            f |= ZF | PF;
        }
        self.set_f(f);
    }

    // ---------------------------------------------------------------- 16-bit ALU

    fn add16(&mut self, a: u16, b: u16) -> u16 {
        let r = a as u32 + b as u32;
        let f = (self.f & (SF | ZF | PF))
            | (((a as u32 ^ b as u32 ^ r) >> 8) as u8 & HF)
            | ((r >> 16) as u8 & CF)
            | ((r >> 8) as u8 & XYF);
        self.set_f(f);
        r as u16
    }

    fn adc16(&mut self, a: u16, b: u16) -> u16 {
        let (a32, b32) = (a as u32, b as u32);
        let r = a32 + b32 + (self.f & CF) as u32;
        let r16 = r as u16;
        let mut f = ((r >> 8) as u8 & (SF | XYF))
            | (((a32 ^ b32 ^ r) >> 8) as u8 & HF)
            | ((((a32 ^ r) & (b32 ^ r) & 0x8000) >> 13) as u8)
            | ((r >> 16) as u8 & CF);
        if r16 == 0 {
            f |= ZF;
        }
        self.set_f(f);
        r16
    }

    fn sbc16(&mut self, a: u16, b: u16) -> u16 {
        let (a32, b32) = (a as u32, b as u32);
        let r = a32.wrapping_sub(b32).wrapping_sub((self.f & CF) as u32);
        let r16 = r as u16;
        let mut f = NF
            | ((r >> 8) as u8 & (SF | XYF))
            | (((a32 ^ b32 ^ r) >> 8) as u8 & HF)
            | ((((a32 ^ b32) & (a32 ^ r) & 0x8000) >> 13) as u8)
            | ((r >> 16) as u8 & CF);
        if r16 == 0 {
            f |= ZF;
        }
        self.set_f(f);
        r16
    }

    // ---------------------------------------------------------------- unprefixed table (with optional DD/FD)

    fn exec_main<B: RefBus>(&mut self, bus: &mut B, op: u8, idx: Idx, q_in: u8) {
        let x = op >> 6;
        let y = (op >> 3) & 7;
        let z = op & 7;
        let p = y >> 1;
        let qb = y & 1;
        match x {
            0 => match z {
                0 => match y {
                    0 => {} // NOP
                    1 => {
                        // EX AF,AF' (does not count as a flag-modifying instruction for Q)
                        core::mem::swap(&mut self.a, &mut self.a_alt);
                        core::mem::swap(&mut self.f, &mut self.f_alt);
                    }
                    2 => {
                        // DJNZ
                        bus.delay(self.ir(), 1);
                        let dpc = self.pc;
                        let d = self.imm8(bus) as i8;
                        self.b = self.b.wrapping_sub(1);
                        if self.b != 0 {
                            bus.delay(dpc, 5);
                            self.pc = self.pc.wrapping_add(d as i16 as u16);
                            self.memptr = self.pc;
                        }
                    }
                    _ => {
                        // JR d / JR cc,d
                        let dpc = self.pc;
                        let d = self.imm8(bus) as i8;
                        if y == 3 || self.cond(y - 4) {
                            bus.delay(dpc, 5);
                            self.pc = self.pc.wrapping_add(d as i16 as u16);
                            self.memptr = self.pc;
                        }
                    }
                },
                1 => {
                    if qb == 0 {
                        let nn = self.imm16(bus);
                        self.set_rp(p, idx, nn);
                    } else {
                        bus.delay(self.ir(), 7);
                        let a = self.hlx(idx);
                        let b = self.get_rp(p, idx);
                        self.memptr = a.wrapping_add(1);
                        let r = self.add16(a, b);
                        self.set_hlx(idx, r);
                    }
                }
                2 => match y {
                    0 | 2 => {
                        // LD (BC),A / LD (DE),A
                        let addr = if y == 0 { self.bc() } else { self.de() };
                        bus.mem_write(addr, self.a);
                        self.memptr = mk16(self.a, lo(addr.wrapping_add(1)));
                    }
                    1 | 3 => {
                        let addr = if y == 1 { self.bc() } else { self.de() };
                        self.a = bus.mem_read(addr);
                        self.memptr = addr.wrapping_add(1);
                    }
                    4 => {
                        let nn = self.imm16(bus);
                        let v = self.hlx(idx);
                        bus.mem_write(nn, lo(v));
                        bus.mem_write(nn.wrapping_add(1), hi(v));
                        self.memptr = nn.wrapping_add(1);
                    }
                    5 => {
                        let nn = self.imm16(bus);
                        let l = bus.mem_read(nn);
                        let h = bus.mem_read(nn.wrapping_add(1));
                        self.set_hlx(idx, mk16(h, l));
                        self.memptr = nn.wrapping_add(1);
                    }
                    6 => {
                        let nn = self.imm16(bus);
                        bus.mem_write(nn, self.a);
                        self.memptr = mk16(self.a, lo(nn.wrapping_add(1)));
                    }
                    _ => {
                        let nn = self.imm16(bus);
                        self.a = bus.mem_read(nn);
                        self.memptr = nn.wrapping_add(1);
                    }
                },
                3 => {
                    bus.delay(self.ir(), 2);
                    let v = self.get_rp(p, idx);
                    let r = if qb == 0 {
                        v.wrapping_add(1)
                    } else {
                        v.wrapping_sub(1)
                    };
                    self.set_rp(p, idx, r);
                }
                4 | 5 => {
                    if y == 6 {
                        let addr = self.ea(bus, idx);
                        let v = bus.mem_read(addr);
                        bus.delay(addr, 1);
                        let r = if z == 4 { self.inc8(v) } else { self.dec8(v) };
                        bus.mem_write(addr, r);
                    } else {
                        let v = self.get_r(y, idx);
                        let r = if z == 4 { self.inc8(v) } else { self.dec8(v) };
                        self.set_r(y, idx, r);
                    }
                }
                6 => {
                    if y == 6 {
                        if idx == Idx::Hl {
                            let n = self.imm8(bus);
                            bus.mem_write(self.hl(), n);
                        } else {
                            let d = self.imm8(bus) as i8;
                            let npc = self.pc;
                            let n = self.imm8(bus);
                            bus.delay(npc, 2);
                            let addr = self.hlx(idx).wrapping_add(d as i16 as u16);
                            self.memptr = addr;
                            bus.mem_write(addr, n);
                        }
                    } else {
                        let n = self.imm8(bus);
                        self.set_r(y, idx, n);
                    }
                }
                _ => match y {
                    0 => {
                        // RLCA
                        let c = self.a >> 7;
                        self.a = self.a.rotate_left(1);
                        self.set_f((self.f & (SF | ZF | PF)) | (self.a & XYF) | c);
                    }
                    1 => {
                        // RRCA
                        let c = self.a & 1;
                        self.a = self.a.rotate_right(1);
                        self.set_f((self.f & (SF | ZF | PF)) | (self.a & XYF) | c);
                    }
                    2 => {
                        // RLA
                        let c = self.a >> 7;
                        self.a = (self.a << 1) | (self.f & CF);
                        self.set_f((self.f & (SF | ZF | PF)) | (self.a & XYF) | c);
                    }
                    3 => {
                        // RRA
                        let c = self.a & 1;
                        self.a = (self.a >> 1) | ((self.f & CF) << 7);
                        self.set_f((self.f & (SF | ZF | PF)) | (self.a & XYF) | c);
                    }
                    4 => self.daa(),
                    5 => {
                        self.a = !self.a;
                        self.set_f((self.f & (SF | ZF | PF | CF)) | HF | NF | (self.a & XYF));
                    }
                    6 => {
                        // SCF
                        let xy = ((q_in ^ self.f) | self.a) & XYF;
                        self.set_f((self.f & (SF | ZF | PF)) | CF | xy);
                    }
                    _ => {
                        // CCF
                        let xy = ((q_in ^ self.f) | self.a) & XYF;
                        let hc = if self.f & CF != 0 { HF } else { CF };
                        self.set_f((self.f & (SF | ZF | PF)) | hc | xy);
                    }
                },
            },
            1 => {
                if op == 0x76 {
                    // HALT: PC stays on the HALT opcode
                    self.halted = true;
                    self.pc = self.pc.wrapping_sub(1);
                } else if z == 6 {
                    let addr = self.ea(bus, idx);
                    let v = bus.mem_read(addr);
                    self.set_r(y, Idx::Hl, v);
                } else if y == 6 {
                    let addr = self.ea(bus, idx);
                    let v = self.get_r(z, Idx::Hl);
                    bus.mem_write(addr, v);
                } else {
                    let v = self.get_r(z, idx);
                    self.set_r(y, idx, v);
                }
            }
            2 => {
                let v = if z == 6 {
                    let addr = self.ea(bus, idx);
                    bus.mem_read(addr)
                } else {
                    self.get_r(z, idx)
                };
                self.alu(y, v);
            }
            _ => match z {
                0 => {
                    // RET cc
                    bus.delay(self.ir(), 1);
                    if self.cond(y) {
                        self.pc = self.pop16(bus);
                        self.memptr = self.pc;
                    }
                }
                1 => {
                    if qb == 0 {
                        let v = self.pop16(bus);
                        if p == 3 {
                            // POP AF (does not count as a flag-modifying instruction for Q)
                            self.a = hi(v);
                            self.f = lo(v);
                        } else {
                            self.set_rp(p, idx, v);
                        }
                    } else {
                        match p {
                            0 => {
                                self.pc = self.pop16(bus);
                                self.memptr = self.pc;
                            }
                            1 => {
                                core::mem::swap(&mut self.b, &mut self.b_alt);
                                core::mem::swap(&mut self.c, &mut self.c_alt);
                                core::mem::swap(&mut self.d, &mut self.d_alt);
                                core::mem::swap(&mut self.e, &mut self.e_alt);
                                core::mem::swap(&mut self.h, &mut self.h_alt);
                                core::mem::swap(&mut self.l, &mut self.l_alt);
                            }
                            2 => self.pc = self.hlx(idx),
                            _ => {
                                bus.delay(self.ir(), 2);
                                self.sp = self.hlx(idx);
                            }
                        }
                    }
                }
                2 => {
                    let nn = self.imm16(bus);
                    self.memptr = nn;
                    if self.cond(y) {
                        self.pc = nn;
                    }
                }
                3 => match y {
                    0 => {
                        let nn = self.imm16(bus);
                        self.memptr = nn;
                        self.pc = nn;
                    }
                    1 => unreachable!("CB handled by step()"),
                    2 => {
                        // OUT (n),A
                        let n = self.imm8(bus);
                        bus.io_write(mk16(self.a, n), self.a);
                        self.memptr = mk16(self.a, n.wrapping_add(1));
                    }
                    3 => {
                        // IN A,(n)
                        let n = self.imm8(bus);
                        let port = mk16(self.a, n);
                        self.a = bus.io_read(port);
                        self.memptr = port.wrapping_add(1);
                    }
                    4 => {
                        // EX (SP),HL
                        let l = bus.mem_read(self.sp);
                        let sp1 = self.sp.wrapping_add(1);
                        let h = bus.mem_read(sp1);
                        bus.delay(sp1, 1);
                        let old = self.hlx(idx);
                        bus.mem_write(sp1, hi(old));
                        bus.mem_write(self.sp, lo(old));
                        bus.delay(self.sp, 2);
                        let new = mk16(h, l);
                        self.set_hlx(idx, new);
                        self.memptr = new;
                    }
                    5 => {
                        // EX DE,HL (never affected by the index prefix)
                        core::mem::swap(&mut self.d, &mut self.h);
                        core::mem::swap(&mut self.e, &mut self.l);
                    }
                    6 => {
                        self.iff1 = false;
                        self.iff2 = false;
                        self.int_inhibit = true;
                    }
                    _ => {
                        self.iff1 = true;
                        self.iff2 = true;
                        self.int_inhibit = true;
                    }
                },
                4 => {
                    // CALL cc,nn
                    let l = self.imm8(bus);
                    let hpc = self.pc;
                    let h = self.imm8(bus);
                    let nn = mk16(h, l);
                    self.memptr = nn;
                    if self.cond(y) {
                        bus.delay(hpc, 1);
                        let ret = self.pc;
                        self.push16(bus, ret);
                        self.pc = nn;
                    }
                }
                5 => {
                    if qb == 0 {
                        bus.delay(self.ir(), 1);
                        let v = if p == 3 {
                            self.af()
                        } else {
                            self.get_rp(p, idx)
                        };
                        self.push16(bus, v);
                    } else {
                        // only p == 0 (CALL nn) reaches here: DD/ED/FD are handled by step()
                        debug_assert!(p == 0);
                        let l = self.imm8(bus);
                        let hpc = self.pc;
                        let h = self.imm8(bus);
                        let nn = mk16(h, l);
                        self.memptr = nn;
                        bus.delay(hpc, 1);
                        let ret = self.pc;
                        self.push16(bus, ret);
                        self.pc = nn;
                    }
                }
                6 => {
                    let n = self.imm8(bus);
                    self.alu(y, n);
                }
                _ => {
                    // RST
                    bus.delay(self.ir(), 1);
                    let ret = self.pc;
                    self.push16(bus, ret);
                    self.pc = (y as u16) << 3;
                    self.memptr = self.pc;
                }
            },
        }
    }

    // ---------------------------------------------------------------- CB table

    fn exec_cb<B: RefBus>(&mut self, bus: &mut B) {
        let op = self.fetch_m1(bus);
        let x = op >> 6;
        let y = (op >> 3) & 7;
        let z = op & 7;
        if z == 6 {
            let addr = self.hl();
            let v = bus.mem_read(addr);
            bus.delay(addr, 1);
            match x {
                0 => {
                    let r = self.rot(y, v);
                    bus.mem_write(addr, r);
                }
                1 => self.bit(y, v, hi(self.memptr)),
                2 => bus.mem_write(addr, v & !(1u8 << y)),
                _ => bus.mem_write(addr, v | (1u8 << y)),
            }
        } else {
            let v = self.get_r(z, Idx::Hl);
            match x {
                0 => {
                    let r = self.rot(y, v);
                    self.set_r(z, Idx::Hl, r);
                }
                1 => self.bit(y, v, v),
                2 => self.set_r(z, Idx::Hl, v & !(1u8 << y)),
                _ => self.set_r(z, Idx::Hl, v | (1u8 << y)),
            }
        }
    }

    /// DDCB / FDCB: the CB byte has already been fetched with M1 by `step()`.
    fn exec_xycb<B: RefBus>(&mut self, bus: &mut B, idx: Idx) {
        let d = self.imm8(bus) as i8;
        let opc = self.pc;
        let op = self.imm8(bus);
        bus.delay(opc, 2);
        let addr = self.hlx(idx).wrapping_add(d as i16 as u16);
        self.memptr = addr;
        let x = op >> 6;
        let y = (op >> 3) & 7;
        let z = op & 7;
        let v = bus.mem_read(addr);
        bus.delay(addr, 1);
        if x == 1 {
            self.bit(y, v, hi(addr));
            return;
        }
        let r = match x {
            0 => self.rot(y, v),
            2 => v & !(1u8 << y),
            _ => v | (1u8 << y),
        };
        bus.mem_write(addr, r);
        if z != 6 {
            self.set_r(z, Idx::Hl, r);
        }
    }

    // ---------------------------------------------------------------- ED table

    fn exec_ed<B: RefBus>(&mut self, bus: &mut B) {
        let op = self.fetch_m1(bus);
        let x = op >> 6;
        let y = (op >> 3) & 7;
        let z = op & 7;
        let p = y >> 1;
        let qb = y & 1;
        match x {
            1 => match z {
                0 => {
                    // IN r,(C) / IN F,(C)
                    let port = self.bc();
                    let v = bus.io_read(port);
                    self.memptr = port.wrapping_add(1);
                    if y != 6 {
                        self.set_r(y, Idx::Hl, v);
                    }
                    self.set_f((self.f & CF) | sz53p(v));
                }
                1 => {
                    // OUT (C),r / OUT (C),0
                    let port = self.bc();
                    let v = if y == 6 { 0 } else { self.get_r(y, Idx::Hl) };
                    bus.io_write(port, v);
                    self.memptr = port.wrapping_add(1);
                }
                2 => {
                    bus.delay(self.ir(), 7);
                    let a = self.hl();
                    let b = self.get_rp(p, Idx::Hl);
                    self.memptr = a.wrapping_add(1);
                    let r = if qb == 0 {
                        self.sbc16(a, b)
                    } else {
                        self.adc16(a, b)
                    };
                    self.set_hl(r);
                }
                3 => {
                    let nn = self.imm16(bus);
                    if qb == 0 {
                        let v = self.get_rp(p, Idx::Hl);
                        bus.mem_write(nn, lo(v));
                        bus.mem_write(nn.wrapping_add(1), hi(v));
                    } else {
                        let l = bus.mem_read(nn);
                        let h = bus.mem_read(nn.wrapping_add(1));
                        self.set_rp(p, Idx::Hl, mk16(h, l));
                    }
                    self.memptr = nn.wrapping_add(1);
                }
                4 => {
                    // NEG (and mirrors)
                    let v = self.a;
                    self.a = 0;
                    self.a = self.sub8_flags(v, 0);
                }
                5 => {
                    // RETN / RETI (and mirrors)
                    self.pc = self.pop16(bus);
                    self.memptr = self.pc;
                    self.iff1 = self.iff2;
                }
                6 => {
                    self.im = match y {
                        0 | 1 | 4 | 5 => 0,
                        2 | 6 => 1,
                        _ => 2,
                    };
                }
                _ => match y {
                    0 => {
                        bus.delay(self.ir(), 1);
                        self.i = self.a;
                    }
                    1 => {
                        bus.delay(self.ir(), 1);
                        self.r = self.a;
                    }
                    2 => {
                        bus.delay(self.ir(), 1);
                        self.a = self.i;
                        let pv = if self.iff2 { PF } else { 0 };
                        self.set_f((self.f & CF) | sz53(self.a) | pv);
                    }
                    3 => {
                        bus.delay(self.ir(), 1);
                        self.a = self.r;
                        let pv = if self.iff2 { PF } else { 0 };
                        self.set_f((self.f & CF) | sz53(self.a) | pv);
                    }
                    4 => {
                        // RRD
                        let addr = self.hl();
                        let v = bus.mem_read(addr);
                        bus.delay(addr, 4);
                        let nv = (self.a << 4) | (v >> 4);
                        self.a = (self.a & 0xF0) | (v & 0x0F);
                        bus.mem_write(addr, nv);
                        self.memptr = addr.wrapping_add(1);
                        self.set_f((self.f & CF) | sz53p(self.a));
                    }
                    5 => {
                        // RLD
                        let addr = self.hl();
                        let v = bus.mem_read(addr);
                        bus.delay(addr, 4);
                        let nv = (v << 4) | (self.a & 0x0F);
                        self.a = (self.a & 0xF0) | (v >> 4);
                        bus.mem_write(addr, nv);
                        self.memptr = addr.wrapping_add(1);
                        self.set_f((self.f & CF) | sz53p(self.a));
                    }
                    _ => {} // ED 77 / ED 7F: NOP
                },
            },
            2 if y >= 4 && z <= 3 => {
                let dec = y & 1 != 0; // xxD variants
                let rep = y >= 6;
                match z {
                    0 => self.block_ld(bus, dec, rep),
                    1 => self.block_cp(bus, dec, rep),
                    2 => self.block_in(bus, dec, rep),
                    _ => self.block_out(bus, dec, rep),
                }
            }
            _ => {} // undefined ED opcode: 8 T-state NOP, Q = 0
        }
    }

    // ---------------------------------------------------------------- block instructions

    /// Address of the ED prefix of the block instruction being executed (PC already points past it).
    #[inline]
    fn rewind_block(&mut self) {
        self.pc = self.pc.wrapping_sub(2);
    }

    fn block_ld<B: RefBus>(&mut self, bus: &mut B, dec: bool, rep: bool) {
        let hl = self.hl();
        let de = self.de();
        let v = bus.mem_read(hl);
        bus.mem_write(de, v);
        bus.delay(de, 2);
        let bc = self.bc().wrapping_sub(1);
        self.set_bc(bc);
        let n = v.wrapping_add(self.a);
        let mut f = (self.f & (SF | ZF | CF)) | (n & XF) | ((n & 0x02) << 4);
        if bc != 0 {
            f |= PF;
        }
        if rep && bc != 0 {
            bus.delay(de, 5);
            self.rewind_block();
            self.memptr = self.pc.wrapping_add(1);
            f = (f & !XYF) | (hi(self.pc) & XYF);
        }
        self.set_f(f);
        let step = if dec { 0xFFFFu16 } else { 1 };
        self.set_hl(hl.wrapping_add(step));
        self.set_de(de.wrapping_add(step));
    }

    fn block_cp<B: RefBus>(&mut self, bus: &mut B, dec: bool, rep: bool) {
        let hl = self.hl();
        let v = bus.mem_read(hl);
        bus.delay(hl, 5);
        let r = self.a.wrapping_sub(v);
        let hf = (self.a ^ v ^ r) & HF;
        let n = r.wrapping_sub(hf >> 4);
        let bc = self.bc().wrapping_sub(1);
        self.set_bc(bc);
        let mut f = (self.f & CF)
            | NF
            | hf
            | (r & SF)
            | if r == 0 { ZF } else { 0 }
            | (n & XF)
            | ((n & 0x02) << 4);
        if bc != 0 {
            f |= PF;
        }
        let step = if dec { 0xFFFFu16 } else { 1 };
        self.memptr = self.memptr.wrapping_add(step);
        if rep && bc != 0 && r != 0 {
            bus.delay(hl, 5);
            self.rewind_block();
            self.memptr = self.pc.wrapping_add(1);
            f = (f & !XYF) | (hi(self.pc) & XYF);
        }
        self.set_f(f);
        self.set_hl(hl.wrapping_add(step));
    }

    /// Flags common to INI/IND/OUTI/OUTD; `k` is the 9-bit sum documented for each of them.
    fn block_io_flags(&self, v: u8, k: u16) -> u8 {
        let mut f = sz53(self.b);
        if v & 0x80 != 0 {
            f |= NF;
        }
        if k > 0xFF {
            f |= HF | CF;
        }
        if parity_even((k as u8 & 7) ^ self.b) {
            f |= PF;
        }
        f
    }

    /// Flag corrections applied when INIR/INDR/OTIR/OTDR decide to repeat
    /// (`self.pc` already rewound to the ED prefix, `self.b` already decremented).
    fn block_io_repeat_flags(&self, mut f: u8, v: u8) -> u8 {
        f = (f & !XYF) | (hi(self.pc) & XYF);
        let b = self.b;
        if f & CF != 0 {
            f &= !HF;
            let t = if v & 0x80 != 0 {
                if b & 0x0F == 0x00 {
                    f |= HF;
                }
                b.wrapping_sub(1)
            } else {
                if b & 0x0F == 0x0F {
                    f |= HF;
                }
                b.wrapping_add(1)
            };
            if !parity_even(t & 7) {
                f ^= PF;
            }
        } else if !parity_even(b & 7) {
            f ^= PF;
        }
        f
    }

    fn block_in<B: RefBus>(&mut self, bus: &mut B, dec: bool, rep: bool) {
        bus.delay(self.ir(), 1);
        let bc = self.bc();
        let hl = self.hl();
        let v = bus.io_read(bc);
        bus.mem_write(hl, v);
        let step = if dec { 0xFFFFu16 } else { 1 };
        self.memptr = bc.wrapping_add(step);
        self.b = self.b.wrapping_sub(1);
        let c1 = lo((self.c as u16).wrapping_add(step));
        let k = v as u16 + c1 as u16;
        let mut f = self.block_io_flags(v, k);
        if rep && self.b != 0 {
            bus.delay(hl, 5);
            self.rewind_block();
            f = self.block_io_repeat_flags(f, v);
        }
        self.set_f(f);
        self.set_hl(hl.wrapping_add(step));
    }

    fn block_out<B: RefBus>(&mut self, bus: &mut B, dec: bool, rep: bool) {
        bus.delay(self.ir(), 1);
        let hl = self.hl();
        let v = bus.mem_read(hl);
        self.b = self.b.wrapping_sub(1);
        let bc = self.bc();
        bus.io_write(bc, v);
        let step = if dec { 0xFFFFu16 } else { 1 };
        self.memptr = bc.wrapping_add(step);
        let nhl = hl.wrapping_add(step);
        self.set_hl(nhl);
        let k = v as u16 + lo(nhl) as u16;
        let mut f = self.block_io_flags(v, k);
        if rep && self.b != 0 {
            bus.delay(bc, 5);
            self.rewind_block();
            f = self.block_io_repeat_flags(f, v);
        }
        self.set_f(f);
    }
}

#[cfg(test)]
mod tests;
