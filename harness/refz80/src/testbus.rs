//! A flat 64K test bus with T-state counter and optional event log.

use crate::RefBus;

#[derive(Clone, Debug, PartialEq, Eq)]
pub enum BusEvent {
    M1(u16, u8),
    Read(u16, u8),
    Write(u16, u8),
    /// address, number of T-states
    Delay(u16, u8),
    IoRead(u16, u8),
    IoWrite(u16, u8),
    IntAck(u8),
    Idle(u8),
}

impl BusEvent {
    /// Number of T-states the event accounts for.
    pub fn t_states(&self) -> u64 {
        match *self {
            BusEvent::M1(..) => 4,
            BusEvent::Read(..) | BusEvent::Write(..) => 3,
            BusEvent::Delay(_, n) | BusEvent::Idle(n) => n as u64,
            BusEvent::IoRead(..) | BusEvent::IoWrite(..) => 4,
            BusEvent::IntAck(_) => 0,
        }
    }
}

/// Flat 64K RAM (optionally with the low 16K write-protected), no contention.
#[derive(Clone, Debug)]
pub struct FlatBus {
    pub mem: Box<[u8; 65536]>,
    /// ignore writes below 0x4000
    pub rom_protect: bool,
    /// elapsed T-states
    pub t: u64,
    /// record every bus call into `log`
    pub logging: bool,
    pub log: Vec<BusEvent>,
    /// value returned by `io_read` for even / odd ports (defaults: 0xBF idle keyboard / 0xFF)
    pub io_even: u8,
    pub io_odd: u8,
    /// level of the INT line
    pub int: bool,
    /// pending NMI request; consumed when `nmi_line()` reports it
    pub nmi: bool,
    /// byte supplied on interrupt acknowledge
    pub int_vector: u8,
}

impl Default for FlatBus {
    fn default() -> Self {
        Self::new()
    }
}

impl FlatBus {
    pub fn new() -> Self {
        let mem: Box<[u8; 65536]> = vec![0u8; 65536]
            .into_boxed_slice()
            .try_into()
            .expect("64K allocation");
        FlatBus {
            mem,
            rom_protect: false,
            t: 0,
            logging: false,
            log: Vec::new(),
            io_even: 0xBF,
            io_odd: 0xFF,
            int: false,
            nmi: false,
            int_vector: 0xFF,
        }
    }

    /// Copy `data` into memory at `addr` (wrapping at 64K), ignoring `rom_protect`.
    pub fn load(&mut self, addr: u16, data: &[u8]) {
        let mut a = addr;
        for &b in data {
            self.mem[a as usize] = b;
            a = a.wrapping_add(1);
        }
    }

    #[inline]
    pub fn peek(&self, addr: u16) -> u8 {
        self.mem[addr as usize]
    }

    #[inline]
    pub fn peek16(&self, addr: u16) -> u16 {
        self.peek(addr) as u16 | (self.peek(addr.wrapping_add(1)) as u16) << 8
    }

    #[inline]
    fn ev(&mut self, e: BusEvent) {
        if self.logging {
            self.log.push(e);
        }
    }
}

impl RefBus for FlatBus {
    #[inline]
    fn m1(&mut self, addr: u16) -> u8 {
        let v = self.mem[addr as usize];
        self.t += 4;
        self.ev(BusEvent::M1(addr, v));
        v
    }

    #[inline]
    fn mem_read(&mut self, addr: u16) -> u8 {
        let v = self.mem[addr as usize];
        self.t += 3;
        self.ev(BusEvent::Read(addr, v));
        v
    }

    #[inline]
    fn mem_write(&mut self, addr: u16, val: u8) {
        if !(self.rom_protect && addr < 0x4000) {
            self.mem[addr as usize] = val;
        }
        self.t += 3;
        self.ev(BusEvent::Write(addr, val));
    }

    #[inline]
    fn delay(&mut self, addr: u16, n: u8) {
        self.t += n as u64;
        self.ev(BusEvent::Delay(addr, n));
    }

    #[inline]
    fn io_read(&mut self, port: u16) -> u8 {
        let v = if port & 1 == 0 { self.io_even } else { self.io_odd };
        self.t += 4;
        self.ev(BusEvent::IoRead(port, v));
        v
    }

    #[inline]
    fn io_write(&mut self, port: u16, val: u8) {
        self.t += 4;
        self.ev(BusEvent::IoWrite(port, val));
    }

    #[inline]
    fn int_ack(&mut self) -> u8 {
        let v = self.int_vector;
        self.ev(BusEvent::IntAck(v));
        v
    }

    #[inline]
    fn idle(&mut self, n: u8) {
        self.t += n as u64;
        self.ev(BusEvent::Idle(n));
    }

    #[inline]
    fn int_line(&mut self) -> bool {
        self.int
    }

    #[inline]
    fn nmi_line(&mut self) -> bool {
        let v = self.nmi;
        self.nmi = false;
        v
    }
}
