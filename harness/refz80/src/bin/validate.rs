//! Validation of the reference Z80 against the classic instruction exercisers.
//!
//! usage: validate <zexall|z80full|z80memptr|z80ccf|z80bltst|all> [-v]
//!
//! Prints `ORACLE <suite> tests=<n> failed=<k>` per suite and exits with 0 only if every test of
//! every requested suite passed.

use refz80::testbus::FlatBus;
use refz80::{RefBus, RefZ80, StepKind};
use std::io::Read;

const ZEXALL_PATH: &str = "/repo/rustzx-z80/tests/integration/assets/zexall.com";
const ROM48_PATH: &str = "/repo/rustzx-core/src/zx/roms/48.rom";
const TAPE_DIR: &str = "/repo/rustzx-test/test_data";

struct SuiteResult {
    name: String,
    tests: usize,
    failed: Vec<String>,
    /// tests the suite itself declined to run (only tolerated where documented)
    skipped: Vec<String>,
    /// a structural problem (missing summary line, wrong test count, runaway ...)
    error: Option<String>,
}

impl SuiteResult {
    fn broken(name: String, error: String) -> Self {
        SuiteResult { name, tests: 0, failed: vec![], skipped: vec![], error: Some(error) }
    }
    fn ok(&self) -> bool {
        self.failed.is_empty() && self.error.is_none() && self.tests > 0
    }
}

// ------------------------------------------------------------------------------------ zexall

fn run_zexall(verbose: bool) -> SuiteResult {
    let name = "zexall".to_string();
    let image = match std::fs::read(ZEXALL_PATH) {
        Ok(d) => d,
        Err(e) => {
            return SuiteResult::broken(name, format!("{ZEXALL_PATH}: {e}"));
        }
    };
    let mut bus = FlatBus::new();
    bus.load(0x0100, &image);
    // BDOS entry: a bare RET; the call itself is emulated when PC reaches 5
    bus.mem[0x0005] = 0xC9;
    // word at 6 = top of the transient program area, used by the exerciser to set SP
    bus.mem[0x0006] = 0x00;
    bus.mem[0x0007] = 0xC0;
    let mut cpu = RefZ80::new();
    cpu.pc = 0x0100;
    cpu.sp = 0xC000;

    let mut out = String::new();
    let mut error = None;
    // the complete run needs about 46.7e9 T-states
    let limit: u64 = 80_000_000_000;
    loop {
        if cpu.pending_prefix == 0 {
            if cpu.pc == 0x0000 {
                break;
            }
            if cpu.pc == 0x0005 {
                match cpu.c {
                    2 => {
                        let ch = cpu.e as char;
                        if verbose {
                            print!("{ch}");
                        }
                        out.push(ch);
                    }
                    9 => {
                        let mut a = cpu.de();
                        let mut n = 0;
                        while bus.peek(a) != b'$' && n < 1000 {
                            let ch = bus.peek(a) as char;
                            if verbose {
                                print!("{ch}");
                            }
                            out.push(ch);
                            a = a.wrapping_add(1);
                            n += 1;
                        }
                    }
                    _ => {}
                }
                if verbose {
                    use std::io::Write;
                    let _ = std::io::stdout().flush();
                }
            }
        }
        cpu.step(&mut bus);
        if bus.t > limit {
            error = Some("T-state limit exceeded".to_string());
            break;
        }
    }

    let mut tests = 0;
    let mut failed = Vec::new();
    for line in out.split('\n') {
        let line = line.trim_matches(|c| c == '\r' || c == ' ');
        if line.is_empty() {
            continue;
        }
        if line.ends_with("OK") {
            tests += 1;
        } else if line.contains("ERROR") {
            tests += 1;
            failed.push(line.to_string());
        }
    }
    if error.is_none() && tests != 67 {
        error = Some(format!("expected 67 test groups, saw {tests}"));
    }
    if error.is_none() && !out.contains("Tests complete") {
        error = Some("final 'Tests complete' message missing".to_string());
    }
    if verbose {
        println!("\n[zexall: {} T-states]", bus.t);
    }
    SuiteResult { name, tests, failed, skipped: vec![], error }
}

// ------------------------------------------------------------------------------------ Spectrum tapes

fn gunzip(path: &str) -> Result<Vec<u8>, String> {
    let f = std::fs::File::open(path).map_err(|e| format!("{path}: {e}"))?;
    let mut d = flate2::read::GzDecoder::new(f);
    let mut v = Vec::new();
    d.read_to_end(&mut v).map_err(|e| format!("{path}: {e}"))?;
    Ok(v)
}

/// Returns (load address, data) of the first CODE block of a .TAP image.
fn tap_code_block(tap: &[u8]) -> Result<(u16, Vec<u8>), String> {
    let mut blocks: Vec<&[u8]> = Vec::new();
    let mut p = 0usize;
    while p + 2 <= tap.len() {
        let len = tap[p] as usize | (tap[p + 1] as usize) << 8;
        p += 2;
        if p + len > tap.len() {
            return Err("truncated TAP block".to_string());
        }
        blocks.push(&tap[p..p + len]);
        p += len;
    }
    for w in blocks.windows(2) {
        let (h, d) = (w[0], w[1]);
        // header: flag 0, type 3 = CODE, 10 name bytes, length, start, unused, checksum
        if h.len() == 19 && h[0] == 0x00 && h[1] == 3 && !d.is_empty() && d[0] == 0xFF {
            let len = h[12] as usize | (h[13] as usize) << 8;
            let start = h[14] as u16 | (h[15] as u16) << 8;
            if d.len() != len + 2 {
                return Err(format!("CODE block length mismatch: header {len}, block {}", d.len()));
            }
            let x = d.iter().fold(0u8, |a, b| a ^ b);
            if x != 0 {
                return Err("CODE block checksum error".to_string());
            }
            return Ok((start, d[1..1 + len].to_vec()));
        }
    }
    Err("no CODE block found".to_string())
}

/// FlatBus plus an optional periodic frame interrupt (INT low for 32 T-states every `frame` T-states).
struct FrameBus {
    flat: FlatBus,
    /// 0 = no interrupts at all
    frame: u64,
    /// a Kempston interface answering 0x00 on port 0x1F (needed by z80bltst's INIR rows)
    kempston: bool,
}

impl RefBus for FrameBus {
    #[inline]
    fn m1(&mut self, addr: u16) -> u8 {
        self.flat.m1(addr)
    }
    #[inline]
    fn mem_read(&mut self, addr: u16) -> u8 {
        self.flat.mem_read(addr)
    }
    #[inline]
    fn mem_write(&mut self, addr: u16, val: u8) {
        self.flat.mem_write(addr, val)
    }
    #[inline]
    fn delay(&mut self, addr: u16, n: u8) {
        self.flat.delay(addr, n)
    }
    #[inline]
    fn io_read(&mut self, port: u16) -> u8 {
        let v = self.flat.io_read(port);
        if self.kempston && port & 0xFF == 0x1F {
            0x00
        } else {
            v
        }
    }
    #[inline]
    fn io_write(&mut self, port: u16, val: u8) {
        self.flat.io_write(port, val)
    }
    #[inline]
    fn int_ack(&mut self) -> u8 {
        self.flat.int_ack()
    }
    #[inline]
    fn idle(&mut self, n: u8) {
        self.flat.idle(n)
    }
    #[inline]
    fn int_line(&mut self) -> bool {
        self.frame != 0 && self.flat.t % self.frame < 32
    }
    #[inline]
    fn nmi_line(&mut self) -> bool {
        false
    }
}

/// Runs a Spectrum test program that prints through RST 10h; returns the printed text.
/// `frame` = length of a video frame in T-states for the periodic interrupt (0 = no interrupts);
/// `extra_ret_traps` = further ROM entry points replaced by a bare RET.
fn run_spectrum_program(
    tape: &str,
    verbose: bool,
    limit: u64,
    frame: u64,
    extra_ret_traps: &[u16],
) -> Result<(String, u64), String> {
    let tap = gunzip(&format!("{TAPE_DIR}/{tape}.tap.gz"))?;
    let (start, code) = tap_code_block(&tap)?;
    let rom = std::fs::read(ROM48_PATH).map_err(|e| format!("{ROM48_PATH}: {e}"))?;
    if rom.len() != 0x4000 {
        return Err("48.rom is not 16K".to_string());
    }
    let mut flat = FlatBus::new();
    flat.load(0x0000, &rom);
    flat.load(start, &code);
    flat.rom_protect = true;
    flat.io_even = 0xBF;
    flat.io_odd = 0xFF;
    flat.int_vector = 0xFF;
    let mut bus = FrameBus { flat, frame, kempston: frame != 0 };

    const EXIT: u16 = 0x0000; // trapped return address of the whole program
    let mut cpu = RefZ80::new();
    cpu.sp = 0x7FF0;
    cpu.sp = cpu.sp.wrapping_sub(2);
    bus.flat.mem[cpu.sp as usize] = (EXIT & 0xFF) as u8;
    bus.flat.mem[cpu.sp as usize + 1] = (EXIT >> 8) as u8;
    cpu.pc = start;
    cpu.iy = 0x5C3A;
    cpu.im = 1;
    cpu.i = 0x3F;

    let mut out = String::new();
    let mut skip = 0u8; // operand bytes of a control code still to come
    loop {
        if cpu.pending_prefix == 0 {
            match cpu.pc {
                EXIT => break,
                pc if pc == 0x1601 || pc == 0x0010 || extra_ret_traps.contains(&pc) => {
                    if cpu.pc == 0x0010 {
                        let a = cpu.a;
                        if skip > 0 {
                            skip -= 1;
                        } else {
                            match a {
                                13 => out.push('\n'),
                                22 | 23 => {
                                    // AT / TAB take two operand bytes
                                    skip = 2;
                                    out.push(' ');
                                }
                                16..=21 => skip = 1,
                                32..=126 => out.push(a as char),
                                _ => out.push('?'),
                            }
                        }
                    }
                    // RET
                    let l = bus.flat.peek(cpu.sp);
                    let h = bus.flat.peek(cpu.sp.wrapping_add(1));
                    cpu.sp = cpu.sp.wrapping_add(2);
                    cpu.pc = l as u16 | (h as u16) << 8;
                    continue;
                }
                _ => {}
            }
        }
        let k = cpu.step(&mut bus);
        debug_assert!(frame != 0 || k == StepKind::Instruction || k == StepKind::Prefix);
        if bus.flat.t > limit {
            if verbose {
                println!("{out}");
            }
            return Err(format!("T-state limit exceeded at PC={:04X}", cpu.pc));
        }
    }
    if verbose {
        println!("{out}");
        println!("[{tape}: {} T-states]", bus.flat.t);
    }
    Ok((out, bus.flat.t))
}

/// z80test 1.x output: one line "NNN NAME ... OK|Skipped|FAILED" per test (a failure is followed
/// by a "CRC:... Expected:..." line) and a final "Result: ..." line.
///
/// The suite itself skips the SCF/CCF variants written for other silicon ("(NEC)", "(ST)"): those
/// are reported as skipped; a skip of anything else is a failure.
fn run_z80test(tape: &str, verbose: bool) -> SuiteResult {
    let name = tape.to_string();
    let (out, _) = match run_spectrum_program(tape, verbose, 40_000_000_000, 0, &[]) {
        Ok(v) => v,
        Err(e) => return SuiteResult::broken(name, e),
    };
    let mut tests = 0;
    let mut failed = Vec::new();
    let mut skipped = Vec::new();
    let mut result_line = None;
    let lines: Vec<&str> = out.split('\n').map(|l| l.trim()).collect();
    let mut i = 0;
    while i < lines.len() {
        let line = lines[i];
        i += 1;
        if line.starts_with("Result:") {
            result_line = Some(line.to_string());
            continue;
        }
        let starts_with_number = line.len() >= 3 && line.as_bytes()[..3].iter().all(|b| b.is_ascii_digit());
        if !starts_with_number {
            continue;
        }
        tests += 1;
        if line.ends_with(" OK") {
            continue;
        }
        if line.ends_with(" Skipped") && (line.contains("(NEC)") || line.contains("(ST)")) {
            skipped.push(line.to_string());
            continue;
        }
        let mut msg = line.to_string();
        if i < lines.len() && lines[i].contains("CRC") {
            msg.push_str(" | ");
            msg.push_str(lines[i]);
            i += 1;
        }
        failed.push(msg);
    }
    let mut error = None;
    match result_line {
        None => error = Some("no 'Result:' summary line printed".to_string()),
        Some(l) => {
            if !l.contains("all tests passed") && failed.is_empty() {
                error = Some(format!("summary says: {l}"));
            }
        }
    }
    if error.is_none() && tests != 160 {
        error = Some(format!("expected 160 tests, saw {tests}"));
    }
    SuiteResult { name, tests, failed, skipped, error }
}

/// Z80 Block Flags Test v5.0 (Ped7g / MrKWatkins, after David Banks' research): extra suite, not part
/// of `all`.  It interrupts repeating block instructions with IM2 frame interrupts and prints rows
/// `NAME F: gg=ee gg=ee gg=ee gg=ee` (a mismatch is printed as `gg=<backspace>!ee`).  The trailing
/// "HF vs B" bitmap log has no built-in expectation and is ignored.
fn run_z80bltst(verbose: bool) -> SuiteResult {
    let name = "z80bltst".to_string();
    let (out, _) = match run_spectrum_program("z80bltst", verbose, 2_000_000_000, 69888, &[0x0DAF]) {
        Ok(v) => v,
        Err(e) => return SuiteResult::broken(name, e),
    };
    let mut tests = 0;
    let mut failed = Vec::new();
    let mut error = None;
    let mut row_name = String::new();
    for line in out.split('\n') {
        let low = line.to_ascii_lowercase();
        if low.contains("unexpected") || low.contains("failed") {
            error = Some(line.trim().to_string());
            continue;
        }
        let Some(pos) = line.find(" F:") else { continue };
        let label = line[..pos].trim();
        if !label.starts_with('.') {
            row_name = label.to_string();
        }
        for (col, tok) in line[pos + 3..].split_whitespace().enumerate() {
            tests += 1;
            let hex: String = tok.chars().filter(|c| c.is_ascii_hexdigit()).collect();
            let good = hex.len() == 4 && hex[..2] == hex[2..] && !tok.contains('!');
            if !good {
                failed.push(format!("{row_name} {label} column {col}: {tok}"));
            }
        }
    }
    if error.is_none() && tests != 60 {
        error = Some(format!("expected 15 rows of 4 results, saw {tests} results"));
    }
    SuiteResult { name, tests, failed, skipped: vec![], error }
}

fn main() {
    let args: Vec<String> = std::env::args().skip(1).collect();
    let verbose = args.iter().any(|a| a == "-v" || a == "--verbose");
    let suites: Vec<&str> = args.iter().filter(|a| !a.starts_with('-')).map(|s| s.as_str()).collect();
    if suites.len() != 1 {
        eprintln!("usage: validate <zexall|z80full|z80memptr|z80ccf|z80bltst|all> [-v]");
        std::process::exit(2);
    }
    let list: Vec<&str> = match suites[0] {
        "all" => vec!["z80full", "z80memptr", "z80ccf", "z80bltst", "zexall"],
        s @ ("zexall" | "z80full" | "z80memptr" | "z80ccf" | "z80bltst") => vec![s],
        other => {
            eprintln!("unknown suite '{other}'");
            std::process::exit(2);
        }
    };
    let mut all_ok = true;
    for s in list {
        let res = match s {
            "zexall" => run_zexall(verbose),
            "z80bltst" => run_z80bltst(verbose),
            tape => run_z80test(tape, verbose),
        };
        println!("ORACLE {} tests={} failed={}", res.name, res.tests, res.failed.len());
        for f in &res.failed {
            println!("  FAILED {f}");
        }
        for f in &res.skipped {
            println!("  SKIPPED-BY-SUITE {f}");
        }
        if let Some(e) = &res.error {
            println!("  ERROR {e}");
        }
        all_ok &= res.ok();
    }
    std::process::exit(if all_ok { 0 } else { 1 });
}
