//! Unit tests: instruction timing table (Zilog manual totals), bus-cycle order of a few
//! representative instructions and the step()/HALT/interrupt conventions of the model.

use crate::testbus::{BusEvent, FlatBus};
use crate::*;

const ORG: u16 = 0x8000;

/// Machine preset used by all table entries; individual entries tweak it through `flags`/`b`/`bc`.
fn machine(code: &[u8]) -> (RefZ80, FlatBus) {
    let mut bus = FlatBus::new();
    bus.load(ORG, code);
    let mut cpu = RefZ80::new();
    cpu.pc = ORG;
    cpu.sp = 0x7000;
    cpu.set_hl(0x9000);
    cpu.set_de(0xA000);
    cpu.set_bc(0x0203);
    cpu.ix = 0xB000;
    cpu.iy = 0xC000;
    cpu.i = 0x3F;
    (cpu, bus)
}

/// Steps through prefix steps until one complete instruction has been executed; returns T-states.
fn run_one(cpu: &mut RefZ80, bus: &mut FlatBus) -> u64 {
    let t0 = bus.t;
    loop {
        match cpu.step(bus) {
            StepKind::Prefix => continue,
            StepKind::Instruction => break,
            k => panic!("unexpected step kind {k:?}"),
        }
    }
    bus.t - t0
}

struct T {
    name: &'static str,
    code: &'static [u8],
    /// initial F
    f: u8,
    /// initial BC (None = preset 0x0203)
    bc: Option<u16>,
    t: u64,
}

const fn t(name: &'static str, code: &'static [u8], t: u64) -> T {
    T { name, code, f: 0, bc: None, t }
}
const fn tf(name: &'static str, code: &'static [u8], f: u8, t: u64) -> T {
    T { name, code, f, bc: None, t }
}
const fn tb(name: &'static str, code: &'static [u8], bc: u16, t: u64) -> T {
    T { name, code, f: 0, bc: Some(bc), t }
}

#[rustfmt::skip]
const TIMING: &[T] = &[
    t("NOP",              &[0x00], 4),
    t("LD B,C",           &[0x41], 4),
    t("LD B,n",           &[0x06, 0x12], 7),
    t("LD B,(HL)",        &[0x46], 7),
    t("LD (HL),B",        &[0x70], 7),
    t("LD (HL),n",        &[0x36, 0x12], 10),
    t("LD A,(BC)",        &[0x0A], 7),
    t("LD (DE),A",        &[0x12], 7),
    t("LD A,(nn)",        &[0x3A, 0x00, 0x90], 13),
    t("LD (nn),A",        &[0x32, 0x00, 0x90], 13),
    t("LD BC,nn",         &[0x01, 0x34, 0x12], 10),
    t("LD HL,(nn)",       &[0x2A, 0x00, 0x90], 16),
    t("LD (nn),HL",       &[0x22, 0x00, 0x90], 16),
    t("LD BC,(nn)",       &[0xED, 0x4B, 0x00, 0x90], 20),
    t("LD (nn),SP",       &[0xED, 0x73, 0x00, 0x90], 20),
    t("LD SP,HL",         &[0xF9], 6),
    t("LD SP,IX",         &[0xDD, 0xF9], 10),
    t("PUSH BC",          &[0xC5], 11),
    t("PUSH IX",          &[0xDD, 0xE5], 15),
    t("POP BC",           &[0xC1], 10),
    t("POP IY",           &[0xFD, 0xE1], 14),
    t("EX DE,HL",         &[0xEB], 4),
    t("EX AF,AF'",        &[0x08], 4),
    t("EXX",              &[0xD9], 4),
    t("EX (SP),HL",       &[0xE3], 19),
    t("EX (SP),IX",       &[0xDD, 0xE3], 23),
    t("LDI",              &[0xED, 0xA0], 16),
    t("LDD",              &[0xED, 0xA8], 16),
    tb("LDIR repeat",     &[0xED, 0xB0], 0x0002, 21),
    tb("LDIR final",      &[0xED, 0xB0], 0x0001, 16),
    tb("LDDR repeat",     &[0xED, 0xB8], 0x0002, 21),
    t("CPI",              &[0xED, 0xA1], 16),
    tb("CPIR repeat",     &[0xED, 0xB1], 0x0002, 21),
    tb("CPIR final",      &[0xED, 0xB1], 0x0001, 16),
    tb("CPDR repeat",     &[0xED, 0xB9], 0x0002, 21),
    t("INI",              &[0xED, 0xA2], 16),
    tb("INIR repeat",     &[0xED, 0xB2], 0x0203, 21),
    tb("INIR final",      &[0xED, 0xB2], 0x0103, 16),
    t("OUTI",             &[0xED, 0xA3], 16),
    tb("OTIR repeat",     &[0xED, 0xB3], 0x0203, 21),
    tb("OTIR final",      &[0xED, 0xB3], 0x0103, 16),
    tb("OTDR repeat",     &[0xED, 0xBB], 0x0203, 21),
    t("ADD A,B",          &[0x80], 4),
    t("ADD A,n",          &[0xC6, 0x01], 7),
    t("ADD A,(HL)",       &[0x86], 7),
    t("ADD A,(IX+d)",     &[0xDD, 0x86, 0x05], 19),
    t("ADD A,IXH",        &[0xDD, 0x84], 8),
    t("CP (IY+d)",        &[0xFD, 0xBE, 0xFB], 19),
    t("INC B",            &[0x04], 4),
    t("INC (HL)",         &[0x34], 11),
    t("DEC (HL)",         &[0x35], 11),
    t("INC (IX+d)",       &[0xDD, 0x34, 0x05], 23),
    t("DEC (IY+d)",       &[0xFD, 0x35, 0x05], 23),
    t("DAA",              &[0x27], 4),
    t("CPL",              &[0x2F], 4),
    t("SCF",              &[0x37], 4),
    t("CCF",              &[0x3F], 4),
    t("NEG",              &[0xED, 0x44], 8),
    t("HALT",             &[0x76], 4),
    t("DI",               &[0xF3], 4),
    t("EI",               &[0xFB], 4),
    t("IM 1",             &[0xED, 0x56], 8),
    t("ED undefined (ED 00)", &[0xED, 0x00], 8),
    t("ED undefined (ED 77)", &[0xED, 0x77], 8),
    t("ADD HL,BC",        &[0x09], 11),
    t("ADD IX,BC",        &[0xDD, 0x09], 15),
    t("ADC HL,BC",        &[0xED, 0x4A], 15),
    t("SBC HL,DE",        &[0xED, 0x52], 15),
    t("INC BC",           &[0x03], 6),
    t("DEC SP",           &[0x3B], 6),
    t("INC IX",           &[0xDD, 0x23], 10),
    t("RLCA",             &[0x07], 4),
    t("RLC B",            &[0xCB, 0x00], 8),
    t("RLC (HL)",         &[0xCB, 0x06], 15),
    t("RLC (IX+d)",       &[0xDD, 0xCB, 0x05, 0x06], 23),
    t("SRL (IY+d),B",     &[0xFD, 0xCB, 0x05, 0x38], 23),
    t("BIT 0,B",          &[0xCB, 0x40], 8),
    t("BIT 0,(HL)",       &[0xCB, 0x46], 12),
    t("BIT 7,(IX+d)",     &[0xDD, 0xCB, 0x05, 0x7E], 20),
    t("SET 0,(HL)",       &[0xCB, 0xC6], 15),
    t("RES 0,(IX+d)",     &[0xDD, 0xCB, 0x05, 0x86], 23),
    t("RLD",              &[0xED, 0x6F], 18),
    t("RRD",              &[0xED, 0x67], 18),
    t("JP nn",            &[0xC3, 0x00, 0x90], 10),
    tf("JP NZ taken",     &[0xC2, 0x00, 0x90], 0, 10),
    tf("JP NZ not taken", &[0xC2, 0x00, 0x90], ZF, 10),
    t("JP (HL)",          &[0xE9], 4),
    t("JP (IX)",          &[0xDD, 0xE9], 8),
    t("JR d",             &[0x18, 0x05], 12),
    tf("JR Z taken",      &[0x28, 0x05], ZF, 12),
    tf("JR Z not taken",  &[0x28, 0x05], 0, 7),
    tb("DJNZ taken",      &[0x10, 0xFE], 0x0200, 13),
    tb("DJNZ not taken",  &[0x10, 0xFE], 0x0100, 8),
    t("CALL nn",          &[0xCD, 0x00, 0x90], 17),
    tf("CALL C taken",    &[0xDC, 0x00, 0x90], CF, 17),
    tf("CALL C not taken",&[0xDC, 0x00, 0x90], 0, 10),
    t("RET",              &[0xC9], 10),
    tf("RET M taken",     &[0xF8], SF, 11),
    tf("RET M not taken", &[0xF8], 0, 5),
    t("RETI",             &[0xED, 0x4D], 14),
    t("RETN",             &[0xED, 0x45], 14),
    t("RST 18h",          &[0xDF], 11),
    t("IN A,(n)",         &[0xDB, 0xFE], 11),
    t("IN B,(C)",         &[0xED, 0x40], 12),
    t("IN F,(C)",         &[0xED, 0x70], 12),
    t("OUT (n),A",        &[0xD3, 0xFE], 11),
    t("OUT (C),B",        &[0xED, 0x41], 12),
    t("OUT (C),0",        &[0xED, 0x71], 12),
    t("LD A,I",           &[0xED, 0x57], 9),
    t("LD A,R",           &[0xED, 0x5F], 9),
    t("LD I,A",           &[0xED, 0x47], 9),
    t("LD R,A",           &[0xED, 0x4F], 9),
    t("LD (IX+d),n",      &[0xDD, 0x36, 0x05, 0x12], 19),
    t("LD B,(IX+d)",      &[0xDD, 0x46, 0x05], 19),
    t("LD (IY+d),B",      &[0xFD, 0x70, 0x05], 19),
    t("LD IX,nn",         &[0xDD, 0x21, 0x34, 0x12], 14),
    t("LD IX,(nn)",       &[0xDD, 0x2A, 0x00, 0x90], 20),
    t("LD (nn),IY",       &[0xFD, 0x22, 0x00, 0x90], 20),
    t("LD IXH,n",         &[0xDD, 0x26, 0x12], 11),
    t("DD NOP",           &[0xDD, 0x00], 8),
    t("DD FD LD B,C",     &[0xDD, 0xFD, 0x41], 12),
    t("DD ED LD A,I",     &[0xDD, 0xED, 0x57], 13),
];

#[test]
fn timing_table_matches_zilog_manual() {
    let mut bad = Vec::new();
    for e in TIMING {
        let (mut cpu, mut bus) = machine(e.code);
        cpu.f = e.f;
        if let Some(bc) = e.bc {
            cpu.set_bc(bc);
        }
        // make CPIR not find its byte: A != (HL)
        cpu.a = 0x55;
        bus.logging = true;
        let got = run_one(&mut cpu, &mut bus);
        let from_log: u64 = bus.log.iter().map(|ev| ev.t_states()).sum();
        if got != e.t || from_log != e.t {
            bad.push(format!("{}: expected {} T, got {} (log {})", e.name, e.t, got, from_log));
        }
    }
    assert!(bad.is_empty(), "timing mismatches:\n{}", bad.join("\n"));
    assert!(TIMING.len() >= 60);
}

#[test]
fn interrupt_entry_timing_and_effects() {
    // IM1
    let (mut cpu, mut bus) = machine(&[0x00]);
    cpu.iff1 = true;
    cpu.iff2 = true;
    cpu.im = 1;
    cpu.q = 0xFF;
    bus.int = true;
    assert_eq!(cpu.step(&mut bus), StepKind::IntAccepted);
    assert_eq!(bus.t, 13);
    assert_eq!((cpu.pc, cpu.memptr, cpu.sp, cpu.r, cpu.q), (0x0038, 0x0038, 0x6FFE, 1, 0));
    assert!(!cpu.iff1 && !cpu.iff2);
    assert_eq!(bus.peek16(0x6FFE), ORG);

    // IM0 behaves as IM1 in this model
    let (mut cpu, mut bus) = machine(&[0x00]);
    cpu.iff1 = true;
    cpu.im = 0;
    bus.int = true;
    assert_eq!(cpu.step(&mut bus), StepKind::IntAccepted);
    assert_eq!((bus.t, cpu.pc), (13, 0x0038));

    // IM2
    let (mut cpu, mut bus) = machine(&[0x00]);
    cpu.iff1 = true;
    cpu.iff2 = true;
    cpu.im = 2;
    cpu.i = 0x90;
    bus.int_vector = 0xFE;
    bus.load(0x90FE, &[0x34, 0x12]);
    bus.int = true;
    bus.logging = true;
    assert_eq!(cpu.step(&mut bus), StepKind::IntAccepted);
    assert_eq!(bus.t, 19);
    assert_eq!((cpu.pc, cpu.memptr), (0x1234, 0x1234));
    assert_eq!(
        bus.log,
        vec![
            BusEvent::Idle(7),
            BusEvent::Write(0x6FFF, 0x80),
            BusEvent::Write(0x6FFE, 0x00),
            BusEvent::IntAck(0xFE),
            BusEvent::Read(0x90FE, 0x34),
            BusEvent::Read(0x90FF, 0x12),
        ]
    );

    // NMI keeps IFF2 and is taken even with IFF1 = 0
    let (mut cpu, mut bus) = machine(&[0x00]);
    cpu.iff1 = false;
    cpu.iff2 = true;
    bus.nmi = true;
    assert_eq!(cpu.step(&mut bus), StepKind::NmiAccepted);
    assert_eq!(bus.t, 11);
    assert_eq!((cpu.pc, cpu.memptr, cpu.r), (0x0066, 0x0066, 1));
    assert!(!cpu.iff1 && cpu.iff2);

    // INT ignored with IFF1 = 0
    let (mut cpu, mut bus) = machine(&[0x00]);
    bus.int = true;
    assert_eq!(cpu.step(&mut bus), StepKind::Instruction);
    assert_eq!(cpu.pc, ORG + 1);
}

#[test]
fn halt_convention() {
    let (mut cpu, mut bus) = machine(&[0x76, 0x00]);
    cpu.iff1 = true;
    cpu.iff2 = true;
    cpu.im = 1;
    assert_eq!(cpu.step(&mut bus), StepKind::Instruction);
    assert!(cpu.halted);
    assert_eq!(cpu.pc, ORG, "PC stays on the HALT opcode");
    bus.logging = true;
    assert_eq!(cpu.step(&mut bus), StepKind::Instruction);
    assert_eq!(bus.log, vec![BusEvent::M1(ORG, 0x76)]);
    assert_eq!((cpu.pc, cpu.r, bus.t), (ORG, 2, 8));
    bus.int = true;
    assert_eq!(cpu.step(&mut bus), StepKind::IntAccepted);
    assert!(!cpu.halted);
    assert_eq!(bus.peek16(cpu.sp), ORG + 1, "return address is behind the HALT");
    assert_eq!(cpu.pc, 0x0038);

    // same for NMI
    let (mut cpu, mut bus) = machine(&[0x76]);
    cpu.step(&mut bus);
    bus.nmi = true;
    assert_eq!(cpu.step(&mut bus), StepKind::NmiAccepted);
    assert!(!cpu.halted);
    assert_eq!(bus.peek16(cpu.sp), ORG + 1);
}

#[test]
fn ei_di_inhibit_and_prefix_boundaries() {
    // EI ; NOP with INT asserted: the NOP after EI still runs, then the interrupt is taken
    let (mut cpu, mut bus) = machine(&[0xFB, 0x00, 0x00]);
    cpu.im = 1;
    bus.int = true;
    assert_eq!(cpu.step(&mut bus), StepKind::Instruction);
    assert!(cpu.int_inhibit && cpu.iff1 && cpu.iff2);
    assert_eq!(cpu.step(&mut bus), StepKind::Instruction);
    assert!(!cpu.int_inhibit);
    assert_eq!(cpu.pc, ORG + 2);
    assert_eq!(cpu.step(&mut bus), StepKind::IntAccepted);
    assert_eq!(bus.peek16(cpu.sp), ORG + 2);

    // DI also delays NMI by one instruction in this model
    let (mut cpu, mut bus) = machine(&[0xF3, 0x00, 0x00]);
    assert_eq!(cpu.step(&mut bus), StepKind::Instruction);
    bus.nmi = true;
    assert_eq!(cpu.step(&mut bus), StepKind::Instruction);
    assert!(bus.nmi, "NMI line must not even be sampled while inhibited");
    assert_eq!(cpu.step(&mut bus), StepKind::NmiAccepted);

    // nothing is sampled between a prefix and its opcode; a second prefix replaces the first
    let (mut cpu, mut bus) = machine(&[0xDD, 0xFD, 0x21, 0x34, 0x12]);
    cpu.iff1 = true;
    cpu.im = 1;
    assert_eq!(cpu.step(&mut bus), StepKind::Prefix);
    assert_eq!((cpu.pending_prefix, cpu.r, bus.t), (0xDD, 1, 4));
    bus.int = true;
    assert_eq!(cpu.step(&mut bus), StepKind::Prefix);
    assert_eq!((cpu.pending_prefix, cpu.r), (0xFD, 2));
    assert_eq!(cpu.step(&mut bus), StepKind::Instruction);
    assert_eq!((cpu.iy, cpu.ix, cpu.pending_prefix, cpu.r), (0x1234, 0xB000, 0, 3));
    assert_eq!(cpu.step(&mut bus), StepKind::IntAccepted);

    // ED cancels a pending index prefix: DD ED 6A = ADC HL,HL on the real HL
    let (mut cpu, mut bus) = machine(&[0xDD, 0xED, 0x6A]);
    run_one(&mut cpu, &mut bus);
    assert_eq!((cpu.hl(), cpu.ix), (0x2000, 0xB000));
    assert_eq!(cpu.f & CF, CF);
}

#[test]
fn r_register_counting() {
    // DDCB: two M1 cycles only
    let (mut cpu, mut bus) = machine(&[0xDD, 0xCB, 0x05, 0x06]);
    cpu.r = 0xFE;
    run_one(&mut cpu, &mut bus);
    assert_eq!(cpu.r, 0x80, "bit 7 preserved, low 7 bits wrap");
    let (mut cpu, mut bus) = machine(&[0xED, 0xB0]);
    run_one(&mut cpu, &mut bus);
    assert_eq!(cpu.r, 2);
    // LD A,R sees R after both M1 increments
    let (mut cpu, mut bus) = machine(&[0xED, 0x5F]);
    cpu.r = 0x85;
    cpu.iff2 = true;
    run_one(&mut cpu, &mut bus);
    assert_eq!(cpu.a, 0x87);
    assert_eq!(cpu.f, SF | PF);
}

#[test]
fn bus_cycle_order() {
    use BusEvent::*;
    let trace = |code: &[u8], setup: &dyn Fn(&mut RefZ80, &mut FlatBus)| -> Vec<BusEvent> {
        let (mut cpu, mut bus) = machine(code);
        setup(&mut cpu, &mut bus);
        bus.logging = true;
        run_one(&mut cpu, &mut bus);
        bus.log
    };
    let nop = |_: &mut RefZ80, _: &mut FlatBus| {};

    // INC (HL): pc:4, hl:3, hl:1, hl(w):3
    assert_eq!(
        trace(&[0x34], &|_, b| b.mem[0x9000] = 0x0F),
        vec![M1(0x8000, 0x34), Read(0x9000, 0x0F), Delay(0x9000, 1), Write(0x9000, 0x10)]
    );
    // ADD HL,BC: pc:4, ir:1 x7 with R already incremented
    assert_eq!(trace(&[0x09], &nop), vec![M1(0x8000, 0x09), Delay(0x3F01, 7)]);
    // JR taken: 5 delays on the displacement byte
    assert_eq!(
        trace(&[0x18, 0x10], &nop),
        vec![M1(0x8000, 0x18), Read(0x8001, 0x10), Delay(0x8001, 5)]
    );
    // DJNZ not taken
    assert_eq!(
        trace(&[0x10, 0x10], &|c, _| c.b = 1),
        vec![M1(0x8000, 0x10), Delay(0x3F01, 1), Read(0x8001, 0x10)]
    );
    // CALL nn
    assert_eq!(
        trace(&[0xCD, 0x00, 0x90], &nop),
        vec![
            M1(0x8000, 0xCD),
            Read(0x8001, 0x00),
            Read(0x8002, 0x90),
            Delay(0x8002, 1),
            Write(0x6FFF, 0x80),
            Write(0x6FFE, 0x03)
        ]
    );
    // RET cc not taken / taken
    assert_eq!(trace(&[0xC0], &|c, _| c.f = ZF), vec![M1(0x8000, 0xC0), Delay(0x3F01, 1)]);
    assert_eq!(
        trace(&[0xC0], &|_, b| b.load(0x7000, &[0x34, 0x12])),
        vec![M1(0x8000, 0xC0), Delay(0x3F01, 1), Read(0x7000, 0x34), Read(0x7001, 0x12)]
    );
    // EX (SP),HL
    assert_eq!(
        trace(&[0xE3], &|_, b| b.load(0x7000, &[0x34, 0x12])),
        vec![
            M1(0x8000, 0xE3),
            Read(0x7000, 0x34),
            Read(0x7001, 0x12),
            Delay(0x7001, 1),
            Write(0x7001, 0x90),
            Write(0x7000, 0x00),
            Delay(0x7000, 2)
        ]
    );
    // LD A,(IX+d): pc:4, pc+1:4, pc+2:3, pc+2:1 x5, ixd:3
    assert_eq!(
        trace(&[0xDD, 0x7E, 0xFF], &|_, b| b.mem[0xAFFF] = 0x77),
        vec![M1(0x8000, 0xDD), M1(0x8001, 0x7E), Read(0x8002, 0xFF), Delay(0x8002, 5), Read(0xAFFF, 0x77)]
    );
    // LD (IX+d),n: pc:4, pc+1:4, pc+2:3, pc+3:3, pc+3:1 x2, ixd(w):3
    assert_eq!(
        trace(&[0xDD, 0x36, 0x02, 0x99], &nop),
        vec![
            M1(0x8000, 0xDD),
            M1(0x8001, 0x36),
            Read(0x8002, 0x02),
            Read(0x8003, 0x99),
            Delay(0x8003, 2),
            Write(0xB002, 0x99)
        ]
    );
    // DDCB RLC (IX+d),B
    assert_eq!(
        trace(&[0xDD, 0xCB, 0x02, 0x00], &|_, b| b.mem[0xB002] = 0x81),
        vec![
            M1(0x8000, 0xDD),
            M1(0x8001, 0xCB),
            Read(0x8002, 0x02),
            Read(0x8003, 0x00),
            Delay(0x8003, 2),
            Read(0xB002, 0x81),
            Delay(0xB002, 1),
            Write(0xB002, 0x03)
        ]
    );
    // BIT n,(IX+d): no write
    assert_eq!(
        trace(&[0xFD, 0xCB, 0x02, 0x46], &nop),
        vec![
            M1(0x8000, 0xFD),
            M1(0x8001, 0xCB),
            Read(0x8002, 0x02),
            Read(0x8003, 0x46),
            Delay(0x8003, 2),
            Read(0xC002, 0x00),
            Delay(0xC002, 1)
        ]
    );
    // RLD
    assert_eq!(
        trace(&[0xED, 0x6F], &|c, b| {
            c.a = 0x12;
            b.mem[0x9000] = 0x34
        }),
        vec![M1(0x8000, 0xED), M1(0x8001, 0x6F), Read(0x9000, 0x34), Delay(0x9000, 4), Write(0x9000, 0x42)]
    );
    // LDIR repeating: de:1 x2 then de:1 x5 with DE before the increment
    assert_eq!(
        trace(&[0xED, 0xB0], &|_, b| b.mem[0x9000] = 0x5A),
        vec![
            M1(0x8000, 0xED),
            M1(0x8001, 0xB0),
            Read(0x9000, 0x5A),
            Write(0xA000, 0x5A),
            Delay(0xA000, 2),
            Delay(0xA000, 5)
        ]
    );
    // CPIR repeating
    assert_eq!(
        trace(&[0xED, 0xB1], &|c, _| c.a = 1),
        vec![M1(0x8000, 0xED), M1(0x8001, 0xB1), Read(0x9000, 0x00), Delay(0x9000, 5), Delay(0x9000, 5)]
    );
    // INIR repeating: ir:1, io read at BC (B not yet decremented), hl(w), hl:1 x5
    assert_eq!(
        trace(&[0xED, 0xB2], &|c, _| c.set_bc(0x02FE)),
        vec![
            M1(0x8000, 0xED),
            M1(0x8001, 0xB2),
            Delay(0x3F02, 1),
            IoRead(0x02FE, 0xBF),
            Write(0x9000, 0xBF),
            Delay(0x9000, 5)
        ]
    );
    // OTIR repeating: ir:1, hl:3, io write at BC with B decremented, bc:1 x5
    assert_eq!(
        trace(&[0xED, 0xB3], &|c, b| {
            c.set_bc(0x02FE);
            b.mem[0x9000] = 0x11
        }),
        vec![
            M1(0x8000, 0xED),
            M1(0x8001, 0xB3),
            Delay(0x3F02, 1),
            Read(0x9000, 0x11),
            IoWrite(0x01FE, 0x11),
            Delay(0x01FE, 5)
        ]
    );
    // IN A,(n) / OUT (n),A use A as the high port byte
    assert_eq!(
        trace(&[0xDB, 0xFE], &|c, _| c.a = 0x7F),
        vec![M1(0x8000, 0xDB), Read(0x8001, 0xFE), IoRead(0x7FFE, 0xBF)]
    );
    assert_eq!(
        trace(&[0xD3, 0xFE], &|c, _| c.a = 0x07),
        vec![M1(0x8000, 0xD3), Read(0x8001, 0xFE), IoWrite(0x07FE, 0x07)]
    );
    // LD A,I: pc:4, pc+1:4, ir:1
    assert_eq!(trace(&[0xED, 0x57], &nop), vec![M1(0x8000, 0xED), M1(0x8001, 0x57), Delay(0x3F02, 1)]);
}

#[test]
fn repeating_block_instructions_rewind_pc() {
    // LDIR with BC=2: first step repeats (PC back on ED, MEMPTR = PC+1, bits 5/3 from PC high)
    let (mut cpu, mut bus) = machine(&[0xED, 0xB0]);
    cpu.set_bc(2);
    cpu.a = 0;
    bus.mem[0x9000] = 0xFF;
    run_one(&mut cpu, &mut bus);
    assert_eq!((cpu.pc, cpu.memptr, cpu.bc(), cpu.hl(), cpu.de()), (ORG, ORG + 1, 1, 0x9001, 0xA001));
    assert_eq!(cpu.f & (YF | XF), 0x80 & (YF | XF));
    assert_eq!(cpu.f & PF, PF);
    run_one(&mut cpu, &mut bus);
    assert_eq!((cpu.pc, cpu.bc()), (ORG + 2, 0));
    assert_eq!(cpu.f & PF, 0);

    // CPIR: MEMPTR = PC+1 while repeating, +1 on the final iteration
    let (mut cpu, mut bus) = machine(&[0xED, 0xB1]);
    cpu.set_bc(5);
    cpu.a = 0x42;
    bus.mem[0x9001] = 0x42;
    run_one(&mut cpu, &mut bus);
    assert_eq!((cpu.pc, cpu.memptr), (ORG, ORG + 1));
    run_one(&mut cpu, &mut bus);
    assert_eq!((cpu.pc, cpu.memptr, cpu.bc(), cpu.hl()), (ORG + 2, ORG + 2, 3, 0x9002));
    assert_eq!(cpu.f & ZF, ZF);
}

#[test]
fn q_latch_and_scf_ccf() {
    // after an instruction that modified F: bits 5/3 come from A only
    let (mut cpu, mut bus) = machine(&[0xAF, 0x37]); // XOR A ; SCF
    cpu.f = 0xFF;
    run_one(&mut cpu, &mut bus);
    assert_eq!(cpu.q, cpu.f);
    run_one(&mut cpu, &mut bus);
    assert_eq!(cpu.f, ZF | PF | CF);
    // after an instruction that did not: bits 5/3 = F | A
    let (mut cpu, mut bus) = machine(&[0x00, 0x37]); // NOP ; SCF
    cpu.f = YF | XF;
    cpu.q = cpu.f;
    cpu.a = 0;
    run_one(&mut cpu, &mut bus);
    assert_eq!(cpu.q, 0);
    run_one(&mut cpu, &mut bus);
    assert_eq!(cpu.f, YF | XF | CF);
    // POP AF / EX AF,AF' leave Q = 0
    let (mut cpu, mut bus) = machine(&[0xF1, 0x08]);
    cpu.q = 0x55;
    run_one(&mut cpu, &mut bus);
    assert_eq!(cpu.q, 0);
    // undefined ED opcode leaves Q = 0
    let (mut cpu, mut bus) = machine(&[0xED, 0x00]);
    cpu.q = 0x55;
    run_one(&mut cpu, &mut bus);
    assert_eq!(cpu.q, 0);
}

#[test]
fn index_prefix_register_rules() {
    // LD H,(IX+d) loads the real H
    let (mut cpu, mut bus) = machine(&[0xDD, 0x66, 0x01]);
    bus.mem[0xB001] = 0x77;
    run_one(&mut cpu, &mut bus);
    assert_eq!((cpu.h, cpu.ix, cpu.memptr), (0x77, 0xB000, 0xB001));
    // LD IXH,IXL
    let (mut cpu, mut bus) = machine(&[0xDD, 0x65]);
    cpu.ix = 0x12AB;
    run_one(&mut cpu, &mut bus);
    assert_eq!((cpu.ix, cpu.hl()), (0xABAB, 0x9000));
    // EX DE,HL ignores the prefix
    let (mut cpu, mut bus) = machine(&[0xFD, 0xEB]);
    run_one(&mut cpu, &mut bus);
    assert_eq!((cpu.hl(), cpu.de(), cpu.iy), (0xA000, 0x9000, 0xC000));
    // DDCB SET 1,(IX+d),C copies the result into C; BIT takes 5/3 from the address high byte
    let (mut cpu, mut bus) = machine(&[0xDD, 0xCB, 0x03, 0xC9, 0xDD, 0xCB, 0x03, 0x4E]);
    cpu.ix = 0x2800 + 0x8000;
    run_one(&mut cpu, &mut bus);
    assert_eq!((cpu.c, bus.mem[0xA803]), (0x02, 0x02));
    run_one(&mut cpu, &mut bus);
    assert_eq!(cpu.f & (YF | XF | ZF), (0xA8 & (YF | XF)));
}

#[test]
fn memptr_rules() {
    let m = |code: &[u8], setup: &dyn Fn(&mut RefZ80, &mut FlatBus)| -> u16 {
        let (mut cpu, mut bus) = machine(code);
        setup(&mut cpu, &mut bus);
        run_one(&mut cpu, &mut bus);
        cpu.memptr
    };
    let nop = |_: &mut RefZ80, _: &mut FlatBus| {};
    assert_eq!(m(&[0x3A, 0xFF, 0x90], &nop), 0x9100); // LD A,(nn)
    assert_eq!(m(&[0x32, 0xFF, 0x90], &|c, _| c.a = 0x12), 0x1200); // LD (nn),A
    assert_eq!(m(&[0x0A], &nop), 0x0204); // LD A,(BC)
    assert_eq!(m(&[0x12], &|c, _| c.a = 0x55), 0x5501); // LD (DE),A
    assert_eq!(m(&[0x2A, 0x00, 0x90], &nop), 0x9001); // LD HL,(nn)
    assert_eq!(m(&[0xED, 0x43, 0x00, 0x90], &nop), 0x9001); // LD (nn),BC
    assert_eq!(m(&[0xE3], &|_, b| b.load(0x7000, &[0x34, 0x12])), 0x1234); // EX (SP),HL
    assert_eq!(m(&[0x09], &nop), 0x9001); // ADD HL,BC
    assert_eq!(m(&[0xED, 0x42], &nop), 0x9001); // SBC HL,BC
    assert_eq!(m(&[0xC2, 0x34, 0x12], &|c, _| c.f = ZF), 0x1234); // JP NZ not taken
    assert_eq!(m(&[0xC4, 0x34, 0x12], &|c, _| c.f = ZF), 0x1234); // CALL NZ not taken
    assert_eq!(m(&[0x18, 0x10], &nop), 0x8012); // JR
    assert_eq!(m(&[0xC9], &|_, b| b.load(0x7000, &[0x34, 0x12])), 0x1234); // RET
    assert_eq!(m(&[0xEF], &nop), 0x0028); // RST 28h
    assert_eq!(m(&[0xDB, 0xFF], &|c, _| c.a = 0x12), 0x1300); // IN A,(n)
    assert_eq!(m(&[0xD3, 0xFF], &|c, _| c.a = 0x12), 0x1200); // OUT (n),A
    assert_eq!(m(&[0xED, 0x78], &nop), 0x0204); // IN A,(C)
    assert_eq!(m(&[0xED, 0x79], &nop), 0x0204); // OUT (C),A
    assert_eq!(m(&[0xED, 0x6F], &nop), 0x9001); // RLD
    assert_eq!(m(&[0xED, 0xA1], &|c, _| c.memptr = 0x1000), 0x1001); // CPI
    assert_eq!(m(&[0xED, 0xA9], &|c, _| c.memptr = 0x1000), 0x0FFF); // CPD
    assert_eq!(m(&[0xED, 0xA2], &nop), 0x0204); // INI: BC before dec + 1
    assert_eq!(m(&[0xED, 0xAA], &nop), 0x0202); // IND
    assert_eq!(m(&[0xED, 0xA3], &nop), 0x0104); // OUTI: BC after dec + 1
    assert_eq!(m(&[0xED, 0xAB], &nop), 0x0102); // OUTD
}
