//! Spec-based writers for the file formats rustzx loads: SNA (48K/128K), SZX, SCR, TAP is in
//! tapemodel. Written from the published format descriptions, not from the loaders.

use crate::rig::RegsView;

/// Abstract machine state a snapshot file can describe
#[derive(Clone, Debug)]
pub struct MState {
    pub m128: bool,
    pub regs: RegsView,
    pub border: u8,
    pub port7ffd: u8,
    /// 8 RAM banks of 16K (48K machines use banks 5, 2, 0 for 0x4000, 0x8000, 0xC000)
    pub banks: Vec<Vec<u8>>,
    pub ay_selected: u8,
    pub ay_regs: [u8; 16],
    /// chFlags of the AY chunk (2 = ZXSTAYF_128AY: a 48K machine with an AY interface)
    pub ay_flags: u8,
    /// write the AY chunk also for a 48K machine
    pub ay_chunk_48k: bool,
    pub port_fe: u8,
    pub kempston: bool,
    pub mouse: bool,
    pub eilast: bool,
    /// tstates since frame start stored in SZX
    pub cycles: u32,
}

pub fn bank_pattern(bank: u8, salt: u8) -> Vec<u8> {
    (0..16384usize)
        .map(|o| ((o as u32).wrapping_mul(13) + (o as u32 >> 8) * 7 + bank as u32 * 41 + salt as u32 * 3) as u8)
        .collect()
}

impl MState {
    pub fn new(m128: bool, salt: u8) -> MState {
        let mut r = RegsView::default();
        let s = salt as u16;
        r.af = 0x1102 + s;
        r.bc = 0x2204 + s * 3;
        r.de = 0x3306 + s * 5;
        r.hl = 0x4408 + s * 7;
        r.af_ = 0x550A + s * 11;
        r.bc_ = 0x660C + s * 13;
        r.de_ = 0x770E + s * 17;
        r.hl_ = 0x8810 + s * 19;
        r.ix = 0x9912 + s * 23;
        r.iy = 0xAA14 + s * 29;
        r.sp = 0xBF00;
        r.pc = 0x9000;
        r.i = 0x3F;
        r.r = 0x5A;
        r.im = 1;
        r.iff1 = true;
        r.iff2 = true;
        MState {
            m128,
            regs: r,
            border: (salt % 8),
            port7ffd: 0,
            banks: (0..8).map(|b| bank_pattern(b, salt)).collect(),
            ay_selected: 3,
            ay_regs: [0x11, 0x02, 0x33, 0x04, 0x55, 0x06, 0x07, 0x38, 0x0F, 0x10, 0x0B, 0x44, 0x55, 0x0E, 0x5A, 0xC3],
            ay_flags: 0,
            ay_chunk_48k: false,
            port_fe: salt % 8, // last value written to port FE: low three bits are the border
            kempston: false,
            mouse: false,
            eilast: false,
            cycles: 0,
        }
    }
    /// bank mapped at a 16K window (1..3)
    pub fn window_bank(&self, w: usize) -> usize {
        match w {
            1 => 5,
            2 => 2,
            _ => {
                if self.m128 {
                    (self.port7ffd & 7) as usize
                } else {
                    0
                }
            }
        }
    }
    pub fn peek(&self, addr: u16) -> Option<u8> {
        let w = (addr >> 14) as usize;
        if w == 0 {
            None
        } else {
            Some(self.banks[self.window_bank(w)][(addr & 0x3FFF) as usize])
        }
    }
    pub fn poke(&mut self, addr: u16, v: u8) {
        let w = (addr >> 14) as usize;
        if w != 0 {
            let b = self.window_bank(w);
            self.banks[b][(addr & 0x3FFF) as usize] = v;
        }
    }
}

fn w16(v: &mut Vec<u8>, x: u16) {
    v.push(x as u8);
    v.push((x >> 8) as u8);
}

fn sna_header(s: &MState, sp: u16) -> Vec<u8> {
    let r = &s.regs;
    let mut h = Vec::with_capacity(27);
    h.push(r.i);
    w16(&mut h, r.hl_);
    w16(&mut h, r.de_);
    w16(&mut h, r.bc_);
    w16(&mut h, r.af_);
    w16(&mut h, r.hl);
    w16(&mut h, r.de);
    w16(&mut h, r.bc);
    w16(&mut h, r.iy);
    w16(&mut h, r.ix);
    h.push(if r.iff2 { 0x04 } else { 0x00 });
    h.push(r.r);
    w16(&mut h, r.af);
    w16(&mut h, sp);
    h.push(r.im);
    h.push(s.border);
    h
}

/// 48K SNA: PC is pushed on the stack inside the RAM image
pub fn sna48(s: &MState) -> Vec<u8> {
    let mut st = s.clone();
    let sp = s.regs.sp.wrapping_sub(2);
    st.poke(sp, s.regs.pc as u8);
    st.poke(sp.wrapping_add(1), (s.regs.pc >> 8) as u8);
    let mut f = sna_header(s, sp);
    for b in [5usize, 2, 0] {
        f.extend_from_slice(&st.banks[b]);
    }
    f
}

/// 128K SNA: header, banks 5, 2, paged bank, PC, 7FFD, TR-DOS flag, remaining banks ascending
pub fn sna128(s: &MState) -> Vec<u8> {
    let mut f = sna_header(s, s.regs.sp);
    let paged = (s.port7ffd & 7) as usize;
    f.extend_from_slice(&s.banks[5]);
    f.extend_from_slice(&s.banks[2]);
    f.extend_from_slice(&s.banks[paged]);
    w16(&mut f, s.regs.pc);
    f.push(s.port7ffd);
    f.push(0);
    for b in 0..8usize {
        if b == 5 || b == 2 || b == paged {
            continue;
        }
        f.extend_from_slice(&s.banks[b]);
    }
    f
}

#[derive(Clone, Debug)]
pub struct SzxOpts {
    pub compressed: bool,
    /// permutation index of the chunk groups
    pub order: u8,
    pub unknown_chunks: bool,
    pub creator: bool,
    pub halted: bool,
    pub minor: u8,
    pub with_ay: bool,
    pub with_keyb: bool,
    pub with_mouse: bool,
    /// with `unknown_chunks`: one of the unknown chunks is larger than any chunk the format defines
    /// for memory (an embedded tape or disk image)
    pub big_unknown: bool,
    /// ZXSTZF_FSET (v1.5): the last instruction executed changed the flags
    pub fset: bool,
}

impl Default for SzxOpts {
    fn default() -> Self {
        SzxOpts { compressed: false, order: 0, unknown_chunks: false, creator: true, halted: false, minor: 4, with_ay: true, with_keyb: true, with_mouse: true, big_unknown: false, fset: false }
    }
}

fn chunk(id: &[u8; 4], data: &[u8]) -> Vec<u8> {
    let mut c = id.to_vec();
    c.extend_from_slice(&(data.len() as u32).to_le_bytes());
    c.extend_from_slice(data);
    c
}

pub fn szx(s: &MState, o: &SzxOpts) -> Vec<u8> {
    let mut f = b"ZXST".to_vec();
    f.push(1);
    f.push(o.minor);
    f.push(if s.m128 { 2 } else { 1 });
    f.push(0);
    let r = &s.regs;
    // Z80R
    let mut z = Vec::new();
    for x in [r.af, r.bc, r.de, r.hl, r.af_, r.bc_, r.de_, r.hl_, r.ix, r.iy, r.sp, r.pc] {
        w16(&mut z, x);
    }
    z.push(r.i);
    z.push(r.r);
    z.push(r.iff1 as u8);
    z.push(r.iff2 as u8);
    z.push(r.im);
    z.extend_from_slice(&s.cycles.to_le_bytes());
    z.push(0);
    z.push((s.eilast as u8) | ((o.halted as u8) << 1) | ((o.fset as u8) << 2));
    w16(&mut z, r.memptr);
    let z80r = chunk(b"Z80R", &z);
    // SPCR
    let spcr = chunk(b"SPCR", &[s.border, if s.m128 { s.port7ffd } else { 0 }, 0, s.port_fe, 0, 0, 0, 0]);
    // RAMP
    let mut ramps: Vec<Vec<u8>> = Vec::new();
    let pages: Vec<usize> = if s.m128 { (0..8).collect() } else { vec![5, 2, 0] };
    for p in pages {
        let mut d = Vec::new();
        if o.compressed {
            w16(&mut d, 1);
            d.push(p as u8);
            d.extend_from_slice(&miniz_oxide::deflate::compress_to_vec_zlib(&s.banks[p], 6));
        } else {
            w16(&mut d, 0);
            d.push(p as u8);
            d.extend_from_slice(&s.banks[p]);
        }
        ramps.push(chunk(b"RAMP", &d));
    }
    // AY
    let mut ayd = vec![s.ay_flags, s.ay_selected];
    ayd.extend_from_slice(&s.ay_regs);
    let ay = chunk(b"AY\0\0", &ayd);
    let keyb = chunk(b"KEYB", &[0, 0, 0, 0, if s.kempston { 1 } else { 0 }]);
    let amxm = chunk(b"AMXM", &[if s.mouse { 2 } else { 0 }, 0, 0, 0, 0, 0, 0]);
    let mut crtr_d = b"vcheck reference writer\0\0\0\0\0\0\0\0\0".to_vec();
    crtr_d.resize(32, 0);
    crtr_d.extend_from_slice(&[1, 0, 0, 0]);
    crtr_d.push(0);
    let crtr = chunk(b"CRTR", &crtr_d);
    let unk1 = chunk(b"ZXPR", &[0, 0]);
    let unk2 = chunk(b"xYzW", &[1, 2, 3, 4, 5, 6, 7]);
    let unk3 = chunk(b"JOY\0", &[0, 0, 0, 0, 0, 0]);
    let unk_big = if o.big_unknown { chunk(b"DSK\0", &(0..70001u32).map(|i| (i * 7 + 1) as u8).collect::<Vec<u8>>()) } else { Vec::new() };
    // groups in one of 6 orders
    let mut groups: Vec<Vec<u8>> = Vec::new();
    let mut regs_g = Vec::new();
    regs_g.extend(z80r);
    regs_g.extend(spcr);
    let mut ram_g = Vec::new();
    for (i, rp) in ramps.iter().enumerate() {
        ram_g.extend_from_slice(rp);
        if o.unknown_chunks && i == 1 {
            ram_g.extend_from_slice(&unk2);
        }
    }
    let mut dev_g = Vec::new();
    if o.with_ay && (s.m128 || s.ay_chunk_48k) {
        dev_g.extend(ay);
    }
    if o.with_keyb {
        dev_g.extend(keyb);
    }
    if o.with_mouse {
        dev_g.extend(amxm);
    }
    groups.push(regs_g);
    groups.push(ram_g);
    groups.push(dev_g);
    let perms: [[usize; 3]; 6] = [[0, 1, 2], [0, 2, 1], [1, 0, 2], [1, 2, 0], [2, 0, 1], [2, 1, 0]];
    if o.creator {
        f.extend(crtr);
    }
    if o.unknown_chunks {
        f.extend(unk1);
        if o.big_unknown {
            f.extend(unk_big);
        }
    }
    for g in perms[(o.order % 6) as usize] {
        f.extend_from_slice(&groups[g]);
        if o.unknown_chunks {
            f.extend_from_slice(&unk3);
        }
    }
    f
}

/// SCR: the 6912 bytes of a screen
pub fn scr(bitmap_and_attrs: &[u8]) -> Vec<u8> {
    bitmap_and_attrs[..6912].to_vec()
}

/// Standard decode of a Spectrum screen (6912 bytes) into 256x192 (colour | bright<<3) pixels
pub fn decode_screen(mem: &[u8], flash_swapped: bool) -> Vec<u8> {
    let mut out = vec![0u8; 256 * 192];
    for y in 0..192usize {
        for x in 0..256usize {
            let off = ((y & 0xC0) << 5) | ((y & 7) << 8) | ((y & 0x38) << 2) | (x >> 3);
            let bit = mem[off] & (0x80 >> (x & 7)) != 0;
            let a = mem[0x1800 + (y >> 3) * 32 + (x >> 3)];
            let ink = a & 7;
            let paper = (a >> 3) & 7;
            let bright = (a >> 6) & 1;
            let flash = a & 0x80 != 0;
            let on = bit ^ (flash && flash_swapped);
            out[y * 256 + x] = (if on { ink } else { paper }) | bright << 3;
        }
    }
    out
}
