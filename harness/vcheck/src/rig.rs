//! rig: the harness-owned `Host` for the real `Emulator`: recording frame buffers, scripted
//! stopwatch, scripted/faulting/chunking assets, configurable I/O extender, debug interface.

use rustzx_core::{
    error::IoError,
    host::{
        DataRecorder, DebugInterface, FrameBuffer, FrameBufferSource, Host, HostContext, IoExtender,
        LoadableAsset, SeekFrom, SeekableAsset, Stopwatch,
    },
    poke::{Poke, PokeAction},
    zx::{
        machine::ZXMachine,
        sound::ay::ZXAYMode,
        video::colors::{ZXBrightness, ZXColor},
    },
    EmulationMode, EmulationStopReason, Emulator, RustzxSettings,
};
use std::cell::RefCell;
use std::collections::BTreeSet;
use std::sync::Arc;
use std::time::Duration;

// ---------------------------------------------------------------- frame buffer

#[derive(Clone)]
pub struct VFrame {
    pub w: usize,
    pub h: usize,
    /// colour index (0..7) | bright << 3 ; 0xFF = never written
    pub pix: Vec<u8>,
    pub is_border: bool,
}

impl FrameBuffer for VFrame {
    type Context = ();
    fn new(width: usize, height: usize, source: FrameBufferSource, _context: ()) -> Self {
        VFrame {
            w: width,
            h: height,
            pix: vec![0xFF; width * height],
            is_border: matches!(source, FrameBufferSource::Border),
        }
    }
    fn set_color(&mut self, x: usize, y: usize, color: ZXColor, brightness: ZXBrightness) {
        let c: u8 = color.into();
        let b = match brightness {
            ZXBrightness::Normal => 0,
            ZXBrightness::Bright => 8,
        };
        self.pix[y * self.w + x] = c | b;
    }
}

// ---------------------------------------------------------------- stopwatch

thread_local! {
    /// Script of stopwatch readings (nanoseconds); when exhausted the reading is `STOPWATCH_DEFAULT`.
    pub static STOPWATCH_SCRIPT: RefCell<Vec<u64>> = RefCell::new(Vec::new());
    pub static STOPWATCH_POS: RefCell<usize> = RefCell::new(0);
    pub static STOPWATCH_DEFAULT: RefCell<u64> = RefCell::new(0);
    pub static STOPWATCH_READS: RefCell<u64> = RefCell::new(0);
}

pub fn stopwatch_set(script: Vec<u64>, default: u64) {
    STOPWATCH_SCRIPT.with(|s| *s.borrow_mut() = script);
    STOPWATCH_POS.with(|p| *p.borrow_mut() = 0);
    STOPWATCH_DEFAULT.with(|d| *d.borrow_mut() = default);
    STOPWATCH_READS.with(|d| *d.borrow_mut() = 0);
}

pub struct VStopwatch;
impl Stopwatch for VStopwatch {
    fn new() -> Self {
        VStopwatch
    }
    fn measure(&self) -> Duration {
        STOPWATCH_READS.with(|d| *d.borrow_mut() += 1);
        let pos = STOPWATCH_POS.with(|p| {
            let mut p = p.borrow_mut();
            let v = *p;
            *p += 1;
            v
        });
        let ns = STOPWATCH_SCRIPT.with(|s| s.borrow().get(pos).copied());
        let ns = ns.unwrap_or_else(|| STOPWATCH_DEFAULT.with(|d| *d.borrow()));
        Duration::from_nanos(ns)
    }
}

// ---------------------------------------------------------------- assets

#[derive(Clone, Copy, Debug, PartialEq, Eq)]
pub enum Fault {
    /// read returns Err(HostAssetImplFailed)
    Err,
    /// read delivers at most one byte
    Short1,
    /// read returns Ok(0)
    Zero,
}

/// In-memory asset with harness-owned environment answers: chunk size of every read,
/// faults at chosen call indices (reads and seeks are counted together).
#[derive(Clone)]
pub enum AssetData {
    Shared(Arc<Vec<u8>>),
    /// leaked image: cloning needs no reference counting (hot BFS loops clone the tape per transition)
    Static(&'static [u8]),
}

impl AssetData {
    pub fn len(&self) -> usize {
        self.bytes().len()
    }
    pub fn bytes(&self) -> &[u8] {
        match self {
            AssetData::Shared(a) => a.as_slice(),
            AssetData::Static(s) => s,
        }
    }
}

impl std::ops::Index<std::ops::Range<usize>> for AssetData {
    type Output = [u8];
    fn index(&self, r: std::ops::Range<usize>) -> &[u8] {
        &self.bytes()[r]
    }
}

#[derive(Clone)]
pub struct VAsset {
    pub data: AssetData,
    pub pos: usize,
    /// maximum bytes delivered per read call (0 = unlimited)
    pub chunk: usize,
    pub faults: Vec<(usize, Fault)>,
    pub seek_fault_at: Option<usize>,
    pub calls: usize,
    /// hard cap on calls: past it every call fails (hang detector); 0 = none
    pub call_cap: usize,
    pub cap_hit: bool,
    /// end of data is reported as Ok(0) (what the LoadableAsset doc asks for, what files do) instead
    /// of Err(UnexpectedEof) (what BufferCursor does)
    pub eof_zero: bool,
}

impl VAsset {
    pub fn new(data: Vec<u8>) -> VAsset {
        VAsset::shared(Arc::new(data))
    }
    pub fn shared(data: Arc<Vec<u8>>) -> VAsset {
        VAsset::from_data(AssetData::Shared(data))
    }
    pub fn leaked(data: Vec<u8>) -> VAsset {
        VAsset::from_data(AssetData::Static(Box::leak(data.into_boxed_slice())))
    }
    pub fn from_data(data: AssetData) -> VAsset {
        VAsset {
            data,
            pos: 0,
            chunk: 0,
            faults: Vec::new(),
            seek_fault_at: None,
            calls: 0,
            call_cap: 0,
            cap_hit: false,
            eof_zero: false,
        }
    }
    pub fn chunked(mut self, n: usize) -> VAsset {
        self.chunk = n;
        self
    }
    pub fn eof_as_zero(mut self, on: bool) -> VAsset {
        self.eof_zero = on;
        self
    }
}

impl LoadableAsset for VAsset {
    fn read(&mut self, buf: &mut [u8]) -> Result<usize, IoError> {
        let idx = self.calls;
        self.calls += 1;
        if self.call_cap != 0 && self.calls > self.call_cap {
            self.cap_hit = true;
            return Err(IoError::HostAssetImplFailed);
        }
        let fault = self.faults.iter().find(|(i, _)| *i == idx).map(|(_, f)| *f);
        match fault {
            Some(Fault::Err) => return Err(IoError::HostAssetImplFailed),
            Some(Fault::Zero) => return Ok(0),
            _ => {}
        }
        if self.pos >= self.data.len() {
            return if self.eof_zero { Ok(0) } else { Err(IoError::UnexpectedEof) };
        }
        let mut n = buf.len().min(self.data.len() - self.pos);
        if self.chunk != 0 {
            n = n.min(self.chunk);
        }
        if fault == Some(Fault::Short1) {
            n = n.min(1);
        }
        buf[..n].copy_from_slice(&self.data[self.pos..self.pos + n]);
        self.pos += n;
        Ok(n)
    }
}

impl SeekableAsset for VAsset {
    fn seek(&mut self, pos: SeekFrom) -> Result<usize, IoError> {
        let idx = self.calls;
        self.calls += 1;
        if self.call_cap != 0 && self.calls > self.call_cap {
            self.cap_hit = true;
            return Err(IoError::HostAssetImplFailed);
        }
        if self.seek_fault_at == Some(idx) || self.faults.iter().any(|(i, f)| *i == idx && *f == Fault::Err) {
            return Err(IoError::HostAssetImplFailed);
        }
        let new_pos = match pos {
            SeekFrom::Start(p) => p as i128,
            SeekFrom::End(p) => self.data.len() as i128 + p as i128,
            SeekFrom::Current(p) => self.pos as i128 + p as i128,
        };
        if new_pos < 0 {
            return Err(IoError::SeekBeforeStart);
        }
        self.pos = new_pos as usize;
        Ok(self.pos)
    }
}

/// Recorder collecting snapshot output
#[derive(Default)]
pub struct VRecorder {
    pub data: Vec<u8>,
}
impl DataRecorder for VRecorder {
    fn write(&mut self, buf: &[u8]) -> Result<usize, IoError> {
        self.data.extend_from_slice(buf);
        Ok(buf.len())
    }
}

// ---------------------------------------------------------------- io extender

#[derive(Clone, Debug, PartialEq, Eq)]
pub enum Claim {
    None,
    Exact(u16),
    /// claims port when port & mask == value
    Mask(u16, u16),
}

#[derive(Clone)]
pub struct VExt {
    pub claim: Claim,
    pub read_value: u8,
    pub log: Vec<(bool, u16, u8)>,
    /// do not record accesses (machines that run millions of port cycles)
    pub quiet: bool,
}

impl VExt {
    pub fn new(claim: Claim, read_value: u8) -> VExt {
        VExt {
            claim,
            read_value,
            log: Vec::new(),
            quiet: false,
        }
    }
    pub fn quiet(mut self) -> VExt {
        self.quiet = true;
        self
    }
    pub fn claims(&self, port: u16) -> bool {
        match self.claim {
            Claim::None => false,
            Claim::Exact(p) => p == port,
            Claim::Mask(m, v) => port & m == v,
        }
    }
}

impl IoExtender for VExt {
    fn write(&mut self, port: u16, data: u8) {
        if !self.quiet {
            self.log.push((true, port, data));
        }
    }
    fn read(&mut self, port: u16) -> u8 {
        if !self.quiet {
            self.log.push((false, port, self.read_value));
        }
        self.read_value
    }
    fn extends_port(&self, port: u16) -> bool {
        self.claims(port)
    }
}

// ---------------------------------------------------------------- debug interface

pub struct VDebug {
    pub always: bool,
    pub pcs: BTreeSet<u16>,
    pub calls: u64,
    pub last_pc: u16,
}

impl VDebug {
    pub fn always() -> VDebug {
        VDebug {
            always: true,
            pcs: BTreeSet::new(),
            calls: 0,
            last_pc: 0,
        }
    }
    pub fn at(pcs: &[u16]) -> VDebug {
        VDebug {
            always: false,
            pcs: pcs.iter().copied().collect(),
            calls: 0,
            last_pc: 0,
        }
    }
}

impl DebugInterface for VDebug {
    fn check_pc_breakpoint(&mut self, addr: u16) -> bool {
        self.calls += 1;
        self.last_pc = addr;
        self.always || self.pcs.contains(&addr)
    }
}

// ---------------------------------------------------------------- host

pub struct VCtx;
impl HostContext<VHost> for VCtx {
    fn frame_buffer_context(&self) {}
}

pub struct VHost;
impl Host for VHost {
    type Context = VCtx;
    type TapeAsset = VAsset;
    type FrameBuffer = VFrame;
    type EmulationStopwatch = VStopwatch;
    type IoExtender = VExt;
    type DebugInterface = VDebug;
}

pub type Emu = Emulator<VHost>;

#[derive(Clone, Copy)]
pub struct Opts {
    pub m128: bool,
    pub fastload: bool,
    pub kempston: bool,
    pub mouse: bool,
    pub ay: bool,
    pub ay_mode: ZXAYMode,
    pub beeper: bool,
    pub sound: bool,
    pub volume: u8,
    pub rate: usize,
    pub rom: bool,
    pub autoload: bool,
    pub mode: EmulationMode,
}

impl Opts {
    pub fn k48() -> Opts {
        Opts {
            m128: false,
            fastload: false,
            kempston: false,
            mouse: false,
            ay: false,
            ay_mode: ZXAYMode::Mono,
            beeper: true,
            sound: true,
            volume: 100,
            rate: 44100,
            rom: true,
            autoload: false,
            mode: EmulationMode::FrameCount(1),
        }
    }
    pub fn k128() -> Opts {
        Opts {
            m128: true,
            ay: true,
            ..Opts::k48()
        }
    }
    pub fn machine(m128: bool) -> Opts {
        if m128 {
            Opts::k128()
        } else {
            Opts::k48()
        }
    }
}

pub fn settings(o: &Opts) -> RustzxSettings {
    RustzxSettings {
        machine: if o.m128 {
            ZXMachine::Sinclair128K
        } else {
            ZXMachine::Sinclair48K
        },
        emulation_mode: o.mode,
        tape_fastload_enabled: o.fastload,
        kempston_enabled: o.kempston,
        mouse_enabled: o.mouse,
        ay_mode: o.ay_mode,
        ay_enabled: o.ay,
        beeper_enabled: o.beeper,
        sound_enabled: o.sound,
        sound_volume: o.volume,
        sound_sample_rate: o.rate,
        load_default_rom: o.rom,
        autoload_enabled: o.autoload,
    }
}

pub fn emu(o: &Opts) -> Emu {
    Emulator::<VHost>::new(settings(o), VCtx).ok().expect("Emulator::new")
}

/// Emulator that returns from `emulate_frames` after every single `Z80::emulate`
pub fn emu_stepping(o: &Opts) -> Emu {
    let mut e = emu(o);
    e.set_debug_interface(VDebug::always());
    e
}

pub const FOREVER: Duration = Duration::from_secs(1_000_000);

/// One `Z80::emulate` through the public API (needs the break-always debug interface).
thread_local! {
    /// number of `step` calls on this thread that did not end at the break-always interface
    /// (the emulator advanced time without completing an instruction through `Z80::emulate`)
    pub static STEP_ANOMALIES: std::cell::Cell<u64> = const { std::cell::Cell::new(0) };
}

pub fn step(e: &mut Emu) {
    match e.emulate_frames(FOREVER) {
        Ok(info) => {
            if info.stop_reason != EmulationStopReason::Breakpoint {
                // not a machinery error: lock-step comparisons after this call judge what happened
                STEP_ANOMALIES.with(|c| c.set(c.get() + 1));
            }
        }
        Err(err) => panic!("rig::step: emulation error {:?}", err),
    }
}

pub fn step_result(e: &mut Emu) -> Result<(), rustzx_core::error::Error> {
    e.emulate_frames(FOREVER).map(|_| ())
}

pub struct PokeList(pub Vec<PokeAction>);
impl Poke for PokeList {
    fn actions(&self) -> &[PokeAction] {
        &self.0
    }
}

/// Store bytes through `execute_poke` (force write: also into ROM; bypasses the screen cache,
/// so never used for display memory in checks that look at the picture).
pub fn poke(e: &mut Emu, addr: u16, bytes: &[u8]) {
    let list: Vec<PokeAction> = bytes
        .iter()
        .enumerate()
        .map(|(i, b)| PokeAction::mem(addr.wrapping_add(i as u16), *b))
        .collect();
    e.execute_poke(PokeList(list));
}

pub fn frame_len(m128: bool) -> usize {
    if m128 {
        70908
    } else {
        69888
    }
}

/// Absolute emulated time of an emulator in T-states (frames * frame length + in-frame offset)
pub fn abs_t(e: &Emu, m128: bool) -> u64 {
    e.verif_total_frames() * frame_len(m128) as u64 + e.verif_frame_clocks() as u64
}

/// All CPU-visible registers in a fixed order (alternate set read through an exx round trip
/// on a clone, never through the `*_alt` getters).
#[derive(Clone, Debug, PartialEq, Eq, Hash, Default)]
pub struct RegsView {
    pub af: u16,
    pub bc: u16,
    pub de: u16,
    pub hl: u16,
    pub af_: u16,
    pub bc_: u16,
    pub de_: u16,
    pub hl_: u16,
    pub ix: u16,
    pub iy: u16,
    pub sp: u16,
    pub pc: u16,
    pub i: u8,
    pub r: u8,
    pub iff1: bool,
    pub iff2: bool,
    pub im: u8,
    pub halted: bool,
    pub memptr: u16,
    pub q: u8,
    pub prefix: u8,
    pub skip_int: bool,
}

pub fn regs_view(cpu: &rustzx_z80::Z80) -> RegsView {
    let mut c = cpu.clone();
    let r = &cpu.regs;
    let af = r.get_af();
    let bc = r.get_bc();
    let de = r.get_de();
    let hl = r.get_hl();
    c.regs.exx();
    c.regs.swap_af_alt();
    RegsView {
        af,
        bc,
        de,
        hl,
        af_: c.regs.get_af(),
        bc_: c.regs.get_bc(),
        de_: c.regs.get_de(),
        hl_: c.regs.get_hl(),
        ix: r.get_ix(),
        iy: r.get_iy(),
        sp: r.get_sp(),
        pc: r.get_pc(),
        i: r.get_i(),
        r: r.get_r(),
        iff1: r.get_iff1(),
        iff2: r.get_iff2(),
        im: cpu.get_im().into(),
        halted: cpu.halted,
        memptr: r.get_mem_ptr(),
        q: r.verif_q().0,
        prefix: cpu.verif_active_prefix(),
        skip_int: cpu.skip_interrupt,
    }
}

/// Set all registers of the real CPU from a view (alternates through exx/swap).
pub fn set_regs(cpu: &mut rustzx_z80::Z80, v: &RegsView) {
    let r = &mut cpu.regs;
    r.set_af(v.af_);
    r.set_bc(v.bc_);
    r.set_de(v.de_);
    r.set_hl(v.hl_);
    r.exx();
    r.swap_af_alt();
    r.set_af(v.af);
    r.set_bc(v.bc);
    r.set_de(v.de);
    r.set_hl(v.hl);
    r.set_ix(v.ix);
    r.set_iy(v.iy);
    r.set_sp(v.sp);
    r.set_pc(v.pc);
    r.set_i(v.i);
    r.set_r(v.r);
    r.set_iff1(v.iff1);
    r.set_iff2(v.iff2);
    r.set_mem_ptr(v.memptr);
    r.verif_set_q(v.q);
    cpu.set_im(v.im);
    cpu.halted = v.halted;
    cpu.skip_interrupt = v.skip_int;
}

pub fn canvas(e: &Emu) -> &VFrame {
    e.screen_buffer()
}
pub fn border(e: &Emu) -> &VFrame {
    e.border_buffer()
}

pub fn drain_audio(e: &mut Emu) -> Vec<(f32, f32)> {
    let mut v = Vec::new();
    while let Some(s) = e.next_audio_sample() {
        v.push((s.left, s.right));
    }
    v
}

/// Poke `code` at `addr`, point PC at it and execute `steps` single steps.
pub fn run_code(e: &mut Emu, addr: u16, code: &[u8], steps: usize) {
    poke(e, addr, code);
    e.verif_cpu().regs.set_pc(addr);
    for _ in 0..steps {
        step(e);
    }
}

/// `OUT (C),A` executed by the emulated CPU (code placed at `code_addr`)
pub fn cpu_out(e: &mut Emu, code_addr: u16, port: u16, val: u8) {
    let cpu = e.verif_cpu();
    cpu.regs.set_bc(port);
    cpu.regs.set_acc(val);
    run_code(e, code_addr, &[0xED, 0x79], 1);
}

/// `IN A,(C)` executed by the emulated CPU; returns A
pub fn cpu_in(e: &mut Emu, code_addr: u16, port: u16) -> u8 {
    let cpu = e.verif_cpu();
    cpu.regs.set_bc(port);
    run_code(e, code_addr, &[0xED, 0x78], 1);
    e.verif_cpu().regs.get_acc()
}

/// `LD (nn),A`
pub fn cpu_store(e: &mut Emu, code_addr: u16, nn: u16, val: u8) {
    e.verif_cpu().regs.set_acc(val);
    run_code(e, code_addr, &[0x32, nn as u8, (nn >> 8) as u8], 1);
}

/// `LD A,(nn)`
pub fn cpu_load(e: &mut Emu, code_addr: u16, nn: u16) -> u8 {
    run_code(e, code_addr, &[0x3A, nn as u8, (nn >> 8) as u8], 1);
    e.verif_cpu().regs.get_acc()
}

pub fn read_file(path: &str) -> Vec<u8> {
    std::fs::read(path).unwrap_or_else(|e| {
        eprintln!("MACHINERY: cannot read {}: {}", path, e);
        std::process::exit(2)
    })
}

pub fn gunzip(data: &[u8]) -> Vec<u8> {
    use std::io::Read;
    let mut d = flate2::read::GzDecoder::new(data);
    let mut out = Vec::new();
    d.read_to_end(&mut out).expect("gunzip");
    out
}

pub struct VRomSet {
    pub pages: std::collections::VecDeque<VAsset>,
}
impl rustzx_core::host::RomSet for VRomSet {
    type Asset = VAsset;
    fn format(&self) -> rustzx_core::host::RomFormat {
        rustzx_core::host::RomFormat::Binary16KPages
    }
    fn next_asset(&mut self) -> Option<VAsset> {
        self.pages.pop_front()
    }
}
