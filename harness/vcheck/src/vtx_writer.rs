//! vtx_writer: spec-based VTX file writer with a literal-only LH5 (-lh5-) encoder.
//!
//! LH5 stream = sequence of blocks. Each block (bits MSB first):
//!   16 bits  number of commands in the block
//!   temp tree     (code lengths of the symbols that describe the command tree's code lengths)
//!   command tree  (510 symbols: 0..=255 literals, 256.. copy commands)
//!   offset tree
//!   the commands
//! The encoder here emits literals only: every literal byte gets the 8-bit code equal to its value
//! (256 leaves of depth 8 form a complete tree; canonical assignment in symbol order makes the
//! code of literal b the byte b itself). Two header styles describe that same command tree:
//!   Flat     : temp tree = single code "10" (length 8 + 2), zero bits per command-tree entry
//!   Explicit : temp tree with two explicit 1-bit codes (symbol 0 -> "0", symbol 10 -> "1")
//! The offset tree is the single code 0 in both (never used).

#[derive(Clone, Copy, Debug, PartialEq, Eq)]
pub enum Lh5Style {
    Flat,
    Explicit,
}

struct BitW {
    out: Vec<u8>,
    acc: u8,
    n: u8,
}

impl BitW {
    fn new() -> BitW {
        BitW { out: Vec::new(), acc: 0, n: 0 }
    }
    fn put(&mut self, v: u32, bits: u32) {
        for i in (0..bits).rev() {
            self.acc = (self.acc << 1) | ((v >> i) & 1) as u8;
            self.n += 1;
            if self.n == 8 {
                self.out.push(self.acc);
                self.acc = 0;
                self.n = 0;
            }
        }
    }
    fn finish(mut self) -> Vec<u8> {
        while self.n != 0 {
            self.put(0, 1);
        }
        self.out
    }
}

/// Encode `data` as an LH5 stream of literal-only blocks of at most `block` commands (1..=65535).
pub fn lh5_literals(data: &[u8], block: usize, style: Lh5Style) -> Vec<u8> {
    let block = block.clamp(1, 65535);
    let mut w = BitW::new();
    for chunk in data.chunks(block) {
        w.put(chunk.len() as u32, 16);
        match style {
            Lh5Style::Flat => {
                // temp tree: num_codes = 0, single code 10
                w.put(0, 5);
                w.put(10, 5);
                // command tree: 256 entries, each decoded from the temp tree with zero bits
                w.put(256, 9);
            }
            Lh5Style::Explicit => {
                // temp tree: 11 code lengths: [1,0,0] skip(3) -> entries 3,4,5 = 0; 6..=9 = 0; 10 = 1
                w.put(11, 5);
                w.put(1, 3);
                w.put(0, 3);
                w.put(0, 3);
                w.put(3, 2);
                for _ in 6..10 {
                    w.put(0, 3);
                }
                w.put(1, 3);
                // command tree: 256 entries, each the temp symbol 10 = code "1"
                w.put(256, 9);
                for _ in 0..256 {
                    w.put(1, 1);
                }
            }
        }
        // offset tree: num_codes = 0, single code 0
        w.put(0, 4);
        w.put(0, 4);
        for b in chunk {
            w.put(*b as u32, 8);
        }
    }
    w.finish()
}

/// Decode with the same decoder type the vtx crate uses (`delharc::decode::Lh5Decoder`).
pub fn lh5_decode(stream: &[u8], out_len: usize) -> Result<Vec<u8>, String> {
    use delharc::decode::{Decoder, Lh5Decoder};
    let mut buf = vec![0u8; out_len];
    let mut d = Lh5Decoder::new(std::io::Cursor::new(stream));
    d.fill_buffer(&mut buf).map_err(|e| format!("{}", e))?;
    Ok(buf)
}

#[derive(Clone, Debug)]
pub struct VtxSpec {
    pub ym: bool,
    pub stereo: u8,
    pub loop_start: u16,
    pub frequency: u32,
    pub player_freq: u8,
    pub year: u16,
    /// title, author, from, tracker, comment (no NUL bytes inside)
    pub strings: [String; 5],
    pub frames: Vec<[u8; 14]>,
}

/// Register-major payload as stored in the file: all R0 values, then all R1 values, ...
pub fn register_major(frames: &[[u8; 14]]) -> Vec<u8> {
    let f = frames.len();
    let mut v = vec![0u8; 14 * f];
    for (k, fr) in frames.iter().enumerate() {
        for r in 0..14 {
            v[r * f + k] = fr[r];
        }
    }
    v
}

pub fn write_vtx(spec: &VtxSpec, block: usize, style: Lh5Style) -> Vec<u8> {
    let mut out = Vec::new();
    out.extend_from_slice(if spec.ym { b"ym" } else { b"ay" });
    out.push(spec.stereo);
    out.extend_from_slice(&spec.loop_start.to_le_bytes());
    out.extend_from_slice(&spec.frequency.to_le_bytes());
    out.push(spec.player_freq);
    out.extend_from_slice(&spec.year.to_le_bytes());
    let payload = register_major(&spec.frames);
    out.extend_from_slice(&(payload.len() as u32).to_le_bytes());
    for s in spec.strings.iter() {
        out.extend_from_slice(s.as_bytes());
        out.push(0);
    }
    out.extend_from_slice(&lh5_literals(&payload, block, style));
    out
}
