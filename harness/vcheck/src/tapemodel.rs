//! RefTape: the ideal TAP waveform, an independent pulse decoder, and the "chain" of
//! reload states of the real `Tap` used by C11/C12 for sound decomposition of the search.

use crate::rig::{AssetData, VAsset};
use rustzx_core::verif::{Tap, TapeImpl, VerifTapState};

pub const PILOT: u64 = 2168;
pub const SYNC1: u64 = 667;
pub const SYNC2: u64 = 735;
pub const ZERO: u64 = 855;
pub const ONE: u64 = 1710;
/// "about one second" at 3.5 MHz, +-5 %
pub const SECOND: u64 = 3_500_000;
pub const PAUSE_MIN: u64 = SECOND * 95 / 100;
pub const PAUSE_MAX: u64 = SECOND * 105 / 100;
pub const TOL: u64 = 32;

/// Build a TAP image from raw blocks (each block = flag, data.., checksum as given)
pub fn tap_image(blocks: &[Vec<u8>]) -> Vec<u8> {
    let mut v = Vec::new();
    for b in blocks {
        v.push(b.len() as u8);
        v.push((b.len() >> 8) as u8);
        v.extend_from_slice(b);
    }
    v
}

/// A standard block: flag, payload, xor checksum
pub fn std_block(flag: u8, payload: &[u8]) -> Vec<u8> {
    let mut b = vec![flag];
    b.extend_from_slice(payload);
    let mut x = 0u8;
    for v in b.iter() {
        x ^= v;
    }
    b.push(x);
    b
}

#[derive(Clone, Copy, Debug, PartialEq, Eq)]
pub enum PulseKind {
    Pilot,
    Sync1,
    Sync2,
    Zero,
    One,
    Silence,
}

pub fn classify(d: u64) -> Option<PulseKind> {
    let within = |n: u64| d >= n && d <= n + TOL;
    if within(PILOT) {
        Some(PulseKind::Pilot)
    } else if within(SYNC1) {
        Some(PulseKind::Sync1)
    } else if within(SYNC2) {
        Some(PulseKind::Sync2)
    } else if within(ZERO) {
        Some(PulseKind::Zero)
    } else if within(ONE) {
        Some(PulseKind::One)
    } else if d >= PAUSE_MIN {
        Some(PulseKind::Silence)
    } else {
        None
    }
}

pub fn nominal(k: PulseKind) -> u64 {
    match k {
        PulseKind::Pilot => PILOT,
        PulseKind::Sync1 => SYNC1,
        PulseKind::Sync2 => SYNC2,
        PulseKind::Zero => ZERO,
        PulseKind::One => ONE,
        PulseKind::Silence => SECOND,
    }
}

#[derive(Debug, Clone, Default)]
pub struct Decoded {
    /// complete blocks (bytes) in order
    pub blocks: Vec<Vec<u8>>,
    /// per complete block: number of full pilot pulses seen before its sync
    pub pilot_counts: Vec<u64>,
    /// kind of every pulse in input order
    pub kinds: Vec<PulseKind>,
    /// trailing partial material (pilot pulses / bits not forming a complete block)
    pub partial_bits: usize,
    pub partial_pilot: u64,
}

/// Independent decoder of a pulse list (durations between consecutive edges). The last element
/// may be an open-ended silence. `strict` makes every non-standard pulse an error; otherwise a
/// non-standard pulse resets the decoder (like a real loader losing sync) and is counted.
pub fn decode(pulses: &[u64], strict: bool) -> Result<Decoded, String> {
    #[derive(PartialEq)]
    enum St {
        Idle,
        Pilot,
        S1,
        Data,
    }
    let mut out = Decoded::default();
    let mut st = St::Idle;
    let mut pilot = 0u64;
    let mut bits: Vec<u8> = Vec::new();
    let mut half: Option<PulseKind> = None;
    let finish_block = |out: &mut Decoded, bits: &mut Vec<u8>, pilot: u64| -> Result<(), String> {
        if bits.is_empty() {
            return Ok(());
        }
        if bits.len() % 8 != 0 {
            return Err(format!("block ends after {} bits (not a whole number of bytes)", bits.len()));
        }
        let bytes: Vec<u8> = bits.chunks(8).map(|c| c.iter().fold(0u8, |a, b| (a << 1) | b)).collect();
        out.blocks.push(bytes);
        out.pilot_counts.push(pilot);
        bits.clear();
        Ok(())
    };
    for (idx, d) in pulses.iter().enumerate() {
        let k = match classify(*d) {
            Some(k) => k,
            None => {
                if strict {
                    return Err(format!("pulse #{} of {} T is not a standard pulse", idx, d));
                }
                // lose sync
                out.partial_bits += bits.len();
                bits.clear();
                half = None;
                st = St::Idle;
                pilot = 0;
                out.kinds.push(PulseKind::Silence);
                continue;
            }
        };
        out.kinds.push(k);
        match st {
            St::Idle => match k {
                PulseKind::Pilot => {
                    st = St::Pilot;
                    pilot = 1;
                }
                PulseKind::Silence => {}
                _ => {
                    if strict {
                        return Err(format!("pulse #{} ({:?}, {} T) outside a block", idx, k, d));
                    }
                }
            },
            St::Pilot => match k {
                PulseKind::Pilot => pilot += 1,
                PulseKind::Sync1 => st = St::S1,
                PulseKind::Silence => {
                    if strict {
                        return Err(format!("silence inside pilot tone at pulse #{}", idx));
                    }
                    out.partial_pilot += pilot;
                    st = St::Idle;
                    pilot = 0;
                }
                _ => {
                    if strict {
                        return Err(format!("pulse #{} ({:?}) inside pilot tone", idx, k));
                    }
                    st = St::Idle;
                    pilot = 0;
                }
            },
            St::S1 => {
                if k == PulseKind::Sync2 {
                    st = St::Data;
                    bits.clear();
                    half = None;
                } else {
                    if strict {
                        return Err(format!("pulse #{} ({:?}) after first sync pulse", idx, k));
                    }
                    st = St::Idle;
                }
            }
            St::Data => match k {
                PulseKind::Zero | PulseKind::One => match half {
                    None => half = Some(k),
                    Some(h) => {
                        if h != k {
                            if strict {
                                return Err(format!("bit with unequal halves at pulse #{}", idx));
                            }
                            bits.clear();
                            st = St::Idle;
                        } else {
                            bits.push((k == PulseKind::One) as u8);
                        }
                        half = None;
                    }
                },
                PulseKind::Silence => {
                    if half.is_some() {
                        if strict {
                            return Err(format!("block ends in the middle of a bit at pulse #{}", idx));
                        }
                        bits.clear();
                    }
                    if let Err(e) = finish_block(&mut out, &mut bits, pilot) {
                        if strict {
                            return Err(e);
                        }
                        bits.clear();
                    }
                    st = St::Idle;
                    pilot = 0;
                    half = None;
                }
                PulseKind::Pilot => {
                    // a new pilot directly after data (no pause): end the block here
                    if strict {
                        return Err(format!("pilot pulse directly after data at pulse #{} (no pause)", idx));
                    }
                    let _ = finish_block(&mut out, &mut bits, pilot);
                    st = St::Pilot;
                    pilot = 1;
                    half = None;
                }
                _ => {
                    if strict {
                        return Err(format!("pulse #{} ({:?}) inside data", idx, k));
                    }
                    bits.clear();
                    st = St::Idle;
                }
            },
        }
    }
    // open end: data not closed by a silence is still a block if byte aligned (end of observation)
    if st == St::Data && half.is_none() && !bits.is_empty() {
        if bits.len() % 8 == 0 {
            let _ = finish_block(&mut out, &mut bits, pilot);
        } else {
            out.partial_bits += bits.len();
        }
    } else if st == St::Pilot {
        out.partial_pilot += pilot;
    }
    Ok(out)
}

/// Pilot-count rule of the property for a decoded block
pub fn pilot_ok(flag: u8, count: u64) -> bool {
    if flag == 0 {
        count == 8063 || count == 8062
    } else {
        count >= 3222
    }
}

pub type RTap = Tap<VAsset>;

pub fn new_tap(image: &AssetData) -> RTap {
    Tap::from_asset(VAsset::from_data(image.clone())).ok().expect("Tap::from_asset")
}

/// Complete key of a Tap (every field incl. asset position)
#[derive(Clone, Debug, PartialEq, Eq, Hash)]
pub struct TapKey {
    pub st: VerifTapState,
    pub asset_pos: usize,
}

pub fn tap_key(t: &RTap) -> TapKey {
    TapKey {
        st: t.verif_state(),
        asset_pos: t.verif_asset().pos,
    }
}

/// Key without `prev_state` (the only field `process_clocks` never reads) and with the part of
/// the 128-byte read buffer that can never be read again zeroed: `next_block_byte` only reads
/// `buffer[block_bytes_read - buffer_offset]` with `block_bytes_read < current_block_size`, and
/// `next_block` overwrites `buffer[0..min(size,128)]` before anything is read, so bytes at index
/// >= min(128, block_size - buffer_offset) (all of them when no block is current) are dead.
pub fn tap_key_noprev(t: &RTap) -> TapKey {
    let mut k = tap_key(t);
    k.st.prev_state = (0, 0, 0);
    let valid = match k.st.current_block_size {
        Some(sz) => sz.saturating_sub(k.st.buffer_offset).min(k.st.buffer.len()),
        None => 0,
    };
    for b in k.st.buffer[valid..].iter_mut() {
        *b = 0;
    }
    k
}

pub const TAG_STOP: u8 = 0;

/// One reload event of the real tape state machine: the call that found delay == 0 and ran the
/// state machine. All paths converge here (the overshoot is discarded), which the segment search
/// re-checks instead of assuming.
#[derive(Clone)]
pub struct Reload {
    /// Tap right after the reload call
    pub entry: RTap,
    /// did the EAR level change in that call
    pub flipped: bool,
    /// delay loaded (0 when the machine stopped)
    pub delay: usize,
    /// elapsed T (pre-pass, steps of 16) at the end of the reload call
    pub t: u64,
}

pub struct Chain {
    pub image: AssetData,
    pub reloads: Vec<Reload>,
    /// pulse durations between consecutive edges as seen by the pre-pass (steps of `step`)
    pub pulses: Vec<u64>,
    /// for each reload that flipped: index of the pulse it terminates (None for the first edge)
    pub ended: bool,
}

/// A tape whose asset never returns more than `chunk` bytes per read call (0 = unlimited)
pub fn new_tap_chunked(image: &AssetData, chunk: usize) -> Result<RTap, String> {
    Tap::from_asset(VAsset::from_data(image.clone()).chunked(chunk)).map_err(|e| format!("Tap::from_asset: {:?}", e))
}

/// Pre-pass over a fresh tape: play, then fixed steps until the deck stops by itself.
pub fn build_chain(image: &AssetData, step: usize, max_t: u64) -> Result<Chain, String> {
    build_chain_from(new_tap(image), image, step, max_t)
}

pub fn build_chain_from(mut tap: RTap, image: &AssetData, step: usize, max_t: u64) -> Result<Chain, String> {
    tap.play();
    let mut reloads = Vec::new();
    let mut pulses = Vec::new();
    let mut t: u64 = 0;
    let mut last_edge: Option<u64> = None;
    let mut ended = false;
    while t < max_t {
        let before = tap.verif_state();
        if before.state.0 == TAG_STOP {
            ended = true;
            break;
        }
        let bit_before = tap.current_bit();
        tap.process_clocks(step).map_err(|e| format!("process_clocks error {:?}", e))?;
        t += step as u64;
        if before.delay == 0 {
            let flipped = tap.current_bit() != bit_before;
            let after = tap.verif_state();
            if flipped {
                if let Some(le) = last_edge {
                    pulses.push(t - le);
                }
                last_edge = Some(t);
            }
            reloads.push(Reload {
                entry: tap.clone(),
                flipped,
                delay: after.delay,
                t,
            });
        }
    }
    if let Some(le) = last_edge {
        // open-ended trailing silence
        if t > le {
            pulses.push(t - le);
        }
    }
    Ok(Chain {
        image: image.clone(),
        reloads,
        pulses,
        ended,
    })
}

// ------------------------------------------------------------------ ideal waveform + LD-BYTES

/// Edge times (absolute T) of the ideal waveform of `blocks`, first edge at `start`.
/// Every block: pilot (8063 pulses for flag 00, else 3223) of 2168 T, sync 667 + 735, two equal
/// pulses per bit MSB first, then a pause of one second.
pub fn ideal_edges(blocks: &[Vec<u8>], start: u64) -> Vec<u64> {
    let mut t = start;
    let mut e = vec![t];
    for b in blocks {
        if b.is_empty() {
            continue;
        }
        let n = if b[0] == 0 { 8063 } else { 3223 };
        for _ in 0..n {
            t += PILOT;
            e.push(t);
        }
        t += SYNC1;
        e.push(t);
        t += SYNC2;
        e.push(t);
        for byte in b {
            for bit in (0..8).rev() {
                let d = if byte & (1 << bit) != 0 { ONE } else { ZERO };
                t += d;
                e.push(t);
                t += d;
                e.push(t);
            }
        }
        t += SECOND;
        e.push(t);
    }
    e
}

/// EAR level at time t for an edge list (level toggles at every edge, low before the first)
pub fn level_at(edges: &[u64], t: u64) -> bool {
    let n = edges.partition_point(|e| *e <= t);
    n % 2 == 1
}

#[derive(Clone, Debug, PartialEq, Eq)]
pub struct LdRequest {
    /// expected flag byte (A at entry)
    pub a: u8,
    /// carry at entry: true = LOAD, false = VERIFY
    pub load: bool,
    pub ix: u16,
    pub de: u16,
}

#[derive(Clone, Debug, PartialEq, Eq)]
pub struct LdResult {
    pub ix: u16,
    pub de: u16,
    pub carry: bool,
    /// RAM writes in order (ROM addresses are dropped by the caller's memory model)
    pub writes: Vec<(u16, u8)>,
}

/// RefLdBytes: the control flow of the ROM routine LD-BYTES (0556h) once leader and sync have been
/// found, transcribed from the ROM disassembly: every byte read is xor-ed into the parity; then, if
/// DE is 0, the routine ends with carry = (parity == 0); otherwise the byte is the flag to compare
/// (first byte only, unless D was FFh at entry, which makes the Z' flag skip the flag test), or is
/// stored (LOAD) / compared (VERIFY) at IX. Running out of tape gives carry reset.
pub fn ref_ld_bytes(block: &[u8], req: &LdRequest, mem: &dyn Fn(u16) -> u8) -> LdResult {
    let mut ix = req.ix;
    let mut de = req.de;
    let mut parity = 0u8;
    // INC D at entry: Z set iff D == FF -> flag test skipped
    let mut flag_done = (req.de >> 8) as u8 == 0xFF;
    let mut writes: Vec<(u16, u8)> = Vec::new();
    let read = |a: u16, writes: &Vec<(u16, u8)>| -> u8 {
        for (x, v) in writes.iter().rev() {
            if *x == a {
                return *v;
            }
        }
        mem(a)
    };
    for &byte in block {
        parity ^= byte;
        if de == 0 {
            return LdResult { ix, de, carry: parity == 0, writes };
        }
        if !flag_done {
            if req.a != byte {
                return LdResult { ix, de, carry: false, writes };
            }
            flag_done = true;
            continue;
        }
        if req.load {
            if ix >= 0x4000 {
                writes.push((ix, byte));
            }
        } else if read(ix, &writes) != byte {
            return LdResult { ix, de, carry: false, writes };
        }
        ix = ix.wrapping_add(1);
        de = de.wrapping_sub(1);
    }
    // tape ran out of bytes: edge time-out
    LdResult { ix, de, carry: false, writes }
}
