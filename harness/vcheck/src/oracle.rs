//! Reference-model validation stamp: RefZ80 must have passed zexall + z80test + z80bltst
//! (`refz80 validate all`) for the current refz80 sources before C01-C05/C10 are believed.

use serde_json::json;

const STAMP: &str = "/verif/harness/target/oracle.stamp";

fn src_hash() -> u64 {
    let mut h = 0xcbf29ce484222325u64;
    for f in ["lib.rs", "testbus.rs", "bin/validate.rs"] {
        let p = format!("/verif/harness/refz80/src/{}", f);
        let data = std::fs::read(&p).unwrap_or_default();
        h = crate::vcore::fnv_mix(h, crate::vcore::fnv(&data));
    }
    h
}

pub fn require_valid() -> Result<(), String> {
    let want = format!("{:016x}", src_hash());
    if let Ok(s) = std::fs::read_to_string(STAMP) {
        if s.lines().next() == Some(want.as_str()) {
            return Ok(());
        }
    }
    // run the validator (about 90 s) and stamp
    let out = std::process::Command::new("/verif/harness/target/release/validate")
        .arg("all")
        .output()
        .map_err(|e| format!("cannot run validate: {}", e))?;
    let text = String::from_utf8_lossy(&out.stdout).to_string();
    if !out.status.success() {
        return Err(format!("validate all failed:\n{}", text));
    }
    let summary: Vec<&str> = text.lines().filter(|l| l.starts_with("ORACLE")).collect();
    std::fs::write(STAMP, format!("{}\n{}\n", want, summary.join("\n"))).map_err(|e| e.to_string())?;
    Ok(())
}

pub fn status_json() -> serde_json::Value {
    match std::fs::read_to_string(STAMP) {
        Ok(s) => json!({"stamp": s.lines().next().unwrap_or(""), "suites": s.lines().skip(1).collect::<Vec<_>>()}),
        Err(_) => json!("no stamp"),
    }
}
