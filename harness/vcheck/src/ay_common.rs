//! Shared by C18 and C20: deterministic violation collection for parallel enumerations and
//! panic-message shaping.

use crate::vcore::Ctx;
use serde_json::Value;
use std::collections::BTreeMap;
use std::sync::Mutex;

pub type Order = (u64, u64, u64);

struct Entry {
    order: Order,
    what: String,
    case: Value,
    count: u64,
}

/// Collects failures from worker threads; per class key the case with the smallest `order`
/// (simplest-first, independent of thread scheduling) becomes the replay.
pub struct Collector {
    m: Mutex<BTreeMap<String, Entry>>,
}

impl Collector {
    pub fn new() -> Collector {
        Collector { m: Mutex::new(BTreeMap::new()) }
    }
    pub fn fail(&self, order: Order, key: &str, what: &str, case: impl FnOnce() -> Value) {
        let mut g = self.m.lock().unwrap();
        match g.get_mut(key) {
            Some(e) => {
                e.count += 1;
                if order < e.order {
                    e.order = order;
                    e.what = what.to_string();
                    e.case = case();
                }
            }
            None => {
                g.insert(key.to_string(), Entry { order, what: what.to_string(), case: case(), count: 1 });
            }
        }
    }
    pub fn flush(&self, ctx: &Ctx) {
        let g = self.m.lock().unwrap();
        for (k, e) in g.iter() {
            ctx.violation(k, &e.what, e.case.clone());
            for _ in 1..e.count.min(10_000) {
                ctx.violation(k, &e.what, Value::Null);
            }
        }
    }
}

/// Panic payload reduced to a code-independent shape: digits collapsed, blanks replaced, cut.
pub fn panic_shape(p: &Box<dyn std::any::Any + Send>) -> String {
    let s = if let Some(s) = p.downcast_ref::<&str>() {
        s.to_string()
    } else if let Some(s) = p.downcast_ref::<String>() {
        s.clone()
    } else {
        "non-string-payload".to_string()
    };
    let mut out = String::new();
    let mut last_hash = false;
    for c in s.chars().take(60) {
        if c.is_ascii_digit() {
            if !last_hash {
                out.push('#');
            }
            last_hash = true;
        } else {
            out.push(if c == ' ' { '_' } else { c });
            last_hash = false;
        }
    }
    out
}
