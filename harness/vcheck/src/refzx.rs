//! RefULA / RefSpectrum: frame timing, contention and the I/O contention patterns taken literally
//! from the property statements, as a `RefBus` for RefZ80.

use refz80::RefBus;

#[derive(Clone, Copy, Debug, PartialEq, Eq)]
pub struct UlaSpec {
    pub m128: bool,
    pub frame: u64,
    pub line: u64,
    /// T0 of the contention pattern (14335 / 14361)
    pub t0: u64,
    /// first picture pixel (14336 / 14362)
    pub first_pixel: u64,
}

pub const ULA48: UlaSpec = UlaSpec { m128: false, frame: 69888, line: 224, t0: 14335, first_pixel: 14336 };
pub const ULA128: UlaSpec = UlaSpec { m128: true, frame: 70908, line: 228, t0: 14361, first_pixel: 14362 };

pub fn spec(m128: bool) -> UlaSpec {
    if m128 {
        ULA128
    } else {
        ULA48
    }
}

impl UlaSpec {
    /// ULA delay for a contended access starting at in-frame time `t`
    pub fn delay(&self, t: u64) -> u64 {
        let t = t % self.frame;
        if t < self.t0 {
            return 0;
        }
        let rel = t - self.t0;
        let line = rel / self.line;
        if line >= 192 {
            return 0;
        }
        let x = rel % self.line;
        if x >= 128 {
            return 0;
        }
        [6, 5, 4, 3, 2, 1, 0, 0][(x % 8) as usize]
    }
    pub fn int_active(&self, t: u64) -> bool {
        t % self.frame < 32
    }
}

/// Which 16K windows are contended. 48K: window 1. 128K: window 1 (bank 5) and window 3 when an
/// odd bank is paged there.
#[derive(Clone, Copy, Debug)]
pub struct Contended {
    pub w: [bool; 4],
}

impl Contended {
    pub fn new(m128: bool, top_bank: u8) -> Contended {
        Contended {
            w: [false, true, false, m128 && (top_bank & 1 == 1)],
        }
    }
    #[inline]
    pub fn is(&self, addr: u16) -> bool {
        self.w[(addr >> 14) as usize]
    }
}

#[derive(Clone, Copy, Debug, PartialEq, Eq, Hash, PartialOrd, Ord)]
pub enum CycKind {
    FetchC,
    ReadC,
    WriteC,
    DelayC,
    IoEvenLowHi,
    IoOddLowHi,
    IoEvenContHi,
    IoOddContHi,
}

/// Reference machine bus: absolute time, contention, memory through closures.
pub struct RefMachine<'a> {
    pub spec: UlaSpec,
    pub cont: Contended,
    /// absolute T (frames * frame + in-frame)
    pub t: u64,
    pub read: &'a dyn Fn(u16) -> u8,
    pub io_in: &'a dyn Fn(u16, u64) -> u8,
    pub writes: Vec<(u16, u8)>,
    pub io_writes: Vec<(u16, u8, u64)>,
    pub kinds: Vec<CycKind>,
    pub int_enabled_lines: bool,
    pub rom_top: u16,
    /// owned 64K image (long runs); when present `read`/`writes` are not used
    pub mem64: Option<Vec<u8>>,
    pub int_accepted: u64,
}

impl<'a> RefMachine<'a> {
    pub fn new(spec: UlaSpec, cont: Contended, t: u64, read: &'a dyn Fn(u16) -> u8, io_in: &'a dyn Fn(u16, u64) -> u8) -> Self {
        RefMachine {
            spec,
            cont,
            t,
            read,
            io_in,
            writes: Vec::new(),
            io_writes: Vec::new(),
            kinds: Vec::new(),
            int_enabled_lines: true,
            rom_top: 0x4000,
            mem64: None,
            int_accepted: 0,
        }
    }
    #[inline]
    fn contend(&mut self) {
        self.t += self.spec.delay(self.t);
    }
    fn mem(&self, addr: u16) -> u8 {
        if let Some(m) = &self.mem64 {
            return m[addr as usize];
        }
        for (a, v) in self.writes.iter().rev() {
            if *a == addr {
                return *v;
            }
        }
        (self.read)(addr)
    }
    /// the four ULA I/O patterns
    fn io_timing(&mut self, port: u16) {
        let hi_c = self.cont.is(port);
        let even = port & 1 == 0;
        match (hi_c, even) {
            (false, true) => {
                // N:1, C:3
                self.t += 1;
                self.contend();
                self.t += 3;
                self.kinds.push(CycKind::IoEvenLowHi);
            }
            (false, false) => {
                self.t += 4;
                self.kinds.push(CycKind::IoOddLowHi);
            }
            (true, true) => {
                // C:1, C:3
                self.contend();
                self.t += 1;
                self.contend();
                self.t += 3;
                self.kinds.push(CycKind::IoEvenContHi);
            }
            (true, false) => {
                for _ in 0..4 {
                    self.contend();
                    self.t += 1;
                }
                self.kinds.push(CycKind::IoOddContHi);
            }
        }
    }
}

impl<'a> RefBus for RefMachine<'a> {
    fn m1(&mut self, addr: u16) -> u8 {
        if self.cont.is(addr) {
            self.contend();
            self.kinds.push(CycKind::FetchC);
        }
        self.t += 4;
        self.mem(addr)
    }
    fn mem_read(&mut self, addr: u16) -> u8 {
        if self.cont.is(addr) {
            self.contend();
            self.kinds.push(CycKind::ReadC);
        }
        self.t += 3;
        self.mem(addr)
    }
    fn mem_write(&mut self, addr: u16, val: u8) {
        if self.cont.is(addr) {
            self.contend();
            self.kinds.push(CycKind::WriteC);
        }
        self.t += 3;
        if addr >= self.rom_top {
            if let Some(m) = &mut self.mem64 {
                m[addr as usize] = val;
            } else {
                self.writes.push((addr, val));
            }
        }
    }
    fn delay(&mut self, addr: u16, n: u8) {
        for _ in 0..n {
            if self.cont.is(addr) {
                self.contend();
                if self.kinds.last() != Some(&CycKind::DelayC) {
                    self.kinds.push(CycKind::DelayC);
                }
            }
            self.t += 1;
        }
    }
    fn io_read(&mut self, port: u16) -> u8 {
        let t0 = self.t;
        self.io_timing(port);
        (self.io_in)(port, t0)
    }
    fn io_write(&mut self, port: u16, val: u8) {
        let t0 = self.t;
        self.io_timing(port);
        self.io_writes.push((port, val, t0));
    }
    fn int_ack(&mut self) -> u8 {
        0xFF
    }
    fn idle(&mut self, n: u8) {
        self.t += n as u64;
    }
    fn int_line(&mut self) -> bool {
        self.int_enabled_lines && self.spec.int_active(self.t)
    }
    fn nmi_line(&mut self) -> bool {
        false
    }
}
