//! C09 — border pixels show the colour written to the ULA before the beam got there.
//! E-PROD over write times: one OUT (FE) by the emulated CPU at every T of the frame, all ordered
//! pairs of OUTs within a line at three line positions, writes around the frame wrap, no write at
//! all, snapshot border; the completed 320x240 border buffer against RefULA's beam model.

use crate::formats::*;
use crate::refzx::*;
use crate::rig::{self, Emu, Opts, RegsView, VAsset};
use crate::vcore::{par_for_with, Ctx, Tier};
use rustzx_core::host::Snapshot;
use serde_json::json;

const IDLE: u16 = 0x9000;
const OUTC: u16 = 0x9100;
const W: usize = 320;
const H: usize = 240;

fn machine(m128: bool) -> Emu {
    let mut o = Opts::machine(m128);
    o.sound = false;
    let mut e = rig::emu_stepping(&o);
    rig::poke(&mut e, IDLE, &[0xF3, 0x18, 0xFE]);
    rig::poke(&mut e, OUTC, &[0xED, 0x79, 0xC3, IDLE as u8, (IDLE >> 8) as u8]);
    let mut r = RegsView::default();
    r.pc = IDLE;
    r.sp = 0xBF00;
    rig::set_regs(e.verif_cpu(), &r);
    e
}

/// beam time of border-buffer pixel (x,y): two pixels per T, canvas (0,0) = buffer (32,24) at first_pixel
fn pixel_t2(sp: &UlaSpec, x: usize, y: usize) -> i64 {
    // in half T-states to stay integral
    2 * (sp.first_pixel as i64 + (y as i64 - 24) * sp.line as i64) + (x as i64 - 32)
}

fn is_border(x: usize, y: usize) -> bool {
    !(x >= 32 && x < 288 && y >= 24 && y < 216)
}

/// OUT (C),A at in-frame time `t` (instruction start). Returns (w0, w1): extent of the I/O cycle.
fn out_at(e: &mut Emu, t: usize, colour: u8) -> (i64, i64) {
    out_port_at(e, t, colour, 0x00FE)
}

/// even ports = ULA ports; the high byte stays in uncontended memory so timing is the same
const ULA_PORTS: [u16; 6] = [0x00FE, 0xFEFE, 0x00FC, 0x80FA, 0xBF00, 0x9CF6];

fn out_port_at(e: &mut Emu, t: usize, colour: u8, port: u16) -> (i64, i64) {
    e.verif_set_frame_clocks(t);
    let mut r = RegsView::default();
    r.pc = OUTC;
    r.sp = 0xBF00;
    r.bc = port;
    r.af = (colour as u16) << 8;
    rig::set_regs(e.verif_cpu(), &r);
    let f0 = e.verif_total_frames();
    rig::step(e);
    let end = e.verif_frame_clocks() as i64 + if e.verif_total_frames() > f0 { 1_000_000 } else { 0 };
    // two 4-T fetches (uncontended code at 9100h), then the port cycle until the instruction ends
    (t as i64 + 8, end)
}

fn run_to_frame_end(e: &mut Emu, m128: bool) {
    let sp = spec(m128);
    let f = e.verif_total_frames();
    if (e.verif_frame_clocks() as u64) < sp.frame - 60 {
        e.verif_set_frame_clocks((sp.frame - 40) as usize);
    }
    let mut guard = 0;
    while e.verif_total_frames() == f {
        rig::step(e);
        guard += 1;
        if guard > 100_000 {
            eprintln!("MACHINERY: frame never ends");
            std::process::exit(2);
        }
    }
}

/// establish `colour` as the border colour of a complete, write-free frame; ends right after a wrap
fn settle(e: &mut Emu, m128: bool, colour: u8) {
    run_to_frame_end(e, m128);
    out_at(e, 100, colour);
    let mut r = RegsView::default();
    r.pc = IDLE;
    r.sp = 0xBF00;
    rig::set_regs(e.verif_cpu(), &r);
    run_to_frame_end(e, m128);
    run_to_frame_end(e, m128);
}

/// Compare the completed border buffer with the beam model. `writes`: (w0, w1, colour) in frame order.
fn compare(ctx: &Ctx, e: &Emu, m128: bool, initial: u8, writes: &[(i64, i64, u8)], case: serde_json::Value, family: &str) -> u64 {
    let sp = spec(m128);
    let b = rig::border(e);
    let mut judged = 0u64;
    for y in 0..H {
        for x in 0..W {
            if !is_border(x, y) {
                continue;
            }
            let t2 = pixel_t2(&sp, x, y);
            let mut expect = initial;
            let mut unjudged = false;
            for (w0, w1, c) in writes {
                if t2 > 2 * (*w1 + 8) {
                    expect = *c;
                } else if t2 >= 2 * (*w0 - 8) {
                    unjudged = true;
                    break;
                }
            }
            if unjudged {
                continue;
            }
            judged += 1;
            let got = b.pix[y * W + x] & 7;
            if got != expect {
                ctx.violation(
                    &format!("C09:{}:{}", family, if m128 { "128k" } else { "48k" }),
                    &format!(
                        "{} machine, {}: border pixel ({},{}) (beam time T={}) shows colour {}, the colour last written before the beam got there is {} (writes: {:?}, initial {})",
                        if m128 { "128K" } else { "48K" }, family, x, y, t2 / 2, got, expect, writes, initial
                    ),
                    case,
                );
                return judged;
            }
        }
    }
    judged
}

fn single_writes(ctx: &Ctx, m128: bool, ts: &[usize]) {
    let chunks = 64usize;
    par_for_with(
        chunks,
        1,
        || machine(m128),
        |e, c| {
            let lo = c * ts.len() / chunks;
            let hi = (c + 1) * ts.len() / chunks;
            let mut colour = 1u8;
            settle(e, m128, colour);
            for &t in &ts[lo..hi] {
                let old = colour;
                colour = (colour % 7) + 1;
                // we are right after a wrap (idle loop, a few T into the frame)
                let start = e.verif_frame_clocks();
                if t < start + 1 {
                    // the write would be before "now": take it in the following frame position anyway
                }
                let port = ULA_PORTS[(t / 3) % ULA_PORTS.len()];
                let (w0, w1) = out_port_at(e, t.max(start), colour, port);
                if m128 && e.verif_paging().0 != 0 {
                    // an even port with A15=0 and A1=0 also reaches the paging latch on the 128K: undo
                    rig::cpu_out(e, OUTC + 8, 0x7FFD, 0);
                    let mut r = RegsView::default();
                    r.pc = IDLE;
                    r.sp = 0xBF00;
                    rig::set_regs(e.verif_cpu(), &r);
                }
                let wrapped = w1 >= 1_000_000;
                let reported: u8 = e.border_color().into();
                if reported != colour {
                    ctx.violation(
                        &format!("C09:border_color-report:{}", if port == 0x00FE { "port-FE" } else { "other-even-port" }),
                        &format!("{} machine: border_color() reports {} after OUT to the even port {:04x} with value {}", if m128 { "128K" } else { "48K" }, reported, port, colour),
                        json!({"kind":"single","m128":m128,"t":t}),
                    );
                }
                if wrapped {
                    // the write landed in the next frame: the frame just completed has no write
                    compare(ctx, e, m128, old, &[], json!({"kind":"single","m128":m128,"t":t}), "single-write-at-wrap");
                    run_to_frame_end(e, m128);
                    compare(ctx, e, m128, old, &[(w1 - 1_000_000 - 4, w1 - 1_000_000, colour)], json!({"kind":"single","m128":m128,"t":t}), "single-write-at-wrap");
                } else {
                    run_to_frame_end(e, m128);
                    let j = compare(ctx, e, m128, old, &[(w0, w1, colour)], json!({"kind":"single","m128":m128,"t":t}), "single-write");
                    ctx.outcome(j ^ ((colour as u64) << 32));
                }
                // a write-free frame now shows the new colour everywhere
                run_to_frame_end(e, m128);
                compare(ctx, e, m128, colour, &[], json!({"kind":"single","m128":m128,"t":t}), "frame-without-write");
                ctx.add_eval(1);
            }
        },
    );
}

fn pair_writes(ctx: &Ctx, m128: bool, step: usize) {
    let sp = spec(m128);
    let line = sp.line as usize;
    // three line positions: top border, picture line, bottom border; lines start at the left edge of the buffer
    let bases: Vec<usize> = [10usize, 120, 230].iter().map(|y| (sp.first_pixel as usize + (*y) * line) - 24 * line - 16).collect();
    let mut jobs: Vec<(usize, usize, usize)> = Vec::new();
    for b in bases.iter() {
        let mut t1 = 0;
        while t1 < line {
            let mut t2 = t1 + 12;
            while t2 < line + 24 {
                jobs.push((*b, t1, t2));
                t2 += step;
            }
            t1 += step;
        }
    }
    let n = jobs.len();
    let chunks = 64usize.min(n.max(1));
    par_for_with(
        chunks,
        1,
        || machine(m128),
        |e, c| {
            settle(e, m128, 7);
            for k in (c * n / chunks)..((c + 1) * n / chunks) {
                let (b, t1, t2) = jobs[k];
                let (a0, a1) = out_at(e, b + t1, 2);
                // the second OUT cannot start before the first instruction has ended
                let second = (b + t2).max(e.verif_frame_clocks());
                let (b0, b1) = out_at(e, second, 5);
                run_to_frame_end(e, m128);
                let j = compare(ctx, e, m128, 7, &[(a0, a1, 2), (b0, b1, 5)], json!({"kind":"pair","m128":m128,"base":b,"t1":t1,"t2":t2}), "two-writes-in-a-line");
                ctx.outcome(j ^ 0x5151);
                ctx.add_eval(1);
                // back to white for the next case
                out_at(e, 200, 7);
                run_to_frame_end(e, m128);
                run_to_frame_end(e, m128);
            }
        },
    );
}

/// Two consecutive frames with two writes each, colours drawn from {2,5} with repetition, at four
/// places of the frame: a write that repeats the active colour must still leave a correct frame
/// even when the previous frame changed colour half-way down.
fn two_frame_histories(ctx: &Ctx, m128: bool) {
    let sp = spec(m128);
    let line = sp.line as usize;
    let top = sp.first_pixel as usize - 24 * line - 16;
    // the last two places lie behind the visible area (bottom retrace): writes there show only in
    // the following frames
    let frame = sp.frame as usize;
    let places = [120usize, top + 60 * line + 40, top + 218 * line + 10, top + 230 * line + 30, frame - 2 * line - 7, frame - line + 50];
    let pairs = [(0usize, 1usize), (0, 2), (0, 3), (1, 2), (1, 3), (2, 3), (4, 5), (3, 4), (0, 5)];
    let mut jobs = Vec::new();
    for c in 0..16u32 {
        for (i1, i2) in pairs {
            for (j1, j2) in pairs {
                jobs.push((c, i1, i2, j1, j2));
            }
        }
    }
    let n = jobs.len();
    let chunks = 32usize;
    par_for_with(
        chunks,
        1,
        || machine(m128),
        |e, ch| {
            for k in (ch * n / chunks)..((ch + 1) * n / chunks) {
                let (c, i1, i2, j1, j2) = jobs[k];
                let col = |b: u32| if c & (1 << b) != 0 { 5u8 } else { 2u8 };
                // MIC/EAR bits vary so that a repeated colour is still a different port value
                settle(e, m128, 7);
                let (a0, a1) = out_port_at(e, places[i1], col(0), 0x00FE);
                let (b0, b1) = out_port_at(e, places[i2].max(e.verif_frame_clocks()), col(1) | 0x08, 0x00FE);
                run_to_frame_end(e, m128);
                let case = json!({"kind":"two-frame","m128":m128,"colours":c,"places":[i1,i2,j1,j2]});
                compare(ctx, e, m128, 7, &[(a0, a1, col(0)), (b0, b1, col(1))], case.clone(), "two-frame-history:first-frame");
                let (c0, c1) = out_port_at(e, places[j1].max(e.verif_frame_clocks()), col(2) | 0x10, 0x00FE);
                let (d0, d1) = out_port_at(e, places[j2].max(e.verif_frame_clocks()), col(3) | 0x08, 0x00FE);
                run_to_frame_end(e, m128);
                let jd = compare(ctx, e, m128, col(1), &[(c0, c1, col(2)), (d0, d1, col(3))], case.clone(), "two-frame-history:second-frame");
                run_to_frame_end(e, m128);
                compare(ctx, e, m128, col(3), &[], case, "two-frame-history:following-idle-frame");
                ctx.add_eval(1);
                ctx.outcome(jd ^ ((c as u64) << 40));
            }
        },
    );
}

/// The host asks for n frames per call (n = 1..4, the way a front end runs at double speed): the
/// frame delivered after each call is the last one emulated, painted from the writes of that frame
/// alone on top of the colour in effect when it began. An interrupt-driven program writes a scripted
/// colour at a scripted time in each frame; a single-stepped twin machine records the exact I/O cycles.
fn frames_per_call(ctx: &Ctx) {
    let script: [(u8, u8); 8] = [(8, 6), (0, 1), (8, 2), (0xFF, 0xFF), (3, 4), (15, 5), (16, 3), (0xFF, 0xFF)];
    let install = |e: &mut Emu| {
        rig::poke(e, 0x9000, &[0xFB, 0x76, 0x18, 0xFC]);
        rig::poke(
            e,
            0x9200,
            &[
                0xF5, 0xC5, 0xE5, 0x21, 0x00, 0x93, 0x34, 0x7E, 0xE6, 0x07, 0x87, 0xC6, 0x10, 0x6F, 0x46, 0x23, 0x04, 0x18, 0x05, 0x0E, 0x00, 0x0D, 0x20, 0xFD, 0x10, 0xF9, 0x7E, 0xFE, 0xFF, 0x28, 0x02, 0xD3, 0xFE, 0xE1, 0xC1, 0xF1,
                0xFB, 0xC9,
            ],
        );
        rig::poke(e, 0x9300, &[0]);
        let table: Vec<u8> = script.iter().flat_map(|(d, c)| [if *d == 0xFF { 0 } else { *d }, *c]).collect();
        rig::poke(e, 0x9310, &table);
        rig::poke(e, 0xFEFF, &[0x00, 0x92]);
        let mut r = RegsView::default();
        r.pc = 0x9000;
        r.sp = 0xBF00;
        r.i = 0xFE;
        r.im = 2;
        r.iff1 = true;
        r.iff2 = true;
        rig::set_regs(e.verif_cpu(), &r);
    };
    for m128 in [false, true] {
        let total = 17u64;
        // twin: single-stepped, records (frame index, cycle start, cycle end, colour) of every OUT
        let mut o = Opts::machine(m128);
        o.sound = false;
        let mut twin = rig::emu_stepping(&o);
        install(&mut twin);
        let mut writes: Vec<(u64, i64, i64, u8)> = Vec::new();
        let mut guard = 0u64;
        while twin.verif_total_frames() < total && guard < 3_000_000 {
            guard += 1;
            if twin.verif_cpu().regs.get_pc() == 0x921F {
                let f = twin.verif_total_frames();
                let t = twin.verif_frame_clocks() as i64;
                let c = twin.verif_cpu().regs.get_acc() & 7;
                rig::step(&mut twin);
                writes.push((f, t + 7, twin.verif_frame_clocks() as i64, c));
            } else {
                rig::step(&mut twin);
            }
        }
        if writes.len() < 8 {
            eprintln!("MACHINERY: the scripted border program wrote only {} times", writes.len());
            std::process::exit(2);
        }
        for n in 1..=4usize {
            let mut o = Opts::machine(m128);
            o.sound = false;
            o.mode = rustzx_core::EmulationMode::FrameCount(n);
            let mut e = rig::emu(&o);
            install(&mut e);
            loop {
                let _ = e.emulate_frames(std::time::Duration::from_secs(1000));
                let done = e.verif_total_frames();
                if done >= total {
                    break;
                }
                if done < 2 {
                    continue;
                }
                // the delivered frame is frame index done-1 (0-based): writes of that frame over the colour before it
                let f = done - 1;
                let initial = writes.iter().filter(|w| w.0 < f).last().map(|w| w.3);
                let initial = match initial {
                    Some(c) => c,
                    None => continue,
                };
                let in_frame: Vec<(i64, i64, u8)> = writes.iter().filter(|w| w.0 == f).map(|w| (w.1, w.2, w.3)).collect();
                ctx.add_eval(1);
                let case = json!({"kind":"frames-per-call","m128":m128,"frames_per_call":n,"frame":f});
                let jd = compare(ctx, &e, m128, initial, &in_frame, case.clone(), &format!("frames-per-call:{}", if n == 1 { "one".to_string() } else { "several".to_string() }));
                let last = writes.iter().filter(|w| w.0 <= f).last().map(|w| w.3).unwrap_or(initial);
                if e.border_color() as u8 != last {
                    ctx.violation(
                        &format!("C09:frames-per-call:reported-colour:{}", if m128 { "128k" } else { "48k" }),
                        &format!("{} frames per call, after frame {}: border_color() reports {} but the last write was {}", n, f, e.border_color() as u8, last),
                        case,
                    );
                }
                ctx.outcome(jd ^ ((n as u64) << 32) ^ (f << 40));
            }
        }
    }
}

/// The very first ULA write of a freshly created machine, for each of the 8 colours (a cached
/// "current colour" must not swallow a write that happens to equal its initial value): the next
/// complete frame is all that colour and border_color() reports it.
fn first_write_on_fresh_machine(ctx: &Ctx) {
    for m128 in [false, true] {
        for colour in 0..8u8 {
            let mut e = machine(m128);
            let (w0, w1) = out_port_at(&mut e, 300, colour, 0x00FE);
            let mut r = RegsView::default();
            r.pc = IDLE;
            r.sp = 0xBF00;
            rig::set_regs(e.verif_cpu(), &r);
            run_to_frame_end(&mut e, m128);
            let _ = (w0, w1);
            run_to_frame_end(&mut e, m128);
            ctx.add_eval(1);
            let case = json!({"kind":"fresh-first-write","m128":m128,"colour":colour});
            let got: u8 = e.border_color().into();
            if got != colour {
                ctx.violation("C09:fresh-first-write:border_color", &format!("first ULA write of a fresh machine with colour {}: border_color() reports {}", colour, got), case);
                continue;
            }
            compare(ctx, &e, m128, colour, &[], case, "fresh-first-write");
        }
    }
}

fn snapshot_border(ctx: &Ctx) {
    for m128 in [false, true] {
        for b in 0..8u8 {
            let mut s = MState::new(m128, 1);
            s.border = b;
            s.port_fe = b;
            s.regs.pc = IDLE;
            s.regs.iff1 = false;
            s.regs.iff2 = false;
            s.banks[2][0x1000..0x1003].copy_from_slice(&[0xF3, 0x18, 0xFE]);
            for (name, snap) in [("sna", Snapshot::Sna(VAsset::new(if m128 { sna128(&s) } else { sna48(&s) }))), ("szx", Snapshot::Szx(VAsset::new(szx(&s, &SzxOpts::default()))))] {
                let mut e = machine(m128);
                settle(&mut e, m128, (b + 3) % 8);
                if e.load_snapshot(snap).is_err() {
                    continue;
                }
                ctx.add_eval(1);
                let got: u8 = e.border_color().into();
                if got != b {
                    ctx.violation(
                        &format!("C09:snapshot-border:{}:border_color", name),
                        &format!("{} snapshot with border {} loaded: border_color() reports {}", name, b, got),
                        json!({"kind":"snapshot","m128":m128,"border":b}),
                    );
                    continue;
                }
                // (SZX also replays the last port FE value; this case uses the same colour for both)
                run_to_frame_end(&mut e, m128);
                run_to_frame_end(&mut e, m128);
                compare(ctx, &e, m128, b, &[], json!({"kind":"snapshot","m128":m128,"border":b,"format":name}), &format!("snapshot-border:{}", name));
                // the restored program writes the very byte the previous program had written last
                let prev = (b + 3) % 8;
                rig::poke(&mut e, IDLE, &[0xF3, 0x18, 0xFE]);
                rig::poke(&mut e, OUTC, &[0xED, 0x79, 0xC3, IDLE as u8, (IDLE >> 8) as u8]);
                out_at(&mut e, 100, prev);
                let mut r = RegsView::default();
                r.pc = IDLE;
                r.sp = 0xBF00;
                rig::set_regs(e.verif_cpu(), &r);
                run_to_frame_end(&mut e, m128);
                run_to_frame_end(&mut e, m128);
                let got: u8 = e.border_color().into();
                ctx.add_eval(1);
                if got != prev {
                    ctx.violation(
                        &format!("C09:snapshot-border:{}:write-after-load", name),
                        &format!("{} snapshot with border {} loaded over a program that had last written {}, then the restored program writes {} again: border_color() reports {}", name, b, prev, prev, got),
                        json!({"kind":"snapshot","m128":m128,"border":b,"format":name}),
                    );
                    continue;
                }
                compare(ctx, &e, m128, prev, &[], json!({"kind":"snapshot","m128":m128,"border":b,"format":name}), &format!("snapshot-border:{}:write-after-load", name));
            }
        }
    }
}

fn tset(sp: &UlaSpec, quick: bool) -> Vec<usize> {
    if !quick {
        return (8..sp.frame as usize - 8).collect();
    }
    let line = sp.line as usize;
    let top = sp.first_pixel as usize - 24 * line - 16;
    let mut v: Vec<usize> = Vec::new();
    v.extend(8..72);
    for y in [0usize, 24, 120, 215, 239] {
        v.extend((top + y * line - 16)..(top + y * line + line + 8));
    }
    v.extend((sp.frame as usize - 72)..(sp.frame as usize - 8));
    v.sort();
    v.dedup();
    v
}

pub fn run(tier: Tier, seed: u64, replay: Option<String>) -> i32 {
    let ctx = Ctx::new("C09", tier, seed, "exploration");
    let quick = !tier.is_thorough();
    if let Some(path) = replay {
        let v: serde_json::Value = serde_json::from_slice(&rig::read_file(&path)).expect("replay json");
        let c = &v["case"];
        let m128 = c["m128"].as_bool().unwrap_or(false);
        match c["kind"].as_str().unwrap_or("") {
            "single" => single_writes(&ctx, m128, &[c["t"].as_u64().unwrap() as usize]),
            "pair" => pair_writes(&ctx, m128, 8),
            "two-frame" => two_frame_histories(&ctx, m128),
            "fresh-first-write" => first_write_on_fresh_machine(&ctx),
            "frames-per-call" => frames_per_call(&ctx),
            _ => snapshot_border(&ctx),
        }
        let n = ctx.violation_classes();
        println!("replay: {} violation class(es) reproduced", n);
        return (n > 0) as i32;
    }
    for m128 in [false, true] {
        let ts = tset(&spec(m128), quick);
        ctx.note(if m128 { "write_times_128k" } else { "write_times_48k" }, json!(ts.len()));
        single_writes(&ctx, m128, &ts);
        pair_writes(&ctx, m128, if quick { 12 } else { 3 });
        two_frame_histories(&ctx, m128);
    }
    snapshot_border(&ctx);
    first_write_on_fresh_machine(&ctx);
    frames_per_call(&ctx);
    ctx.sample(json!({"write":"OUT (FE),2 with the I/O cycle at T=20000..20004","judged":"every border pixel whose beam time is more than 8 T away from the cycle"}));
    ctx.note("not_judged", json!("pixels within 16 pixels (8 T) of the I/O cycle of a write; the canvas area of the border buffer"));
    ctx.finish(
        "one OUT (C),A to an even port (rotating over six even port addresses incl. ones that also select the 128K paging latch) executed by the emulated CPU with its start at every T of the frame (quick: complete first-visible, first-picture, middle, last-picture and last-visible lines plus both ends of the frame), every ordered pair of OUTs inside one line at three line positions (step 3 T thorough / 12 T quick), a write-free frame after every case, two-frame histories of two writes each with repeated colours at four places of the frame (576 per machine), writes straddling the frame wrap, SNA/SZX snapshot borders for all 8 colours, each followed by the restored program writing again the byte the previous program had written last; an interrupt-driven program writing a scripted colour at a scripted time of every frame, run with 1..4 frames per emulate_frames call (the delivered frame judged with the I/O cycles recorded on a single-stepped twin); the completed 320x240 border buffer is compared with the beam model (pixel (x,y) at T = first_pixel + (y-24)*line + (x-32)/2) outside an 8-T band around each I/O cycle; border_color() after every write. distinct = (judged pixel count, colour) outcomes",
        false,
        &["frame clock placed through the hook; the remaining frame is idle loop", "I/O cycle extent = from 8 T after the OUT starts to the end of the instruction"],
    )
}
