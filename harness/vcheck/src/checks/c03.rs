//! C03 — each instruction takes the documented T-states in the documented bus cycles.
//! Same lock-step product engine as C01, comparing the complete call-granular bus-cycle list
//! (fetch-4 / read-3 / write-3 with addresses, every single delay T-state with its address, port
//! cycles), plus interrupt entry in IM 0/1/2 and NMI.

use crate::rig;
use crate::vcore::{par_for, Ctx, Tier};
use crate::z80lock::*;
use crate::z80prod::*;
use serde_json::json;

/// Interrupt entry: total T, stack writes and vector reads (the order of the acknowledge cycle
/// and the stack writes inside the entry is not judged)
fn interrupt_entry(ctx: &Ctx) {
    let encs = all_encodings();
    // the instruction executed right after the entry is NOP at the vector; the interrupted
    // program is any encoding (its first byte is never fetched)
    par_for(encs.len(), 16, |k| {
        let (kind, op) = encs[k];
        for which in 0..2u8 {
            for im in 0..3u8 {
                // lines: INT alone, NMI alone, both at once (the NMI is served, once)
                for (nmi, both) in [(false, false), (true, false), (true, true)] {
                    for halted in [false, true] {
                        let mut c = match base_case(kind, op, which, 0x8000) {
                            Some(c) => c,
                            None => return,
                        };
                        c.st.im = im;
                        c.st.iff1 = true;
                        c.st.iff2 = true;
                        c.st.int_inhibit = false;
                        c.st.halted = halted;
                        if halted {
                            c.code[0] = 0x76;
                            c.code_len = 1;
                        }
                        c.env.int_line = !nmi || both;
                        c.env.nmi_line = nmi;
                        c.env.ack_byte = if which == 0 { 0xFF } else { 0x12 };
                        c.finalize();
                        // handler's first instruction: NOP at 0038 / 0066 / vector target
                        c.env.preset_byte(0x0038, 0x00);
                        c.env.preset_byte(0x0066, 0x00);
                        let r = run_ref(&c);
                        let i = match run_impl(&c) {
                            Ok(i) => i,
                            Err(p) => {
                                ctx.violation("C03:int-entry:panic", &p, case_json(kind, op, &c));
                                continue;
                            }
                        };
                        ctx.add_eval(1);
                        // entry portion = events before the first M1
                        let split = |l: &[Ev]| -> (Vec<Ev>, Vec<Ev>) {
                            let p = l.iter().position(|e| matches!(e, Ev::M1(..))).unwrap_or(l.len());
                            (l[..p].to_vec(), l[p..].to_vec())
                        };
                        let (ie, irest) = split(i.log.slice());
                        let (re, rrest) = split(r.log.slice());
                        let t = |l: &[Ev]| -> u32 {
                            let mut g = Log::new();
                            for e in l {
                                g.push(*e);
                            }
                            g.t_states()
                        };
                        let data = |l: &[Ev]| -> Vec<Ev> {
                            let mut v: Vec<Ev> = l.iter().filter(|e| matches!(e, Ev::Rd(..) | Ev::Wr(..))).cloned().collect();
                            v.sort_by_key(|e| match e {
                                Ev::Rd(a, _) => (0, *a),
                                Ev::Wr(a, _) => (1, *a),
                                _ => (2, 0),
                            });
                            v
                        };
                        let mode = if nmi && both { "nmi+int".to_string() } else if nmi { "nmi".to_string() } else { format!("im{}", im) };
                        if t(&ie) != t(&re) {
                            ctx.violation(
                                &format!("C03:int-entry:{}:t-states", mode),
                                &format!("interrupt entry ({}{}) takes {} T, documented {} T: impl [{}] documented [{}]", mode, if halted { ", from HALT" } else { "" }, t(&ie), t(&re), fmt_log(&ie), fmt_log(&re)),
                                case_json(kind, op, &c),
                            );
                        } else if data(&ie) != data(&re) {
                            ctx.violation(
                                &format!("C03:int-entry:{}:accesses", mode),
                                &format!("interrupt entry ({}) memory accesses differ: impl [{}] documented [{}]", mode, fmt_log(&ie), fmt_log(&re)),
                                case_json(kind, op, &c),
                            );
                        } else if irest != rrest {
                            ctx.violation(
                                &format!("C03:int-entry:{}:first-handler-instruction", mode),
                                &format!("after interrupt entry: impl [{}] documented [{}]", fmt_log(&irest), fmt_log(&rrest)),
                                case_json(kind, op, &c),
                            );
                        }
                        ctx.outcome(crate::vcore::fnv(format!("{}{}{}", mode, halted, t(&re)).as_bytes()));
                    }
                }
            }
        }
    });
}

/// A halted CPU with no interrupt pending: every step is one 4-T opcode fetch at the HALT's address
/// (a real M1 cycle: it refreshes, and on the Spectrum it is contended like any fetch).
fn halted_steps(ctx: &Ctx) {
    for which in 0..2u8 {
        for pc in [0x8000u16, 0x3FFF, 0xFFFF, 0x0000] {
            for (iff1, int_line) in [(false, false), (false, true), (true, false)] {
                let mut c = match base_case(0, 0x76, which, pc) {
                    Some(c) => c,
                    None => return,
                };
                c.st.halted = true;
                c.st.iff1 = iff1;
                c.st.iff2 = iff1;
                c.env.int_line = int_line;
                c.code[0] = 0x76;
                c.code_len = 1;
                c.finalize();
                compare_case(ctx, Mode::Cycles, 0, 0x76, &c, false);
                ctx.add_eval(1);
            }
        }
    }
}

pub fn run(tier: Tier, seed: u64, replay: Option<String>) -> i32 {
    let ctx = Ctx::new("C03", tier, seed, "model_checking");
    if let Some(path) = replay {
        let v: serde_json::Value = serde_json::from_slice(&rig::read_file(&path)).expect("replay json");
        if let Some((kind, op, c)) = case_from_json(&v["case"]) {
            println!("replay: encoding {} {:02x}, state {:x?}, int={} nmi={}", kind_name(kind), op, c.st, c.env.int_line, c.env.nmi_line);
            compare_case(&ctx, Mode::Cycles, kind, op, &c, true);
        }
        let n = ctx.violation_classes();
        println!("replay: {} violation class(es) reproduced", n);
        return (n > 0) as i32;
    }
    if let Err(e) = crate::oracle::require_valid() {
        eprintln!("MACHINERY: reference model not validated: {}", e);
        return 2;
    }
    if tier.is_thorough() {
        run_product(&ctx, Mode::Cycles, &[0x8000, 0xFFFE, 0x3FFF], 1 << 17, false, seed);
    } else {
        run_product(&ctx, Mode::Cycles, &[0x8000], 2048, false, seed);
    }
    interrupt_entry(&ctx);
    halted_steps(&ctx);
    ctx.note("oracle_validation", crate::oracle::status_json());
    ctx.note("cycle_table_validation", json!("RefZ80 unit table: 121 instruction variants against the Zilog totals, interrupt entry 13/19/11, bus-event order of 20 instructions (cargo test -p refz80)"));
    ctx.finish(
        "for each of the 1786 encodings, the product of the domains of every atom the reference bus-cycle list or result depends on (flags for conditional forms, B, BC, A==(HL) for repeats, operands, all address registers), two backgrounds with pairwise distinct recognisable register values, executed on Z80::emulate with a call-logging bus and on RefZ80; compared: the ordered list of (fetch-4 | read-3 | write-3 | single delay T with its address | port cycle | idle) calls; interrupt entry in IM0/1/2 and NMI, running and halted, after every encoding (total T and accesses; internal order not judged); the steps of a halted CPU without a pending interrupt (a 4-T fetch at the HALT's address). distinct = distinct reference cycle lists",
        true,
        &["documented cycle lists are RefZ80's (FUSE/Zilog breakdowns), totals unit-tested against the Zilog manual", "the 4-T length of port cycles at machine level is checked in C04"],
    )
}
