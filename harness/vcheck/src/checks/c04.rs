//! C04 — ULA memory and I/O contention delays match the 48K/128K contention model.
//!
//! E-PROD on the real controller: every encoding x every timing variant x every placement of its
//! address roles in contended/uncontended memory x both machines x every start T-state of the
//! frame (quick: complete windows), single-stepped on the real Emulator (teleported frame clock)
//! and on RefZ80 + RefULA; oracle: elapsed T-states are equal. A second layer puts each bus-cycle
//! kind at 0xC000 under all eight 128K banks.

use crate::refzx::*;
use crate::rig::{self, Emu, Opts, RegsView};
use crate::vcore::{par_for_with, Ctx, Tier};
use crate::z80prod::{all_encodings, encoding_bytes, kind_name};
use refz80::{RefZ80, StepKind};
use serde_json::json;
use std::collections::BTreeSet;

#[derive(Clone, Copy, Debug, PartialEq, Eq)]
pub struct Placement {
    /// bit per role: 1 = contended region. roles: 0 code, 1 nn operand, 2 HL/IX/IY, 3 BC/DE/A (port high byte), 4 SP, 5 I
    pub bits: u8,
    /// region high-byte bases (contended, uncontended)
    pub cont_base: u8,
    pub unc_base: u8,
}

#[derive(Clone, Copy, Debug, PartialEq, Eq)]
pub struct Variant {
    pub f: u8,
    /// 0: B = region byte (repeat/taken), 1: B=0,C=1 (BC==1: LDIR final), 2: B=1 (DJNZ/INIR final)
    pub counter: u8,
    pub odd_port: bool,
    /// the CPU is already halted (only used with the HALT encoding): the step is one halted M1 cycle at PC
    pub halted: bool,
}

pub struct Setup {
    pub regs: RegsView,
    pub code: [u8; 6],
    pub len: usize,
}

pub fn build(kind: u8, op: u8, p: &Placement, v: &Variant) -> Option<Setup> {
    let (mut code, len, o1, o2) = encoding_bytes(kind, op)?;
    let hi = |role: u8, off: u8| -> u8 {
        (if p.bits & (1 << role) != 0 { p.cont_base } else { p.unc_base }).wrapping_add(off)
    };
    code[o1] = if v.odd_port { 0x35 } else { 0x34 };
    if o2 != o1 {
        code[o2] = hi(1, 2);
    }
    let mut r = RegsView::default();
    let a = hi(3, 5);
    r.af = (a as u16) << 8 | v.f as u16;
    let (b, c) = match v.counter {
        0 => (hi(3, 4), if v.odd_port { 0x37 } else { 0x36 }),
        1 => (0x00, 0x01),
        _ => (0x01, if v.odd_port { 0x37 } else { 0x36 }),
    };
    r.bc = (b as u16) << 8 | c as u16;
    r.de = (hi(3, 4) as u16) << 8 | 0x50;
    r.hl = (hi(2, 3) as u16) << 8 | 0x10;
    r.ix = (hi(2, 3) as u16) << 8 | 0x20;
    r.iy = (hi(2, 3) as u16) << 8 | 0x30;
    r.sp = (hi(4, 6) as u16) << 8 | 0x80;
    r.pc = (hi(0, 1) as u16) << 8;
    r.i = hi(5, 7);
    r.r = 0x11;
    r.af_ = 0x1234;
    r.bc_ = 0x2345;
    r.de_ = 0x3456;
    r.hl_ = (hi(2, 3) as u16) << 8 | 0x40;
    r.im = 1;
    r.memptr = 0x0123;
    r.halted = v.halted;
    Some(Setup { regs: r, code, len })
}

fn to_ref(v: &RegsView) -> RefZ80 {
    let mut s = RefZ80::new();
    let [a, f] = v.af.to_be_bytes();
    s.a = a;
    s.f = f;
    let [b, c] = v.bc.to_be_bytes();
    s.b = b;
    s.c = c;
    let [d, e] = v.de.to_be_bytes();
    s.d = d;
    s.e = e;
    let [h, l] = v.hl.to_be_bytes();
    s.h = h;
    s.l = l;
    let [a2, f2] = v.af_.to_be_bytes();
    s.a_alt = a2;
    s.f_alt = f2;
    let [b2, c2] = v.bc_.to_be_bytes();
    s.b_alt = b2;
    s.c_alt = c2;
    let [d2, e2] = v.de_.to_be_bytes();
    s.d_alt = d2;
    s.e_alt = e2;
    let [h2, l2] = v.hl_.to_be_bytes();
    s.h_alt = h2;
    s.l_alt = l2;
    s.ix = v.ix;
    s.iy = v.iy;
    s.sp = v.sp;
    s.pc = v.pc;
    s.i = v.i;
    s.r = v.r;
    s.iff1 = v.iff1;
    s.iff2 = v.iff2;
    s.im = v.im;
    s.halted = v.halted;
    s.memptr = v.memptr;
    s.q = v.q;
    s
}

/// Reference run: returns (elapsed T, contended cycle kinds, window of every access as a signature)
fn ref_step(spec: UlaSpec, cont: Contended, t: u64, regs: &RegsView, read: &dyn Fn(u16) -> u8) -> (u64, Vec<CycKind>) {
    let io = |_p: u16, _t: u64| 0xFFu8;
    let mut bus = RefMachine::new(spec, cont, t, read, &io);
    bus.int_enabled_lines = false;
    let mut cpu = to_ref(regs);
    for _ in 0..8 {
        match cpu.step(&mut bus) {
            StepKind::Instruction => break,
            _ => {}
        }
    }
    (bus.t - t, bus.kinds.clone())
}

fn impl_step(e: &mut Emu, m128: bool, t: usize, s: &Setup) -> u64 {
    e.verif_set_frame_clocks(t);
    rig::set_regs(e.verif_cpu(), &s.regs);
    let t0 = rig::abs_t(e, m128);
    for _ in 0..6 {
        rig::step(e);
        if e.verif_cpu().verif_active_prefix() == 0 {
            break;
        }
    }
    rig::abs_t(e, m128) - t0
}

pub fn tset(spec: &UlaSpec, quick: bool) -> Vec<usize> {
    if !quick {
        return (0..spec.frame as usize).collect();
    }
    let mut s = BTreeSet::new();
    let t0 = spec.t0 as usize;
    let line = spec.line as usize;
    let mut add = |a: usize, b: usize| {
        for t in a..b.min(spec.frame as usize) {
            s.insert(t);
        }
    };
    add(0, 40);
    add(t0 - 24, t0 + line + 16);
    add(t0 + 96 * line - 8, t0 + 96 * line + 136);
    add(t0 + 190 * line + 100, t0 + 192 * line + 24);
    add(spec.frame as usize - 48, spec.frame as usize);
    s.into_iter().collect()
}

struct Worker {
    e48: Emu,
    e128: Emu,
    /// 128K with the contended bank 1 paged at 0xC000
    e128b1: Emu,
    /// machines whose host I/O extender claims every port: the ULA delays a port cycle by its address,
    /// whoever answers it
    e48x: Emu,
    e128x: Emu,
}

fn mk_worker() -> Worker {
    let mut o48 = Opts::k48();
    o48.sound = false;
    let mut o128 = Opts::k128();
    o128.sound = false;
    let e128b1 = fresh_128(1);
    let mut e48x = rig::emu_stepping(&o48);
    e48x.set_io_extender(rig::VExt::new(rig::Claim::Mask(0, 0), 0xFF).quiet());
    let mut e128x = rig::emu_stepping(&o128);
    e128x.set_io_extender(rig::VExt::new(rig::Claim::Mask(0, 0), 0xFF).quiet());
    Worker {
        e48: rig::emu_stepping(&o48),
        e128: rig::emu_stepping(&o128),
        e128b1,
        e48x,
        e128x,
    }
}

fn fresh_128(top_bank: u8) -> Emu {
    let mut o128 = Opts::k128();
    o128.sound = false;
    let mut e = rig::emu_stepping(&o128);
    if top_bank != 0 {
        rig::cpu_out(&mut e, 0x8000, 0x7FFD, top_bank);
    }
    e
}

/// Some encodings under test write the 128K paging latch themselves (OUT (n),A / OUT (C),r / OUTI
/// with a port that decodes to it): the machine is put back into the paging state the reference
/// assumes before the next step.
thread_local! {
    /// set while a probe runs on a machine whose paging is locked: nothing can change it any more
    static PAGING_LOCKED: std::cell::Cell<bool> = std::cell::Cell::new(false);
    /// set while a sweep runs on a machine whose I/O extender claims every port
    static EXT_MACHINE: std::cell::Cell<bool> = std::cell::Cell::new(false);
}

/// encodings that run port cycles
fn does_io(kind: u8, op: u8) -> bool {
    match kind {
        0 => op == 0xD3 || op == 0xDB,
        2 => (0x40..0x80).contains(&op) && op & 7 < 2 || matches!(op, 0xA2 | 0xA3 | 0xAA | 0xAB | 0xB2 | 0xB3 | 0xBA | 0xBB),
        _ => false,
    }
}

fn restore_paging(e: &mut Emu, m128: bool, top_bank: u8) {
    if PAGING_LOCKED.with(|l| l.get()) {
        return;
    }
    if m128 {
        let p = e.verif_paging();
        if p.0 != top_bank || !p.1 {
            *e = fresh_128(top_bank);
        }
    }
}

fn kinds_key(k: &[CycKind]) -> String {
    let s: BTreeSet<String> = k.iter().map(|x| format!("{:?}", x)).collect();
    if s.is_empty() {
        "uncontended".into()
    } else {
        s.into_iter().collect::<Vec<_>>().join("+")
    }
}

#[allow(clippy::too_many_arguments)]
fn sweep(ctx: &Ctx, e: &mut Emu, m128: bool, top_bank: u8, kind: u8, op: u8, p: &Placement, v: &Variant, ts: &[usize], outcomes: &mut BTreeSet<u64>) -> u64 {
    let spec = spec(m128);
    let cont = Contended::new(m128, top_bank);
    let s = match build(kind, op, p, v) {
        Some(s) => s,
        None => return 0,
    };
    let mut n = 0u64;
    let mut reported = false;
    for &t in ts {
        // the instruction may have modified its own code or data: re-place the code each step
        rig::poke(e, s.regs.pc, &s.code[..s.len]);
        let (rt, kinds) = {
            let er: &Emu = e;
            let read = |a: u16| er.peek(a);
            ref_step(spec, cont, t as u64, &s.regs, &read)
        };
        let it = impl_step(e, m128, t, &s);
        restore_paging(e, m128, top_bank);
        n += 1;
        if outcomes.len() < 512 {
            outcomes.insert(rt << 8 | (t as u64 % 8));
        }
        if it != rt && !reported {
            reported = true;
            let mach = if m128 { "128k" } else { "48k" };
            let mach = if EXT_MACHINE.with(|x| x.get()) { format!("{}+extender-claims-all-ports", mach) } else { mach.to_string() };
            ctx.violation(
                &format!("C04:{}:{}", mach, kinds_key(&kinds)),
                &format!(
                    "{} machine, encoding {} {:02x} (bytes {}), start T={} placement bits {:06b} (bases {:02x}/{:02x}, bank {} at C000), F={:02x} counter-variant {} odd-port {}: takes {} T, contention model says {} T (contended cycles: {})",
                    mach, kind_name(kind), op, crate::vcore::hex(&s.code[..s.len]), t, p.bits, p.cont_base, p.unc_base, top_bank, v.f, v.counter, v.odd_port, it, rt, kinds_key(&kinds)
                ),
                json!({"kind":"step","m128":m128,"bank":top_bank,"enc_kind":kind,"op":op,"t":t,"pbits":p.bits,"cont_base":p.cont_base,"unc_base":p.unc_base,"f":v.f,"counter":v.counter,"odd":v.odd_port,"halted":v.halted,"ext":EXT_MACHINE.with(|x| x.get())}),
            );
        }
    }
    n
}

/// A setup whose `role` address sits `delta` away from a 16K window boundary, everything else in
/// uncontended RAM at 0x90xx+: an access made 1-2 bytes off its proper address changes window.
pub fn build_boundary(kind: u8, op: u8, v: &Variant, role: u8, addr: u16) -> Option<Setup> {
    let p = Placement { bits: 0, cont_base: 0x60, unc_base: 0x90 };
    let mut s = build(kind, op, &p, v)?;
    let (_, _, o1, o2) = encoding_bytes(kind, op)?;
    match role {
        0 => s.regs.pc = addr,
        1 => {
            if o2 == o1 {
                return None;
            }
            s.code[o1] = addr as u8;
            s.code[o2] = (addr >> 8) as u8;
        }
        2 => {
            s.regs.hl = addr;
            s.regs.hl_ = addr;
            let d = s.code[2] as i8 as i16 as u16;
            s.regs.ix = addr.wrapping_sub(d);
            s.regs.iy = addr.wrapping_sub(d);
        }
        3 => {
            if v.counter == 0 {
                s.regs.bc = addr;
            }
            s.regs.de = addr;
            s.regs.af = (addr & 0xFF00) | (s.regs.af & 0xFF);
        }
        4 => s.regs.sp = addr,
        _ => return None,
    }
    Some(s)
}

#[allow(clippy::too_many_arguments)]
fn sweep_boundary(ctx: &Ctx, e: &mut Emu, m128: bool, top_bank: u8, kind: u8, op: u8, v: &Variant, role: u8, addr: u16, ts: &[usize], outcomes: &mut BTreeSet<u64>) -> u64 {
    let spec = spec(m128);
    let cont = Contended::new(m128, top_bank);
    let s = match build_boundary(kind, op, v, role, addr) {
        Some(s) => s,
        None => return 0,
    };
    let mut n = 0u64;
    for &t in ts {
        rig::poke(e, s.regs.pc, &s.code[..s.len]);
        let (rt, kinds) = {
            let er: &Emu = e;
            let read = |a: u16| er.peek(a);
            ref_step(spec, cont, t as u64, &s.regs, &read)
        };
        let it = impl_step(e, m128, t, &s);
        restore_paging(e, m128, top_bank);
        n += 1;
        if outcomes.len() < 512 {
            outcomes.insert(rt << 8 | (t as u64 % 8) | 0x8000_0000);
        }
        if it != rt {
            let mach = if m128 { "128k" } else { "48k" };
            ctx.violation(
                &format!("C04:{}:boundary:{}", mach, kinds_key(&kinds)),
                &format!(
                    "{} machine, encoding {} {:02x} (bytes {}), start T={}, address role {} (0 code, 1 nn, 2 HL/IX+d/IY+d, 3 BC/DE/A, 4 SP) placed at {:04x} next to a 16K window boundary (bank {} at C000), everything else in uncontended RAM, F={:02x} counter-variant {} odd-port {}: takes {} T, contention model says {} T (contended cycles: {})",
                    mach, kind_name(kind), op, crate::vcore::hex(&s.code[..s.len]), t, role, addr, top_bank, v.f, v.counter, v.odd_port, it, rt, kinds_key(&kinds)
                ),
                json!({"kind":"boundary","m128":m128,"bank":top_bank,"enc_kind":kind,"op":op,"t":t,"role":role,"addr":addr,"f":v.f,"counter":v.counter,"odd":v.odd_port,"halted":v.halted}),
            );
            break;
        }
    }
    n
}

/// T-states for the boundary layer: the start and the end of the contended part of one picture line
/// (quick) / two complete lines (thorough); every contention phase occurs in each.
fn tset_boundary(spec: &UlaSpec, quick: bool) -> Vec<usize> {
    let l = (spec.t0 + 96 * spec.line) as usize;
    if quick {
        (l - 4..l + 28).chain(l + 112..l + 144).collect()
    } else {
        (l - 8..l + 2 * spec.line as usize + 8).collect()
    }
}

/// Roles whose region matters for this encoding/variant (changing it moves an access between windows)
fn relevant_roles(kind: u8, op: u8, v: &Variant, e: &Emu) -> Vec<u8> {
    let sig = |bits: u8| -> Vec<(u8, u8)> {
        let p = Placement { bits, cont_base: 0x60, unc_base: 0x90 };
        let s = match build(kind, op, &p, v) {
            Some(s) => s,
            None => return vec![],
        };
        // run the reference on a recording bus (windows of all accesses)
        let code = s.code;
        let pc = s.regs.pc;
        let len = s.len;
        let read = |a: u16| {
            let off = a.wrapping_sub(pc) as usize;
            if off < len {
                code[off]
            } else {
                e.peek(a)
            }
        };
        let mut env = crate::z80lock::Env::new(0);
        let _ = &mut env;
        // use the lock-step RBus for its address log
        let mut cpu = to_ref(&s.regs);
        struct Rec<'a> {
            read: &'a dyn Fn(u16) -> u8,
            log: Vec<(u8, u8)>,
        }
        impl<'a> refz80::RefBus for Rec<'a> {
            fn m1(&mut self, a: u16) -> u8 {
                self.log.push((0, (a >> 14) as u8));
                (self.read)(a)
            }
            fn mem_read(&mut self, a: u16) -> u8 {
                self.log.push((1, (a >> 14) as u8));
                (self.read)(a)
            }
            fn mem_write(&mut self, a: u16, _v: u8) {
                self.log.push((2, (a >> 14) as u8));
            }
            fn delay(&mut self, a: u16, n: u8) {
                self.log.push((3 + n, (a >> 14) as u8));
            }
            fn io_read(&mut self, p: u16) -> u8 {
                self.log.push((40 + (p & 1) as u8, (p >> 14) as u8));
                0xFF
            }
            fn io_write(&mut self, p: u16, _v: u8) {
                self.log.push((50 + (p & 1) as u8, (p >> 14) as u8));
            }
            fn int_ack(&mut self) -> u8 {
                0xFF
            }
            fn idle(&mut self, _n: u8) {}
            fn int_line(&mut self) -> bool {
                false
            }
            fn nmi_line(&mut self) -> bool {
                false
            }
        }
        let mut bus = Rec { read: &read, log: Vec::new() };
        for _ in 0..8 {
            if cpu.step(&mut bus) == StepKind::Instruction {
                break;
            }
        }
        bus.log
    };
    let base = sig(0);
    (0..6u8).filter(|r| sig(1 << r) != base).collect()
}

fn variants() -> Vec<Variant> {
    let mut v = Vec::new();
    for counter in 0..3u8 {
        for f in [0x00u8, 0xFF] {
            for odd in [false, true] {
                v.push(Variant { f, counter, odd_port: odd, halted: false });
            }
        }
    }
    v
}

pub fn run(tier: Tier, seed: u64, replay: Option<String>) -> i32 {
    let ctx = Ctx::new("C04", tier, seed, "model_checking");
    let quick = !tier.is_thorough();
    if let Some(path) = replay {
        let v: serde_json::Value = serde_json::from_slice(&rig::read_file(&path)).expect("replay json");
        let c = &v["case"];
        let m128 = c["m128"].as_bool().unwrap_or(false);
        let mut w = mk_worker();
        let ext = c["ext"].as_bool().unwrap_or(false);
        EXT_MACHINE.with(|x| x.set(ext));
        let e = match (m128, ext) {
            (false, false) => &mut w.e48,
            (true, false) => &mut w.e128,
            (false, true) => &mut w.e48x,
            (true, true) => &mut w.e128x,
        };
        let bank = c["bank"].as_u64().unwrap_or(0) as u8;
        if m128 {
            rig::cpu_out(e, 0x8000, 0x7FFD, bank);
        }
        let mut o = BTreeSet::new();
        if c["kind"] == "boundary" {
            let var = Variant { f: c["f"].as_u64().unwrap() as u8, counter: c["counter"].as_u64().unwrap() as u8, odd_port: c["odd"].as_bool().unwrap(), halted: c["halted"].as_bool().unwrap_or(false) };
            sweep_boundary(&ctx, e, m128, bank, c["enc_kind"].as_u64().unwrap() as u8, c["op"].as_u64().unwrap() as u8, &var, c["role"].as_u64().unwrap() as u8, c["addr"].as_u64().unwrap() as u16, &[c["t"].as_u64().unwrap() as usize], &mut o);
            let n = ctx.violation_classes();
            println!("replay: {} violation class(es) reproduced", n);
            return (n > 0) as i32;
        }
        let p = Placement { bits: c["pbits"].as_u64().unwrap() as u8, cont_base: c["cont_base"].as_u64().unwrap() as u8, unc_base: c["unc_base"].as_u64().unwrap() as u8 };
        let var = Variant { f: c["f"].as_u64().unwrap() as u8, counter: c["counter"].as_u64().unwrap() as u8, odd_port: c["odd"].as_bool().unwrap(), halted: c["halted"].as_bool().unwrap_or(false) };
        sweep(&ctx, e, m128, bank, c["enc_kind"].as_u64().unwrap() as u8, c["op"].as_u64().unwrap() as u8, &p, &var, &[c["t"].as_u64().unwrap() as usize], &mut o);
        let n = ctx.violation_classes();
        println!("replay: {} violation class(es) reproduced", n);
        return (n > 0) as i32;
    }
    if let Err(e) = crate::oracle::require_valid() {
        eprintln!("MACHINERY: reference model not validated: {}", e);
        return 2;
    }
    let encs = all_encodings();
    let ts48 = tset(&ULA48, quick);
    let ts128 = tset(&ULA128, quick);
    let vars = variants();
    let tb48 = tset_boundary(&ULA48, quick);
    let tb128 = tset_boundary(&ULA128, quick);
    // quick: every 4th encoding per run would hide things; instead quick uses windows of T but all encodings
    par_for_with(encs.len(), 1, mk_worker, |w, i| {
        let (kind, op) = encs[i];
        let mut outcomes = BTreeSet::new();
        let mut seen_sigs: Vec<Vec<u8>> = Vec::new();
        let mut evals = 0u64;
        let halted_var = Variant { f: 0, counter: 0, odd_port: false, halted: true };
        let mut vars_here: Vec<Variant> = vars.clone();
        if kind == 0 && op == 0x76 {
            // a CPU that is already halted: every further step is an M1 cycle at the HALT's address
            vars_here.push(halted_var);
        }
        for v in vars_here.iter() {
            // skip variants that do not change the reference cycle shape
            let sig = {
                let p = Placement { bits: 0, cont_base: 0x60, unc_base: 0x90 };
                let s = match build(kind, op, &p, v) {
                    Some(s) => s,
                    None => continue,
                };
                rig::poke(&mut w.e48, s.regs.pc, &s.code[..s.len]);
                let er = &w.e48;
                let read = |a: u16| er.peek(a);
                let (t, _) = ref_step(ULA48, Contended { w: [false; 4] }, 0, &s.regs, &read);
                let (t2, k2) = ref_step(ULA48, Contended { w: [true; 4] }, ULA48.t0, &s.regs, &read);
                let mut sg = vec![t as u8, t2 as u8, v.halted as u8];
                sg.extend(k2.iter().map(|k| *k as u8));
                sg
            };
            if seen_sigs.contains(&sig) {
                continue;
            }
            seen_sigs.push(sig);
            let roles = relevant_roles(kind, op, v, &w.e48);
            // boundary layer: each relevant address role next to every 16K window boundary
            for r in roles.iter().filter(|r| **r < 5) {
                for b in [0x4000u16, 0x8000, 0xC000, 0x0000] {
                    if *r == 0 && (b == 0x4000 || b == 0x0000) {
                        continue; // code cannot be placed in ROM
                    }
                    for delta in [-3i16, -2, -1, 0, 1, 2] {
                        let addr = b.wrapping_add(delta as u16);
                        if b != 0xC000 && b != 0x0000 {
                            evals += sweep_boundary(&ctx, &mut w.e48, false, 0, kind, op, v, *r, addr, &tb48, &mut outcomes);
                        }
                        // 128K with contended bank 1 paged at C000: 4000, 8000, C000 and the FFFF->0000 wrap
                        evals += sweep_boundary(&ctx, &mut w.e128b1, true, 1, kind, op, v, *r, addr, &tb128, &mut outcomes);
                    }
                }
            }
            let nplace = 1usize << roles.len();
            for pi in 0..nplace {
                let mut bits = 0u8;
                for (k, r) in roles.iter().enumerate() {
                    if pi & (1 << k) != 0 {
                        bits |= 1 << r;
                    }
                }
                let p = Placement { bits, cont_base: 0x60, unc_base: 0x90 };
                evals += sweep(&ctx, &mut w.e48, false, 0, kind, op, &p, v, &ts48, &mut outcomes);
                evals += sweep(&ctx, &mut w.e128, true, 0, kind, op, &p, v, &ts128, &mut outcomes);
                if does_io(kind, op) {
                    EXT_MACHINE.with(|x| x.set(true));
                    evals += sweep(&ctx, &mut w.e48x, false, 0, kind, op, &p, v, &ts48, &mut outcomes);
                    evals += sweep(&ctx, &mut w.e128x, true, 0, kind, op, &p, v, &ts128, &mut outcomes);
                    EXT_MACHINE.with(|x| x.set(false));
                }
            }
        }
        ctx.add_eval(evals);
        ctx.add_states(evals);
        ctx.add_transitions(evals);
        ctx.add_traces(evals);
        for o in outcomes {
            ctx.outcome(o ^ ((i as u64) << 32));
        }
        if i % 300 == 7 {
            ctx.sample(json!({"encoding": format!("{} {:02x}", kind_name(kind), op), "timing_variants": seen_sigs.len(), "steps": evals}));
        }
    });
    // Layer 1: every bus-cycle kind with its address at 0xC000 under all eight 128K banks
    let probes: Vec<(u8, u8, u8)> = vec![
        // (kind, op, role that is moved to C000)
        (0, 0x00, 0), // NOP: fetch at C000
        (0, 0x7E, 2), // LD A,(HL): read
        (0, 0x77, 2), // LD (HL),A: write
        (0, 0x34, 2), // INC (HL): read, delay, write
        (0, 0xC5, 4), // PUSH BC: stack writes
        (0, 0x09, 5), // ADD HL,BC: 7 delays at IR
        (2, 0x78, 3), // IN A,(C): port high byte
        (2, 0x79, 3), // OUT (C),A
        (0, 0xDB, 3), // IN A,(n): port high byte from A
        (2, 0xB0, 3), // LDIR: DE writes + delays
    ];
    let tb128_layer1 = tset_boundary(&ULA128, quick);
    par_for_with(probes.len() * 8, 1, mk_worker, |w, i| {
        let (kind, op, role) = probes[i / 8];
        let bank = (i % 8) as u8;
        rig::cpu_out(&mut w.e128, 0x8000, 0x7FFD, bank);
        let mut outcomes = BTreeSet::new();
        let mut evals = 0;
        for v in [Variant { f: 0, counter: 0, odd_port: false, halted: false }, Variant { f: 0, counter: 0, odd_port: true, halted: false }] {
            // the probed role lives at C0xx+, all other roles at 90xx (uncontended)
            let p = Placement { bits: 1 << role, cont_base: 0xC8, unc_base: 0x90 };
            evals += sweep(&ctx, &mut w.e128, true, bank, kind, op, &p, &v, &ts128, &mut outcomes);
        }
        // the same probes on a machine that locked paging on this bank and then received a paging
        // write for a bank of the other contention class: the write is ignored, so contention must
        // still be that of the locked bank
        {
            let mut e = fresh_128(0);
            rig::cpu_out(&mut e, 0x8000, 0x7FFD, 0x20 | bank);
            rig::cpu_out(&mut e, 0x8000, 0x7FFD, bank ^ 1);
            PAGING_LOCKED.with(|l| l.set(true));
            for v in [Variant { f: 0, counter: 0, odd_port: false, halted: false }, Variant { f: 0, counter: 0, odd_port: true, halted: false }] {
                let p = Placement { bits: 1 << role, cont_base: 0xC8, unc_base: 0x90 };
                evals += sweep(&ctx, &mut e, true, bank, kind, op, &p, &v, &tb128_layer1, &mut outcomes);
            }
            PAGING_LOCKED.with(|l| l.set(false));
        }
        ctx.add_eval(evals);
        ctx.add_states(evals);
        ctx.add_transitions(evals);
        ctx.add_traces(evals);
        for o in outcomes {
            ctx.outcome(o ^ ((i as u64) << 40));
        }
    });
    ctx.note("start_t_states_48k", json!(ts48.len()));
    ctx.note("start_t_states_128k", json!(ts128.len()));
    ctx.note("t_coverage", json!(if quick { "complete windows: frame start, first picture line +-, line 96, lines 190-192 edge, frame end" } else { "every T-state of the frame" }));
    ctx.finish(
        "for every encoding x every timing variant (flags 00/FF x counter variants x port parity, HALT also with the CPU already halted; variants with identical reference cycle shape merged) x every contended/uncontended assignment of the address roles the encoding uses (code, nn operand, HL/IX/IY, BC/DE/A as pointer and port high byte, SP, I) x {48K,128K} (encodings that run port cycles also on both machines with a host I/O extender claiming every port) x every start T of the T set: one single step on the real Emulator (frame clock placed through the hook) and on RefZ80+RefULA; elapsed T must be equal; boundary layer: each address role the encoding uses placed at -3..+2 around every 16K window boundary (4000, 8000, C000 and the FFFF/0000 wrap with contended bank 1 at C000; code straddling 8000/C000) so that an access made one or two bytes off its proper address changes window, over all contention phases at the start and the end of the contended part of a picture line; plus 10 cycle-kind probes with the address at 0xC000 under all eight 128K banks, each also on a machine that locked paging on that bank and then received an (ignored) write for a bank of the other contention class. distinct = distinct (elapsed, phase) outcomes per encoding",
        true,
        &["placing the frame clock through verif_set_frame_clocks assumes contention depends on the clock value only (C05 runs whole frames without placing the clock as the control)", "RefULA is the literal formula of the property text"],
    )
}
