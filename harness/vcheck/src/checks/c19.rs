//! C19 — audio arrives at exactly the configured rate and tracks the speaker bit.
//! E-PROD over sample rates x machines x volumes x device enables x toggle times (every T of the
//! frame in thorough) x drain schedules (all 2^6 patterns over 6 frames).

use crate::refzx::*;
use crate::rig::{self, Emu, Opts, RegsView};
use crate::vcore::{par_for, Ctx, Tier};
use serde_json::json;

const IDLE: u16 = 0x9000;
const OUTC: u16 = 0x9100;
const RATES: [usize; 10] = [8000, 8001, 11025, 22050, 44100, 44099, 48000, 96000, 192000, 384000];

thread_local! {
    /// history of the machine under test: 0 = fresh; 1/2 = a SNA/SZX snapshot holding the test program was
    /// loaded while the previous program (EI; HALT loop) was waiting in HALT
    static PREP: std::cell::Cell<u8> = std::cell::Cell::new(0);
}

fn machine(m128: bool, rate: usize, volume: u8, beeper: bool, ay: bool) -> Emu {
    let mut o = Opts::machine(m128);
    o.rate = rate;
    o.volume = volume;
    o.beeper = beeper;
    o.ay = ay;
    o.sound = true;
    let mut e = rig::emu_stepping(&o);
    let prep = PREP.with(|p| p.get());
    if prep != 0 {
        rig::poke(&mut e, 0x8000, &[0xFB, 0x76, 0x18, 0xFD]);
        let mut r = RegsView::default();
        r.pc = 0x8000;
        r.sp = 0xBF00;
        r.im = 1;
        r.iff1 = true;
        r.iff2 = true;
        rig::set_regs(e.verif_cpu(), &r);
        let mut guard = 0;
        while (e.verif_total_frames() < 3 || !e.verif_cpu().halted) && guard < 200_000 {
            rig::step(&mut e);
            guard += 1;
        }
        let mut s = crate::formats::MState::new(m128, 0);
        s.regs.pc = IDLE;
        s.regs.sp = 0xBF00;
        s.regs.iff1 = false;
        s.regs.iff2 = false;
        s.banks[2][(IDLE - 0x8000) as usize..(IDLE - 0x8000) as usize + 3].copy_from_slice(&[0xF3, 0x18, 0xFE]);
        s.banks[2][(OUTC - 0x8000) as usize..(OUTC - 0x8000) as usize + 5].copy_from_slice(&[0xED, 0x79, 0xC3, IDLE as u8, (IDLE >> 8) as u8]);
        let res = if prep == 1 {
            let f = if m128 { crate::formats::sna128(&s) } else { crate::formats::sna48(&s) };
            e.load_snapshot(rustzx_core::host::Snapshot::Sna(rig::VAsset::new(f)))
        } else {
            e.load_snapshot(rustzx_core::host::Snapshot::Szx(rig::VAsset::new(crate::formats::szx(&s, &crate::formats::SzxOpts::default()))))
        };
        if res.is_err() {
            eprintln!("MACHINERY: C19 could not load its own snapshot");
            std::process::exit(2);
        }
    }
    rig::poke(&mut e, IDLE, &[0xF3, 0x18, 0xFE]);
    rig::poke(&mut e, OUTC, &[0xED, 0x79, 0xC3, IDLE as u8, (IDLE >> 8) as u8]);
    let mut r = RegsView::default();
    r.pc = IDLE;
    r.sp = 0xBF00;
    rig::set_regs(e.verif_cpu(), &r);
    e
}

fn to_frame_end(e: &mut Emu, m128: bool) {
    let sp = spec(m128);
    let f = e.verif_total_frames();
    if (e.verif_frame_clocks() as u64) < sp.frame - 60 {
        e.verif_set_frame_clocks((sp.frame - 40) as usize);
    }
    while e.verif_total_frames() == f {
        rig::step(e);
    }
}

fn out_at(e: &mut Emu, t: usize, val: u8) -> (usize, usize) {
    e.verif_set_frame_clocks(t);
    let mut r = RegsView::default();
    r.pc = OUTC;
    r.sp = 0xBF00;
    r.bc = 0x00FE;
    r.af = (val as u16) << 8;
    rig::set_regs(e.verif_cpu(), &r);
    rig::step(e);
    (t, e.verif_frame_clocks())
}

fn level(val: u8, volume: u8) -> f32 {
    let mut s = 0.0f64;
    if val & 0x10 != 0 {
        s += 0.5;
    }
    if val & 0x08 != 0 {
        s += 0.1;
    }
    (s * (volume as f64 / 200.0)) as f32
}

/// One toggle at time t: returns outcome digest
fn toggle_case(ctx: &Ctx, m128: bool, rate: usize, volume: u8, bit: u8, t: usize, second: Option<usize>) -> u64 {
    let sp = spec(m128);
    let spf = rate / 50;
    let mut e = machine(m128, rate, volume, true, false);
    // settle: one frame with level 0, drained
    to_frame_end(&mut e, m128);
    rig::drain_audio(&mut e);
    to_frame_end(&mut e, m128);
    let pre = rig::drain_audio(&mut e);
    let case = json!({"kind":"toggle","m128":m128,"rate":rate,"volume":volume,"bit":bit,"t":t,"second":second,"prep":PREP.with(|p| p.get())});
    // now a few T into a fresh frame
    let start = e.verif_frame_clocks();
    let (t0, t1) = out_at(&mut e, t.max(start), bit);
    let mut extent_hi = t1;
    let mut final_val = bit;
    if let Some(dt) = second {
        let t2 = (t1 + dt).max(e.verif_frame_clocks());
        let (_, t3) = out_at(&mut e, t2, 0);
        extent_hi = t3;
        final_val = 0;
    }
    if t1 < t0 || extent_hi < t0 {
        // wrapped into the next frame: not an in-frame toggle
        return 0;
    }
    to_frame_end(&mut e, m128);
    let fc = e.verif_frame_clocks() as u64;
    let got = rig::drain_audio(&mut e);
    let extra = (spf as u64 * fc / sp.frame) as usize;
    ctx.add_eval(1);
    let mname = format!("{}{}", if m128 { "128k" } else { "48k" }, match PREP.with(|p| p.get()) {
        1 => ":sna-loaded-into-halted-machine",
        2 => ":szx-loaded-into-halted-machine",
        _ => "",
    });
    if (got.len() as i64 - (spf + extra) as i64).abs() > 1 || pre.len() < spf || pre.len() > spf + 8 {
        ctx.violation(
            &format!("C19:samples-per-frame:{}", mname),
            &format!("rate {}: a drained frame delivered {} samples (previous frame {}), expected floor(rate/50) = {} (+{} for the {} T the last instruction ran into the next frame)", rate, got.len(), pre.len(), spf, extra, fc),
            case,
        );
        return 0;
    }
    let l0 = level(0, volume);
    let l1 = level(bit, volume);
    let lf = level(final_val, volume);
    let bound = (0.6 + 3.75) * volume as f32 / 200.0 + 1e-6;
    for (k, s) in got.iter().enumerate() {
        if !s.0.is_finite() || !s.1.is_finite() || s.0.abs() > bound || s.1.abs() > bound {
            ctx.violation(&format!("C19:sample-out-of-bounds:{}", mname), &format!("rate {} volume {}: sample {} = {:?} exceeds the bound {}", rate, volume, k, s, bound), case);
            return 0;
        }
    }
    // expected edge window in samples
    let lo = (t0 as u64 * spf as u64 / sp.frame) as i64 - 1;
    let hi = ((extent_hi as u64 + 1) * spf as u64 / sp.frame) as i64 + 1;
    let n = spf.min(got.len());
    let mut first_change: Option<usize> = None;
    for k in 0..n {
        let v = got[k].0;
        let expect_before = (k as i64) < lo;
        let expect_after = (k as i64) > hi;
        let want = if expect_before { Some(l0) } else if expect_after { Some(lf) } else { None };
        if first_change.is_none() && (v - l0).abs() > 1e-6 {
            first_change = Some(k);
        }
        if let Some(w) = want {
            if (v - w).abs() > 1e-6 || (got[k].1 - w).abs() > 1e-6 {
                ctx.violation(
                    &format!("C19:beeper-level:{}:{}", mname, if expect_before { "before-the-write" } else { "after-the-write" }),
                    &format!(
                        "rate {} volume {}: OUT (FE),{:02x} executed at T={}..{} of the frame: sample {} is {} but the speaker level set at that time gives {} (edge expected between samples {} and {})",
                        rate, volume, bit, t0, extent_hi, k, v, w, lo, hi
                    ),
                    case,
                );
                return 0;
            }
        } else if (v - l0).abs() > 1e-6 && (v - l1).abs() > 1e-6 && (v - lf).abs() > 1e-6 {
            ctx.violation(&format!("C19:beeper-level:{}:unknown-level", mname), &format!("rate {}: sample {} = {} is none of the levels {} / {}", rate, k, v, l0, l1), case);
            return 0;
        }
    }
    (first_change.unwrap_or(99999) as u64) << 20 | (rate as u64)
}

/// Free-running loop of long instructions (23-T INC (IX+0), 19-T EX (SP),HL, 12-T JR) so that frame
/// ends are straddled with every overrun up to 22 T; drained at every frame boundary: exactly
/// floor(rate/50) samples per frame at every rate (at 384 kHz a sample lasts 9.1 T, less than an
/// overrun), all within bounds.
fn long_instruction_frames(ctx: &Ctx, m128: bool, rate: usize) {
    let spf = rate / 50;
    let mut e = machine(m128, rate, 100, true, false);
    // DI; LD IX,A000; loop: INC (IX+0); EX (SP),HL; JR loop   (54 T per pass, 69888 and 70908 are no multiples)
    rig::poke(&mut e, 0x8000, &[0xF3, 0xDD, 0x21, 0x00, 0xA0, 0xDD, 0x34, 0x00, 0xE3, 0x18, 0xFA]);
    let mut r = RegsView::default();
    r.pc = 0x8000;
    r.sp = 0xBF00;
    rig::set_regs(e.verif_cpu(), &r);
    let case = json!({"kind":"long-instr","m128":m128,"rate":rate});
    let mut overruns = std::collections::BTreeSet::new();
    for f in 0..60 {
        let f0 = e.verif_total_frames();
        let mut guard = 0;
        while e.verif_total_frames() == f0 && guard < 100_000 {
            rig::step(&mut e);
            guard += 1;
        }
        overruns.insert(e.verif_frame_clocks());
        let got = rig::drain_audio(&mut e);
        ctx.add_eval(1);
        if got.len() != spf {
            ctx.violation(
                &format!("C19:samples-per-frame:long-instructions:{}", if m128 { "128k" } else { "48k" }),
                &format!("rate {}: frame {} of a free-running loop of 23/19/12-T instructions (the frame end was overrun by {} T) delivered {} samples when drained at the frame boundary, expected exactly floor(rate/50) = {}", rate, f, e.verif_frame_clocks(), got.len(), spf),
                case,
            );
            return;
        }
        for s in got.iter() {
            if !s.0.is_finite() || !s.1.is_finite() || s.0.abs() > 2.175 + 1e-6 {
                ctx.violation("C19:sample-out-of-bounds:long-instructions", &format!("rate {}: sample {:?}", rate, s), case);
                return;
            }
        }
    }
    ctx.outcome(0x1060_0000 ^ (rate as u64) << 8 ^ overruns.len() as u64);
}

/// Configuration corners: (a) beeper disabled - every port FE value (EAR, MIC, both) leaves the
/// output at 0; (b) the AY is switched on/off at run time (Emulator::set_ay_enabled, which the SZX
/// loader also calls) on machines with volume 40 / 100 / 180 - the beeper levels still follow the
/// configured volume afterwards.
fn configuration_corners(ctx: &Ctx) {
    for m128 in [false, true] {
        for val in [0x08u8, 0x10, 0x18] {
            for ay in [false, true] {
                let mut e = machine(m128, 44100, 100, false, ay);
                to_frame_end(&mut e, m128);
                rig::drain_audio(&mut e);
                let start = e.verif_frame_clocks();
                out_at(&mut e, 1000usize.max(start), val);
                to_frame_end(&mut e, m128);
                rig::drain_audio(&mut e);
                to_frame_end(&mut e, m128);
                let got = rig::drain_audio(&mut e);
                ctx.add_eval(1);
                if let Some(s) = got.iter().find(|s| s.0.abs() > 1e-6 || s.1.abs() > 1e-6) {
                    ctx.violation(
                        &format!("C19:beeper-disabled-not-silent:{}", if m128 { "128k" } else { "48k" }),
                        &format!("beeper disabled (AY {}): after OUT (FE),{:02x} the samples are {:?} instead of 0", if ay { "on, silent" } else { "off" }, val, s),
                        json!({"kind":"config","m128":m128,"beeper":false,"ay":ay,"val":val}),
                    );
                }
            }
        }
        for volume in [40u8, 100, 180] {
            for (ay0, ay1) in [(false, true), (true, false), (true, true), (false, false)] {
                let mut e = machine(m128, 44100, volume, true, ay0);
                to_frame_end(&mut e, m128);
                rig::drain_audio(&mut e);
                e.set_ay_enabled(ay1);
                let start = e.verif_frame_clocks();
                out_at(&mut e, 1000usize.max(start), 0x10);
                to_frame_end(&mut e, m128);
                rig::drain_audio(&mut e);
                to_frame_end(&mut e, m128);
                let got = rig::drain_audio(&mut e);
                let want = level(0x10, volume);
                ctx.add_eval(1);
                if let Some(s) = got.iter().find(|s| (s.0 - want).abs() > 1e-6 || (s.1 - want).abs() > 1e-6) {
                    ctx.violation(
                        &format!("C19:level-after-runtime-ay-toggle:{}", if m128 { "128k" } else { "48k" }),
                        &format!("volume {}: AY enable switched {} -> {} at run time, then OUT (FE),10h: samples are {:?}, the speaker level at this volume is {}", volume, ay0, ay1, s, want),
                        json!({"kind":"config","m128":m128,"volume":volume,"ay0":ay0,"ay1":ay1}),
                    );
                }
            }
        }
    }
    ctx.outcome(0xC0F1);
}

fn drain_schedules(ctx: &Ctx, m128: bool, rate: usize, ay: bool) {
    let sp = spec(m128);
    let spf = rate / 50;
    for pattern in 0..64u32 {
        let mut e = machine(m128, rate, 100, true, ay);
        if ay {
            // the AY is not only enabled but sounding: three tones and noise at full volume
            for (r, d) in [(0u8, 0x9Cu8), (1, 0x00), (2, 0x40), (3, 0x01), (4, 0x11), (5, 0x00), (6, 0x03), (7, 0x20), (8, 0x0F), (9, 0x0F), (10, 0x0F)] {
                rig::cpu_out(&mut e, OUTC, 0xFFFD, r);
                rig::cpu_out(&mut e, OUTC, 0xBFFD, d);
            }
        }
        let mut total = 0usize;
        let mut since_drain = 0u64;
        let case = json!({"kind":"drain","m128":m128,"rate":rate,"ay":ay,"pattern":pattern});
        for f in 0..6 {
            // toggle the speaker twice per frame at fixed places
            out_at(&mut e, 20000, 0x10);
            out_at(&mut e, 40000, 0x00);
            to_frame_end(&mut e, m128);
            since_drain += 1;
            if pattern & (1 << f) != 0 {
                let got = rig::drain_audio(&mut e);
                total += got.len();
                if got.len() >= 2 * spf {
                    ctx.violation(
                        &format!("C19:queue-too-long:{}", if m128 { "128k" } else { "48k" }),
                        &format!("rate {} ay {}: {} samples queued after {} undrained frame(s) (two frames' worth = {})", rate, ay, got.len(), since_drain, 2 * spf),
                        case.clone(),
                    );
                    return;
                }
                for s in got.iter() {
                    if !s.0.is_finite() || !s.1.is_finite() || s.0.abs() > 2.175 + 1e-6 || s.1.abs() > 2.175 + 1e-6 {
                        ctx.violation("C19:sample-out-of-bounds:drain", &format!("rate {} ay {}: sample {:?}", rate, ay, s), case.clone());
                        return;
                    }
                }
                since_drain = 0;
            }
        }
        let rest = rig::drain_audio(&mut e);
        for s in rest.iter() {
            if !s.0.is_finite() || !s.1.is_finite() || s.0.abs() > 2.175 + 1e-6 || s.1.abs() > 2.175 + 1e-6 {
                ctx.violation("C19:sample-out-of-bounds:drain", &format!("rate {} ay {}: sample {:?} exceeds (0.6 + 3.75) x volume/200", rate, ay, s), case.clone());
                return;
            }
        }
        if rest.len() >= 2 * spf {
            ctx.violation(
                &format!("C19:queue-too-long:{}", if m128 { "128k" } else { "48k" }),
                &format!("rate {} ay {}: {} samples queued at the end of drain pattern {:06b} (two frames' worth = {})", rate, ay, rest.len(), pattern, 2 * spf),
                case,
            );
            return;
        }
        if pattern == 63 {
            let fc = e.verif_frame_clocks() as u64;
            let extra = (spf as u64 * fc / sp.frame) as usize;
            let all = total + rest.len();
            if (all as i64 - (6 * spf + extra) as i64).abs() > 1 {
                ctx.violation(
                    &format!("C19:samples-per-frame:{}", if m128 { "128k" } else { "48k" }),
                    &format!("rate {} ay {}: 6 drained frames delivered {} samples, expected 6 x {} (+{})", rate, ay, all, spf, extra),
                    case,
                );
            }
        }
        ctx.add_eval(1);
        ctx.outcome(((total + rest.len()) as u64) << 8 | pattern as u64);
    }
}

pub fn run(tier: Tier, seed: u64, replay: Option<String>) -> i32 {
    let ctx = Ctx::new("C19", tier, seed, "exploration");
    let quick = !tier.is_thorough();
    if let Some(path) = replay {
        let v: serde_json::Value = serde_json::from_slice(&rig::read_file(&path)).expect("replay json");
        let c = &v["case"];
        let m128 = c["m128"].as_bool().unwrap_or(false);
        let rate = c["rate"].as_u64().unwrap_or(44100) as usize;
        if c["kind"] == "config" {
            configuration_corners(&ctx);
        } else if c["kind"] == "long-instr" {
            long_instruction_frames(&ctx, m128, rate);
        } else if c["kind"] == "toggle" {
            PREP.with(|p| p.set(c["prep"].as_u64().unwrap_or(0) as u8));
            toggle_case(&ctx, m128, rate, c["volume"].as_u64().unwrap_or(100) as u8, c["bit"].as_u64().unwrap_or(16) as u8, c["t"].as_u64().unwrap_or(0) as usize, c["second"].as_u64().map(|x| x as usize));
        } else {
            drain_schedules(&ctx, m128, rate, c["ay"].as_bool().unwrap_or(false));
        }
        let n = ctx.violation_classes();
        println!("replay: {} violation class(es) reproduced", n);
        return (n > 0) as i32;
    }
    let mut jobs: Vec<(bool, usize, u8, u8, usize, Option<usize>)> = Vec::new();
    for m128 in [false, true] {
        let sp = spec(m128);
        let frame = sp.frame as usize;
        let ts: Vec<usize> = if quick {
            let mut v: Vec<usize> = (8..264).collect();
            v.extend((frame / 2)..(frame / 2 + 256));
            v.extend((frame - 280)..(frame - 24));
            v
        } else {
            (8..frame - 24).collect()
        };
        for &rate in RATES.iter() {
            for &t in ts.iter() {
                if quick && t % 2 == 1 && rate != 44100 {
                    continue;
                }
                jobs.push((m128, rate, 100, 0x10, t, None));
            }
            // MIC bit, other volumes, two toggles closer than one sample: a sparser set of times
            for &t in ts.iter().step_by(if quick { 37 } else { 11 }) {
                jobs.push((m128, rate, 100, 0x08, t, None));
                jobs.push((m128, rate, 200, 0x18, t, None));
                jobs.push((m128, rate, 1, 0x10, t, None));
                jobs.push((m128, rate, 0, 0x10, t, None));
                jobs.push((m128, rate, 100, 0x10, t, Some(0)));
                jobs.push((m128, rate, 100, 0x10, t, Some(40)));
            }
        }
    }
    par_for(jobs.len(), 16, |j| {
        let (m128, rate, vol, bit, t, second) = jobs[j];
        let d = toggle_case(&ctx, m128, rate, vol, bit, t, second);
        if j % 97 == 0 {
            ctx.outcome(d);
        }
    });
    let djobs: Vec<(bool, usize, bool)> = [false, true].iter().flat_map(|m| RATES.iter().flat_map(move |r| [(*m, *r, false), (*m, *r, true)])).collect();
    par_for(djobs.len(), 1, |j| {
        let (m128, rate, ay) = djobs[j];
        drain_schedules(&ctx, m128, rate, ay);
    });
    let ljobs: Vec<(bool, usize)> = [false, true].iter().flat_map(|m| RATES.iter().map(move |r| (*m, *r))).collect();
    par_for(ljobs.len(), 1, |j| {
        let (m128, rate) = ljobs[j];
        long_instruction_frames(&ctx, m128, rate);
    });
    // frame lengths at and around powers of two (queue capacities, masks): floor(rate/50) = p-1, p, p, p+1
    let mut corner_rates: Vec<usize> = Vec::new();
    for p in [256usize, 512, 1024, 2048, 4096] {
        corner_rates.extend([p * 50 - 1, p * 50, p * 50 + 49, p * 50 + 50]);
    }
    let cjobs: Vec<(bool, usize)> = [false, true].iter().flat_map(|m| corner_rates.iter().map(move |r| (*m, *r))).collect();
    par_for(cjobs.len(), 1, |j| {
        let (m128, rate) = cjobs[j];
        long_instruction_frames(&ctx, m128, rate);
        drain_schedules(&ctx, m128, rate, false);
        let frame = spec(m128).frame as usize;
        for t in [8usize, frame / 3, frame / 2 + 7, frame - 200] {
            toggle_case(&ctx, m128, rate, 100, 0x10, t, None);
        }
    });
    ctx.note("corner_rates", json!(corner_rates));
    // the same toggle test on machines that got their program from a snapshot loaded while the previous
    // program was waiting in HALT
    let hjobs: Vec<(bool, u8, usize)> = [false, true].iter().flat_map(|m| [1u8, 2].iter().flat_map(move |p| [8000usize, 44100].iter().map(move |r| (*m, *p, *r)))).collect();
    par_for(hjobs.len(), 1, |j| {
        let (m128, prep, rate) = hjobs[j];
        PREP.with(|p| p.set(prep));
        let frame = spec(m128).frame as usize;
        for t in [8usize, 3000, frame / 3, frame / 2 + 7, frame - 3000, frame - 200] {
            toggle_case(&ctx, m128, rate, 100, 0x10, t, None);
            toggle_case(&ctx, m128, rate, 100, 0x10, t, Some(40));
        }
        PREP.with(|p| p.set(0));
    });
    configuration_corners(&ctx);
    ctx.add_nontrivial(cjobs.len() as u64 * 69);
    ctx.add_nontrivial(jobs.len() as u64 + djobs.len() as u64 * 64 + ljobs.len() as u64);
    ctx.sample(json!({"rate":44100,"m128":false,"toggle_bit":16,"t":34944,"expected_edge_sample":"441 +- 1"}));
    ctx.note("toggle_cases", json!(jobs.len()));
    ctx.note("drain_patterns", json!(djobs.len() * 64));
    ctx.note("not_judged", json!("which frame the few samples belong to that are produced while the last instruction of a frame runs into the next one (they are counted by emulated time)"));
    ctx.finish(
        "sample rates {8000,8001,11025,22050,44100,44099,48000,96000,192000,384000} x {48K,128K}: one OUT (FE) toggling bit 4 with its start at every T of the frame (quick: first, middle and last 256 T), sparser sets for bit 3, volumes {0,1,200} and two toggles closer than one sample; per drained frame floor(rate/50) samples (by emulated time), every sample before/after the edge window equals the level set, the edge within one sample of the OUT, all samples finite and bounded; all 64 drain/no-drain patterns over 6 frames x rates x machines x AY off / on and sounding (three tones + noise at full volume): queue always below two frames' worth, every sample finite and within (0.6 + 3.75) x volume/200; a free-running loop of 23/19/12-T instructions over 60 frames (frame ends overrun by varying amounts), drained at every boundary: exactly floor(rate/50) samples per frame at every rate; the same three families at the 20 rates whose frame length is a power of two 256..4096 or next to one; the toggle test on machines whose program came from a SNA/SZX snapshot loaded while the previous program was waiting in HALT; beeper disabled (EAR/MIC values leave the output at 0) and the AY switched on/off at run time at volumes 40/100/180 (levels keep following the volume). distinct_nontrivial = cases",
        false,
        &["frame clock placed through the hook before each OUT; remaining frame is idle loop", "beeper-only machines for the edge test so the AY path does not blur levels"],
    )
}
