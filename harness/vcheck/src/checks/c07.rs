//! C07 — port addresses reach the right device under Spectrum partial decoding.
//! E-PROD over all 65536 port addresses x {IN, OUT} x machine x Kempston x mouse x extender claim
//! set, executed by the emulated CPU; floating bus at every T of the frame.

use crate::refzx::*;
use crate::rig::{self, Claim, Emu, Opts, VExt};
use crate::vcore::{par_for, Ctx, Tier};
use rustzx_core::zx::{
    joy::kempston::KempstonKey,
    keys::ZXKey,
    mouse::kempston::KempstonMouseButton,
};
use serde_json::json;
use std::collections::BTreeSet;

const CODE: u16 = 0x8000;
// aliases (A8=0) of the device ports used for set-up and restore, outside every extender claim set
const P_AYSEL: u16 = 0xFEFD;
const P_AYDATA: u16 = 0xBEFD;
const P_PAGING: u16 = 0x7EFD;
const P_ULA: u16 = 0xBEFE;
const EXT_BYTE: u8 = 0xE7;
const KEMP_BYTE: u8 = 0x15;
const AY_SEL: u8 = 7;
const AY_VAL: u8 = 0x5A;
const AY_SEL2: u8 = 0x0B;
const AY_VAL2: u8 = 0x6C;
const OUT_DATA: u8 = 0x0B;

#[derive(Clone, Copy, Debug, PartialEq, Eq)]
struct Config {
    m128: bool,
    kempston: bool,
    mouse: bool,
    ext: u8,
}

fn ext_claim(k: u8) -> Claim {
    match k {
        0 => Claim::None,
        1 => Claim::Exact(0xCCCC),
        2 => Claim::Mask(0x0181, 0x0181), // all odd ports with A7=1 and A8=1 (overlaps AY, paging, mouse X/Y)
        _ => Claim::Exact(0x00FE),
    }
}

#[derive(Clone, Copy, Debug, PartialEq, Eq, PartialOrd, Ord, Hash)]
enum Dev {
    Ext,
    Ula,
    Paging,
    AySel,
    AyData,
    Kempston,
    MouseButtons,
    MouseX,
    MouseY,
}

/// (devices that claim, devices that may claim) for an access, from the property statement
fn claims(cfg: &Config, port: u16, write: bool) -> (Vec<Dev>, Vec<Dev>) {
    let mut c = Vec::new();
    let mut may = Vec::new();
    let ext = VExt::new(ext_claim(cfg.ext), EXT_BYTE);
    if ext.claims(port) {
        // the extender receives exactly the ports it claims, ahead of everything else
        return (vec![Dev::Ext], vec![]);
    }
    if port & 1 == 0 {
        c.push(Dev::Ula);
    }
    if cfg.m128 && write && port & 0x8002 == 0 {
        c.push(Dev::Paging);
    }
    if port & 0xC002 == 0xC000 {
        c.push(Dev::AySel);
    }
    if write && port & 0xC002 == 0x8000 {
        c.push(Dev::AyData);
    }
    if cfg.kempston && !write && port & 0x00E0 == 0 {
        c.push(Dev::Kempston);
    }
    if cfg.mouse && !write {
        if port & 0x00FF == 0x00DF {
            if port & 0x0100 == 0 {
                c.push(Dev::MouseButtons);
            } else if port & 0x0400 == 0 {
                c.push(Dev::MouseX);
            } else {
                c.push(Dev::MouseY);
            }
        } else if port & 0x0021 == 0x0001 {
            // "-style": the wider A0=1, A5=0 family is left open by the statement
            may.push(Dev::MouseButtons);
        }
    }
    (c, may)
}

const ROW_PATTERN: [u8; 8] = [0x1E, 0x1D, 0x1B, 0x17, 0x0F, 0x1C, 0x19, 0x13];

fn press_pattern(e: &mut Emu) {
    // row r reads ROW_PATTERN[r] (bit clear = pressed)
    let rows: [[ZXKey; 5]; 8] = [
        [ZXKey::Shift, ZXKey::Z, ZXKey::X, ZXKey::C, ZXKey::V],
        [ZXKey::A, ZXKey::S, ZXKey::D, ZXKey::F, ZXKey::G],
        [ZXKey::Q, ZXKey::W, ZXKey::E, ZXKey::R, ZXKey::T],
        [ZXKey::N1, ZXKey::N2, ZXKey::N3, ZXKey::N4, ZXKey::N5],
        [ZXKey::N0, ZXKey::N9, ZXKey::N8, ZXKey::N7, ZXKey::N6],
        [ZXKey::P, ZXKey::O, ZXKey::I, ZXKey::U, ZXKey::Y],
        [ZXKey::Enter, ZXKey::L, ZXKey::K, ZXKey::J, ZXKey::H],
        [ZXKey::Space, ZXKey::SymShift, ZXKey::M, ZXKey::N, ZXKey::B],
    ];
    for r in 0..8 {
        for b in 0..5 {
            if ROW_PATTERN[r] & (1 << b) == 0 {
                e.send_key(rows[r][b], true);
            }
        }
    }
}

fn ula_expected(port: u16) -> u8 {
    let h = (port >> 8) as u8;
    let mut v = 0x1F;
    for r in 0..8 {
        if h & (1 << r) == 0 {
            v &= ROW_PATTERN[r];
        }
    }
    v
}

struct Machine {
    e: Emu,
    cfg: Config,
    mouse_vals: (u8, u8, u8),
}

fn build(cfg: &Config) -> Machine {
    let mut o = Opts::machine(cfg.m128);
    o.kempston = cfg.kempston;
    o.mouse = cfg.mouse;
    o.sound = false;
    let mut e = rig::emu_stepping(&o);
    e.set_io_extender(VExt::new(ext_claim(cfg.ext), EXT_BYTE));
    press_pattern(&mut e);
    e.send_kempston_key(KempstonKey::Right, true);
    e.send_kempston_key(KempstonKey::Down, true);
    e.send_kempston_key(KempstonKey::Fire, true);
    e.send_mouse_button(KempstonMouseButton::Right, true);
    e.send_mouse_pos_diff(0x21, 0x3C);
    // AY registers through the canonical ports
    rig::cpu_out(&mut e, CODE, P_AYSEL, AY_SEL2);
    rig::cpu_out(&mut e, CODE, P_AYDATA, AY_VAL2);
    rig::cpu_out(&mut e, CODE, P_AYSEL, AY_SEL);
    rig::cpu_out(&mut e, CODE, P_AYDATA, AY_VAL);
    let mouse_vals = if cfg.mouse {
        (rig::cpu_in(&mut e, CODE, 0xFADF), rig::cpu_in(&mut e, CODE, 0xFBDF), rig::cpu_in(&mut e, CODE, 0xFFDF))
    } else {
        (0, 0, 0)
    };
    if let Some(x) = e.io_extender() {
        x.log.clear();
    }
    Machine { e, cfg: *cfg, mouse_vals }
}

fn restore(m: &mut Machine) {
    let e = &mut m.e;
    if e.verif_paging().0 != 0 && m.cfg.m128 {
        rig::cpu_out(e, CODE, P_PAGING, 0);
    }
    let b: u8 = e.border_color().into();
    if b != 0 {
        rig::cpu_out(e, CODE, P_ULA, 0);
    }
    rig::cpu_out(e, CODE, P_AYSEL, AY_SEL2);
    rig::cpu_out(e, CODE, P_AYDATA, AY_VAL2);
    rig::cpu_out(e, CODE, P_AYSEL, AY_SEL);
    rig::cpu_out(e, CODE, P_AYDATA, AY_VAL);
    if let Some(x) = e.io_extender() {
        x.log.clear();
    }
}

fn cfg_name(c: &Config) -> String {
    format!("{}{}{}:ext{}", if c.m128 { "128k" } else { "48k" }, if c.kempston { "+kempston" } else { "" }, if c.mouse { "+mouse" } else { "" }, c.ext)
}

fn dev_name(d: Dev) -> &'static str {
    match d {
        Dev::Ext => "extender",
        Dev::Ula => "ula",
        Dev::Paging => "paging",
        Dev::AySel => "ay-select",
        Dev::AyData => "ay-data",
        Dev::Kempston => "kempston",
        Dev::MouseButtons => "mouse-buttons",
        Dev::MouseX => "mouse-x",
        Dev::MouseY => "mouse-y",
    }
}

/// which devices reacted to a write of OUT_DATA
fn write_effects(m: &mut Machine) -> BTreeSet<Dev> {
    let mut s = BTreeSet::new();
    let e = &mut m.e;
    let b: u8 = e.border_color().into();
    if b != 0 {
        s.insert(Dev::Ula);
    }
    if e.verif_paging().0 != 0 {
        s.insert(Dev::Paging);
    }
    if let Some(x) = e.io_extender() {
        if !x.log.is_empty() {
            s.insert(Dev::Ext);
        }
    }
    // AY: read back through the canonical port (the extender never claims FFFD in these configs
    // except the A7=1 odd family, handled by the caller)
    let rb = rig::cpu_in(e, CODE, P_AYSEL);
    if let Some(x) = e.io_extender() {
        x.log.clear();
    }
    if rb == AY_VAL2 {
        s.insert(Dev::AySel);
    } else if rb == OUT_DATA {
        s.insert(Dev::AyData);
    } else if rb != AY_VAL && rb != EXT_BYTE {
        s.insert(Dev::AyData);
        s.insert(Dev::AySel);
    }
    s
}

fn sweep(ctx: &Ctx, cfg: &Config, lo: u32, hi: u32) {
    let mut m = build(cfg);
    let name = cfg_name(cfg);
    let ay_observable = !VExt::new(ext_claim(cfg.ext), 0).claims(P_AYSEL);
    for port in lo..hi {
        let port = port as u16;
        // ---------------- read
        let (c, may) = claims(cfg, port, false);
        m.e.verif_set_frame_clocks(100); // top border: floating bus is FF
        let got = rig::cpu_in(&mut m.e, CODE, port);
        ctx.add_eval(1);
        let judged = may.is_empty() && c.len() <= 1;
        if judged {
            let want: u8 = match c.first() {
                None => 0xFF,
                Some(Dev::Ext) => EXT_BYTE,
                Some(Dev::Ula) => ula_expected(port) | 0xA0 | (got & 0x40),
                Some(Dev::AySel) => AY_VAL,
                Some(Dev::Kempston) => KEMP_BYTE,
                Some(Dev::MouseButtons) => m.mouse_vals.0,
                Some(Dev::MouseX) => m.mouse_vals.1,
                Some(Dev::MouseY) => m.mouse_vals.2,
                Some(_) => 0xFF,
            };
            if got != want {
                let who = c.first().map(|d| dev_name(*d)).unwrap_or("nobody(floating-bus)");
                ctx.violation(
                    &format!("C07:read:{}:{}", who, if cfg.m128 { "128k" } else { "48k" }),
                    &format!("[{}] IN from port {:04x} returned {:02x}; the only device selected is {} which answers {:02x}", name, port, got, who, want),
                    json!({"kind":"port","m128":cfg.m128,"kempston":cfg.kempston,"mouse":cfg.mouse,"ext":cfg.ext,"port":port,"write":false}),
                );
            }
        }
        if let Some(x) = m.e.io_extender() {
            let called = !x.log.is_empty();
            x.log.clear();
            if called != (c.first() == Some(&Dev::Ext)) {
                ctx.violation(
                    "C07:extender:read-routing",
                    &format!("[{}] IN from port {:04x}: extender {} although it {} the port", name, port, if called { "was called" } else { "was not called" }, if called { "does not claim" } else { "claims" }),
                    json!({"kind":"port","m128":cfg.m128,"kempston":cfg.kempston,"mouse":cfg.mouse,"ext":cfg.ext,"port":port,"write":false}),
                );
            }
        }
        // ---------------- write
        let (c, may) = claims(cfg, port, true);
        rig::cpu_out(&mut m.e, CODE, port, OUT_DATA);
        ctx.add_eval(1);
        let mut eff = write_effects(&mut m);
        if !ay_observable {
            eff.remove(&Dev::AySel);
            eff.remove(&Dev::AyData);
        }
        let judged = may.is_empty() && c.len() <= 1;
        if judged {
            let mut want: BTreeSet<Dev> = c.iter().cloned().collect();
            if !ay_observable {
                want.remove(&Dev::AySel);
                want.remove(&Dev::AyData);
            }
            if eff != want {
                let w: Vec<&str> = want.iter().map(|d| dev_name(*d)).collect();
                let g: Vec<&str> = eff.iter().map(|d| dev_name(*d)).collect();
                ctx.violation(
                    &format!("C07:write:{}->{}:{}", if w.is_empty() { "nobody".to_string() } else { w.join("+") }, if g.is_empty() { "nobody".to_string() } else { g.join("+") }, if cfg.m128 { "128k" } else { "48k" }),
                    &format!("[{}] OUT to port {:04x}: reached {:?}, the only device selected is {:?}", name, port, g, w),
                    json!({"kind":"port","m128":cfg.m128,"kempston":cfg.kempston,"mouse":cfg.mouse,"ext":cfg.ext,"port":port,"write":true}),
                );
            }
        }
        ctx.outcome(((got as u64) << 16) ^ crate::vcore::fnv(format!("{:?}{:?}", c, eff).as_bytes()));
        if !eff.is_empty() {
            restore(&mut m);
        }
    }
}

/// Floating bus: unclaimed port FF (odd, A5=1, A7..: 0xFFFF? use 0x40FF: odd, A15=0 A14=1 -> no AY,
/// A5=1 -> no kempston/mouse, A1=1 -> no paging) read at every T of the frame.
fn floating_bus(ctx: &Ctx, m128: bool, shadow: bool) {
    let sp = spec(m128);
    // 80FF: odd (not ULA), A15=1 (no paging), A14=0 and A1=1 (not AY), A5=1 (no Kempston devices),
    // high byte in uncontended memory so the sampling instant sweeps every T
    let port = 0x80FFu16;
    let frame = sp.frame as usize;
    let chunks = 32usize;
    par_for(chunks, 1, |c| {
        let mut o = Opts::machine(m128);
        o.sound = false;
        let mut e = rig::emu_stepping(&o);
        // position-coded non-FF screen bytes in bank 5 (and bank 7 with a different code)
        let code = |bank: u8, off: usize| -> u8 { ((off as u32 * 5 + bank as u32 * 64 + (off as u32 >> 8)) % 251) as u8 };
        if m128 {
            rig::cpu_out(&mut e, CODE, 0x7FFD, 7);
            let b7: Vec<u8> = (0..6912).map(|i| code(7, i)).collect();
            rig::poke(&mut e, 0xC000, &b7);
            rig::cpu_out(&mut e, CODE, 0x7FFD, if shadow { 8 } else { 0 });
        }
        let b5: Vec<u8> = (0..6912).map(|i| code(5, i)).collect();
        rig::poke(&mut e, 0x4000, &b5);
        let shown = if shadow { 7 } else { 5 };
        let mut hits_per_line = vec![0u32; 192];
        let mut seen_per_line: Vec<std::collections::BTreeSet<u8>> = vec![std::collections::BTreeSet::new(); 192];
        for t in (c * frame / chunks)..((c + 1) * frame / chunks) {
            e.verif_set_frame_clocks(t);
            let got = rig::cpu_in(&mut e, CODE, port);
            ctx.add_eval(1);
            // the I/O read happens a few T after the instruction start: IN A,(C) = 4+4 fetch, then the
            // 4-T port cycle: sample somewhere in [t+8, t+12]; the +-8 T guard band absorbs it
            let ts = t as i64 + 10;
            let rel = ts - sp.first_pixel as i64;
            let line = if rel >= 0 { rel / sp.line as i64 } else { -1 };
            let x = if rel >= 0 { rel % sp.line as i64 } else { -1 };
            let in_fetch_strict = line >= 0 && line < 192 && x >= 8 && x < 128 - 8;
            let outside_strict = rel < -8 || line >= 192 && !(line == 192 && x < 8) || (line >= 0 && line < 192 && x >= 128 + 8 && x < sp.line as i64 - 8);
            // bytes seen anywhere from 8 T before to 8 T after the line's fetch window count for the
            // "every fetched byte becomes visible" clause
            {
                let rel2 = ts + 8 - sp.first_pixel as i64;
                if rel2 >= 0 {
                    let l2 = (rel2 / sp.line as i64) as usize;
                    let x2 = rel2 % sp.line as i64;
                    if l2 < 192 && x2 < 128 + 16 && got != 0xFF {
                        seen_per_line[l2].insert(got);
                    }
                }
            }
            if outside_strict && got != 0xFF {
                ctx.violation(
                    &format!("C07:floating-bus:not-FF-outside-fetch:{}", if m128 { "128k" } else { "48k" }),
                    &format!("{} machine (shadow screen {}): unclaimed port read at T={} returned {:02x} while the ULA is not fetching picture data", if m128 { "128K" } else { "48K" }, shadow, t, got),
                    json!({"kind":"floating","m128":m128,"shadow":shadow,"t":t}),
                );
            }
            if in_fetch_strict && got != 0xFF {
                let y = line as usize;
                let bm = ((y & 0xC0) << 5) | ((y & 7) << 8) | ((y & 0x38) << 2);
                let at = 0x1800 + (y >> 3) * 32;
                let valid: Vec<u8> = (0..32).map(|k| code(shown, bm + k)).chain((0..32).map(|k| code(shown, at + k))).collect();
                if valid.contains(&got) {
                    hits_per_line[y] += 1;
                    seen_per_line[y].insert(got);
                } else {
                    let other = if shown == 5 { 7 } else { 5 };
                    let from_other: Vec<u8> = (0..32).map(|k| code(other, bm + k)).chain((0..32).map(|k| code(other, at + k))).collect();
                    let which = if m128 && from_other.contains(&got) { "byte-of-the-bank-not-displayed" } else { "byte-not-of-this-line" };
                    ctx.violation(
                        &format!("C07:floating-bus:{}:{}", which, if m128 { "128k" } else { "48k" }),
                        &format!("{} machine (shadow screen {}): unclaimed port read at T={} (picture line {}) returned {:02x}, which is not a bitmap/attribute byte of that line of the displayed screen (bank {})", if m128 { "128K" } else { "48K" }, shadow, t, y, got, shown),
                        json!({"kind":"floating","m128":m128,"shadow":shadow,"t":t}),
                    );
                }
            }
            ctx.outcome((got as u64) << 8 | 0x77);
        }
        // every complete picture line inside this chunk must show display bytes at least once
        let t_lo = c * frame / chunks;
        let t_hi = (c + 1) * frame / chunks;
        for y in 0..192usize {
            let l0 = sp.first_pixel as usize + y * sp.line as usize;
            if l0 >= t_lo + 24 && l0 + 128 + 24 < t_hi {
                // every bitmap and attribute byte of the line is fetched once per line, so every one of
                // them must be seen by some read inside the window (reads up to 8 T outside the window edges count: guard band)
                let bm = ((y & 0xC0) << 5) | ((y & 7) << 8) | ((y & 0x38) << 2);
                let at = 0x1800 + (y >> 3) * 32;
                let missing: Vec<usize> = (0..32).filter(|k| !seen_per_line[y].contains(&code(shown, bm + k)) || !seen_per_line[y].contains(&code(shown, at + k))).collect();
                if !missing.is_empty() && hits_per_line[y] != 0 {
                    ctx.violation(
                        &format!("C07:floating-bus:fetched-bytes-never-visible:{}", if m128 { "128k" } else { "48k" }),
                        &format!("picture line {}: the display/attribute bytes of columns {:?} are fetched by the ULA but no unclaimed-port read at any T of the line returned them", y, missing),
                        json!({"kind":"floating","m128":m128,"shadow":shadow,"t":l0}),
                    );
                }
            }
            if l0 >= t_lo + 16 && l0 + 128 + 16 < t_hi && hits_per_line[y] == 0 {
                ctx.violation(
                    &format!("C07:floating-bus:never-shows-display-bytes:{}", if m128 { "128k" } else { "48k" }),
                    &format!("picture line {}: no unclaimed-port read during its fetch window returned a display byte", y),
                    json!({"kind":"floating","m128":m128,"shadow":shadow,"t":l0}),
                );
            }
        }
    });
}

/// EAR on bit 6 follows the tape level both ways
fn ear_bit(ctx: &Ctx) {
    use crate::tapemodel::*;
    let mut o = Opts::k48();
    o.sound = false;
    let mut e = rig::emu_stepping(&o);
    let img = tap_image(&[std_block(0xFF, &[1, 2, 3])]);
    let _ = e.load_tape(rustzx_core::host::Tape::Tap(rig::VAsset::new(img)));
    e.play_tape();
    let mut seen: std::collections::BTreeMap<bool, u8> = std::collections::BTreeMap::new();
    for k in 0..400 {
        let v = rig::cpu_in(&mut e, CODE, 0xFEFE);
        let lvl = e.verif_tape_state().map(|s| s.curr_bit).unwrap_or(false);
        seen.entry(lvl).or_insert(v & 0x40);
        if let Some(prev) = seen.get(&lvl) {
            if *prev != v & 0x40 {
                ctx.violation("C07:ear:bit6-inconsistent", &format!("bit 6 of the ULA port does not follow the tape level (read {})", k), json!({"kind":"ear"}));
                return;
            }
        }
        e.verif_set_frame_clocks(100);
        for _ in 0..60 {
            rig::cpu_in(&mut e, CODE, 0xFEFE);
        }
    }
    if seen.len() == 2 && seen[&false] == seen[&true] {
        ctx.violation("C07:ear:bit6-stuck", "bit 6 of the ULA port is the same for both tape levels", json!({"kind":"ear"}));
    }
    ctx.note("ear_levels_seen", json!(seen.len()));
}

/// What an ULA write does with each data bit: bits 0-2 border, bit 3 MIC, bit 4 speaker, bits 5-7
/// nothing. All 256 data bytes to three even ports on both machines; MIC and speaker are observed
/// through the audio level they hold over the following frame (four distinct levels, ordered
/// none < MIC < speaker < both, that depend on bits 3 and 4 only).
fn ula_write_data_bits(ctx: &Ctx) {
    for m128 in [false, true] {
        let mut o = Opts::machine(m128);
        o.sound = true;
        o.beeper = true;
        o.ay = false;
        o.rate = 8000;
        let mut e = rig::emu_stepping(&o);
        rig::poke(&mut e, 0x9000, &[0xF3, 0x18, 0xFE]);
        let mut level = |e: &mut Emu, port: u16, d: u8| -> (Option<f32>, u8) {
            e.set_debug_interface(rig::VDebug::always());
            rig::cpu_out(e, CODE, port, d);
            e.verif_cpu().regs.set_pc(0x9000);
            e.set_debug_interface(rig::VDebug::at(&[]));
            let _ = e.emulate_frames(std::time::Duration::from_secs(100));
            rig::drain_audio(e);
            let _ = e.emulate_frames(std::time::Duration::from_secs(100));
            let a = rig::drain_audio(e);
            let l = a.first().map(|s| s.0);
            let steady = !a.is_empty() && a.iter().all(|s| Some(s.0) == l && s.1 == s.0);
            (if steady { l } else { None }, e.border_color() as u8)
        };
        let mname = if m128 { "128k" } else { "48k" };
        let mut base = [0f32; 4];
        for k in 0..4u8 {
            let (l, _) = level(&mut e, 0x00FE, k << 3);
            base[k as usize] = l.unwrap_or(-1.0);
        }
        ctx.add_eval(4);
        if !(base[0] == 0.0 && base[0] < base[1] && base[1] < base[2] && base[2] < base[3]) {
            ctx.violation(
                &format!("C07:ula-write:levels:{}", mname),
                &format!("{}: the audio level held after OUT (FE) with data 00/08/10/18 is {:?}: expected silence < MIC < speaker < both", mname, base),
                json!({"kind":"ula-write","m128":m128}),
            );
            continue;
        }
        for port in [0x00FEu16, 0x553E, 0xFFFE] {
            for d in 0..=255u8 {
                let (l, b) = level(&mut e, port, d);
                ctx.add_eval(1);
                let want = base[((d >> 3) & 3) as usize];
                if b != d & 7 {
                    ctx.violation(
                        &format!("C07:ula-write:border:{}", mname),
                        &format!("{}: OUT ({:04x}),{:02x}: border colour reported {} instead of {}", mname, port, d, b, d & 7),
                        json!({"kind":"ula-write","m128":m128,"port":port,"data":d}),
                    );
                }
                if l != Some(want) {
                    ctx.violation(
                        &format!("C07:ula-write:mic-speaker:{}", mname),
                        &format!("{}: OUT ({:04x}),{:02x}: audio level held afterwards {:?}, MIC (bit 3) = {} and speaker (bit 4) = {} give {}", mname, port, d, l, (d >> 3) & 1, (d >> 4) & 1, want),
                        json!({"kind":"ula-write","m128":m128,"port":port,"data":d}),
                    );
                }
                ctx.outcome(0x07A0 ^ (want.to_bits() as u64) ^ ((b as u64) << 40));
            }
        }
    }
}

pub fn run(tier: Tier, seed: u64, replay: Option<String>) -> i32 {
    let ctx = Ctx::new("C07", tier, seed, "model_checking");
    if let Some(path) = replay {
        let v: serde_json::Value = serde_json::from_slice(&rig::read_file(&path)).expect("replay json");
        let c = &v["case"];
        if c["kind"] == "port" {
            let cfg = Config { m128: c["m128"].as_bool().unwrap(), kempston: c["kempston"].as_bool().unwrap(), mouse: c["mouse"].as_bool().unwrap(), ext: c["ext"].as_u64().unwrap() as u8 };
            let p = c["port"].as_u64().unwrap() as u32;
            println!("replay: config {} port {:04x}: claims(read)={:?} claims(write)={:?}", cfg_name(&cfg), p, claims(&cfg, p as u16, false), claims(&cfg, p as u16, true));
            sweep(&ctx, &cfg, p, p + 1);
        } else if c["kind"] == "ula-write" {
            ula_write_data_bits(&ctx);
        } else if c["kind"] == "floating" {
            floating_bus(&ctx, c["m128"].as_bool().unwrap(), c["shadow"].as_bool().unwrap());
        } else {
            ear_bit(&ctx);
        }
        let n = ctx.violation_classes();
        println!("replay: {} violation class(es) reproduced", n);
        return (n > 0) as i32;
    }
    let mut cfgs = Vec::new();
    for m128 in [false, true] {
        for kempston in [false, true] {
            for mouse in [false, true] {
                for ext in 0..4u8 {
                    if !tier.is_thorough() && ext != 0 && (kempston != mouse) {
                        continue;
                    }
                    cfgs.push(Config { m128, kempston, mouse, ext });
                }
            }
        }
    }
    let slices = 16u32;
    let jobs: Vec<(usize, u32)> = (0..cfgs.len()).flat_map(|i| (0..slices).map(move |s| (i, s))).collect();
    par_for(jobs.len(), 1, |j| {
        let (i, s) = jobs[j];
        sweep(&ctx, &cfgs[i], s * 65536 / slices, (s + 1) * 65536 / slices);
    });
    ctx.add_states((cfgs.len() * 65536) as u64);
    ctx.add_transitions((cfgs.len() * 65536 * 2) as u64);
    ctx.add_traces((cfgs.len() * 65536 * 2) as u64);
    floating_bus(&ctx, false, false);
    floating_bus(&ctx, true, false);
    floating_bus(&ctx, true, true);
    ear_bit(&ctx);
    ula_write_data_bits(&ctx);
    ctx.note("configurations", json!(cfgs.iter().map(cfg_name).collect::<Vec<_>>()));
    ctx.sample(json!({"port":"0x7FFD","config":"128k","claims_write":["paging"],"claims_read":[]}));
    ctx.note("not_judged", json!("addresses selecting two devices (e.g. even ports with A15=0,A1=0 on the 128K; even ports with A15=A14=1,A1=0), the wider A0=1,A5=0 family the word '-style' leaves open for the mouse, the phase of the floating bus inside the fetch window (+-8 T guard band)"));
    ctx.finish(
        "all 65536 port addresses x {IN A,(C), OUT (C),A executed by the emulated CPU} x {48K,128K} x Kempston on/off x mouse on/off x extender claim set {none, {CCCC}, odd ports with A7=1, {00FE}}; device read-back values pairwise distinct (key pattern with 8 distinct half-rows, Kempston 15h, mouse counters, AY register 5Ah, extender E7h, floating bus FFh in the border), write effects observed through border_color, the paging latch, AY read-back and the extender log; three-valued claim table from the statement, a port is judged when exactly one device claims it and none may; ULA write data bits: all 256 data bytes to three even ports on both machines, border colour reported and the audio level held over the next frame (MIC bit 3, speaker bit 4, four ordered levels); floating bus: an unclaimed port read at every T of the frame on 48K, 128K and 128K with the shadow screen displayed. states = (configuration, port) pairs",
        true,
        &["claim table transcribed from the property statement", "frame clock placed through the hook for the floating-bus sweep"],
    )
}
