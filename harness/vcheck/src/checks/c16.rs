//! C16 — emulation is deterministic and independent of how the host drives it.
//! Schedule enumeration with a differential oracle: the default driving (one frame per call,
//! stopwatch 0, sound on, audio drained, in-memory assets) defines a digest per completed frame;
//! every deviation must reproduce the same digest at every frame boundary it stops at.

use crate::rig::{self, Opts, VAsset, VCtx, VDebug, VExt, VFrame, VStopwatch};
use crate::vcore::{explore_dev, fnv, fnv_mix, par_for, Ctx, Dev, Tier};
use rustzx_core::host::{BufferCursor, Host, HostContext, Snapshot, Tape};
use rustzx_core::zx::keys::ZXKey;
use rustzx_core::{EmulationMode, EmulationStopReason, Emulator};
use rustzx_utils::io::{DynamicAsset, DynamicAssetImpl, FileAsset, GzipAsset};
use serde_json::json;
use std::collections::BTreeMap;
use std::time::Duration;

impl DynamicAssetImpl for VAsset {}

pub struct DCtx;
impl HostContext<DHost> for DCtx {
    fn frame_buffer_context(&self) {}
}
/// Host whose tape asset is the dynamic asset of rustzx-utils, so every asset implementation can
/// deliver the same bytes
pub struct DHost;
impl Host for DHost {
    type Context = DCtx;
    type TapeAsset = DynamicAsset;
    type FrameBuffer = VFrame;
    type EmulationStopwatch = VStopwatch;
    type IoExtender = VExt;
    type DebugInterface = VDebug;
}
type DEmu = Emulator<DHost>;

#[derive(Clone, Copy, Debug, PartialEq, Eq)]
pub enum Scenario {
    RomBoot,
    RomKeys,
    TapeFast,
    TapeReal,
    Tune,
    /// an SZX snapshot (zlib pages, AY/keyboard/mouse chunks) of a program that keeps writing the
    /// screen and the border
    SzxSnap,
    /// HALT loop in contended RAM that stores R after every wake-up (IM 1): the halted cycles are
    /// contended M1 fetches, whatever the speed mode
    HaltContended,
    /// fast load on, a one-block tape playing in real time from the start: it runs to its end
    /// (the deck stops and rewinds itself) around frame 152, around frame 170 the program calls ROM
    /// LD-BYTES: whether the trap fast-loads must not depend on how many calls the 200 frames are cut into
    TapeEndTrap,
    /// a program that calls ROM LD-BYTES timed so that the instruction reaching the fast-load trap
    /// address ends `offset` T-states after (+) / before (-) the end of the second frame: the event
    /// raised by an instruction and the end of a frame (and of a call) coincide
    TrapEdge(i16),
}

#[derive(Clone, Copy, Debug, PartialEq, Eq)]
pub enum AssetKind {
    Buffer,
    Chunk(usize),
    File,
    Gzip,
}

#[derive(Clone, Debug)]
pub enum Driving {
    Default,
    /// FrameCount(n) calls; `true`: every stopwatch reading is past the limit
    Composition(Vec<usize>, bool),
    MaxMode(Vec<usize>),
    Breakpoints(Vec<u16>),
    BreakAlways,
    SoundOff,
    /// sound generation switched by the host at frame boundaries: bit (frame mod 16) = enabled
    SoundSwitch(u32),
    Drain(u32),
    Asset(AssetKind),
}

fn tape_bytes() -> Vec<u8> {
    rig::gunzip(&rig::read_file("/repo/rustzx-test/test_data/simple_tape.tap.gz"))
}

fn make_asset(bytes: &[u8], kind: AssetKind, tag: &str) -> DynamicAsset {
    match kind {
        AssetKind::Buffer => DynamicAsset::from(BufferCursor::new(bytes.to_vec())),
        AssetKind::Chunk(n) => DynamicAsset::from(VAsset::new(bytes.to_vec()).chunked(n)),
        AssetKind::File => {
            let dir = "/verif/harness/target/c16-tmp";
            let _ = std::fs::create_dir_all(dir);
            let path = format!("{}/{}-{:?}.bin", dir, tag, std::thread::current().id());
            std::fs::write(&path, bytes).expect("write temp asset");
            let f = std::fs::File::open(&path).expect("open temp asset");
            let _ = std::fs::remove_file(&path);
            DynamicAsset::from(FileAsset::from(f))
        }
        AssetKind::Gzip => {
            use std::io::Write;
            let mut gz = flate2::write::GzEncoder::new(Vec::new(), flate2::Compression::default());
            gz.write_all(bytes).unwrap();
            let z = gz.finish().unwrap();
            DynamicAsset::from(GzipAsset::new(std::io::Cursor::new(z)).expect("gzip"))
        }
    }
}

/// SNA whose program waits `delay` T-states (delay >= 60) and calls LD-BYTES for the header block of
/// the test tape, then stores R and loops.
fn trap_program_sna(m128: bool, delay: u64) -> Vec<u8> {
    use crate::formats::{sna128, sna48, MState};
    // DI(4); LD BC,k(10); loop: DEC BC(6) LD A,B(4) OR C(4) JR NZ(12/7): 26 per pass, 21 the last;
    // then 4-T NOPs and a phase group of 0/6/7/13 T (INC HL / LD A,n)
    let fixed = 4 + 10;
    let mut k = ((delay - fixed - 21) / 26).max(2) - 1; // passes (>= 1), leaves a rest of 26..52 T
    let mut rest = delay - fixed - (26 * (k - 1) + 21);
    while rest < 13 {
        k -= 1;
        rest += 26;
    }
    let phase_t = [0u64, 13, 6, 7][(rest % 4) as usize];
    let nops = (rest - phase_t) / 4;
    let mut code: Vec<u8> = vec![0xF3, 0x01, k as u8, (k >> 8) as u8, 0x0B, 0x78, 0xB1, 0x20, 0xFB];
    match phase_t {
        6 => code.push(0x23),
        7 => code.extend([0x3E, 0x00]),
        13 => code.extend([0x23, 0x3E, 0x00]),
        _ => {}
    }
    code.extend(std::iter::repeat(0x00).take(nops as usize));
    // LD IX,9000; LD DE,17; XOR A (flag 00, header); SCF; CALL 0556; LD A,R; LD (A000),A; JR $
    code.extend([0xDD, 0x21, 0x00, 0x90, 0x11, 0x11, 0x00, 0xAF, 0x37, 0xCD, 0x56, 0x05, 0xED, 0x5F, 0x32, 0x00, 0xA0, 0x18, 0xFE]);
    let mut s = MState::new(m128, 1);
    s.port7ffd = 0x10;
    s.regs.pc = 0x8000;
    s.regs.sp = 0xBF00;
    s.regs.iff1 = false;
    s.regs.iff2 = false;
    s.regs.im = 1;
    s.banks[2][..code.len()].copy_from_slice(&code);
    if m128 {
        sna128(&s)
    } else {
        sna48(&s)
    }
}

/// absolute T (from the load) at which the trap address is reached for a given delay, measured on
/// a stepping emulator; linear in the delay (nothing on the way is contended)
fn trap_time(m128: bool, delay: u64) -> Option<u64> {
    let mut o = Opts::machine(m128);
    o.sound = false;
    o.fastload = false;
    let mut e = rig::emu_stepping(&o);
    e.load_snapshot(Snapshot::Sna(VAsset::new(trap_program_sna(m128, delay)))).ok()?;
    for _ in 0..200_000 {
        rig::step(&mut e);
        if e.verif_cpu().regs.get_pc() == 0x056B {
            // absolute: the emulator was fresh (clock 0) when the snapshot was loaded, as in build()
            return Some(rig::abs_t(&e, m128));
        }
    }
    None
}

fn trap_delay_for(m128: bool, offset: i16) -> u64 {
    static BASE: std::sync::OnceLock<[Option<u64>; 2]> = std::sync::OnceLock::new();
    let base = BASE.get_or_init(|| [trap_time(false, 1000), trap_time(true, 1000)]);
    let frame: i64 = if m128 { 70908 } else { 69888 };
    let t1000 = base[m128 as usize].unwrap_or(1200) as i64;
    (1000 + (2 * frame + offset as i64) - t1000).max(100) as u64
}

fn build(sc: Scenario, m128: bool, asset: AssetKind) -> DEmu {
    let mut o = Opts::machine(m128);
    o.sound = true;
    o.ay = m128;
    o.fastload = matches!(sc, Scenario::TapeFast | Scenario::TrapEdge(_) | Scenario::TapeEndTrap);
    o.autoload = matches!(sc, Scenario::TapeFast | Scenario::TapeReal);
    let mut e = Emulator::<DHost>::new(rig::settings(&o), DCtx).ok().expect("Emulator::new");
    match sc {
        Scenario::RomBoot | Scenario::RomKeys => {}
        Scenario::TapeFast | Scenario::TapeReal => {
            e.load_tape(Tape::Tap(make_asset(&tape_bytes(), asset, "tape"))).ok().expect("load_tape");
            if sc == Scenario::TapeReal {
                e.play_tape();
            }
        }
        Scenario::HaltContended => {
            use crate::formats::{sna128, sna48, MState};
            // at 6000h: EI; loop: HALT; LD A,R; LD (HL),A; INC L; JR loop
            let code = [0xFBu8, 0x76, 0xED, 0x5F, 0x77, 0x2C, 0x18, 0xF9];
            let mut st = MState::new(m128, 2);
            st.port7ffd = 0x10;
            st.regs.pc = 0x6000;
            st.regs.sp = 0xBF00;
            st.regs.hl = 0xA000;
            st.regs.iff1 = false;
            st.regs.iff2 = false;
            st.regs.im = 1;
            st.banks[5][0x2000..0x2000 + code.len()].copy_from_slice(&code);
            let f = if m128 { sna128(&st) } else { sna48(&st) };
            e.load_snapshot(Snapshot::Sna(make_asset(&f, AssetKind::Buffer, "halt"))).ok().expect("load_snapshot");
        }
        Scenario::TapeEndTrap => {
            use crate::formats::{sna128, sna48, MState};
            let blk = crate::tapemodel::std_block(0xFF, &[0x11, 0x22, 0x33, 0x44]);
            e.load_tape(Tape::Tap(make_asset(&crate::tapemodel::tap_image(&[blk]), asset, "tape"))).ok().expect("load_tape");
            // DI; LD DE,7; outer: LD BC,0; inner: DEC BC; LD A,B; OR C; JR NZ,inner; DEC DE; LD A,D; OR E; JR NZ,outer
            // (7 x 1.7M T = 170 frames); LD IX,9000; LD DE,4; LD A,FF; SCF; CALL 0556; LD A,A5; LD (A000),A; JR $
            let code = [
                0xF3, 0x11, 0x07, 0x00, 0x01, 0x00, 0x00, 0x0B, 0x78, 0xB1, 0x20, 0xFB, 0x1B, 0x7A, 0xB3, 0x20, 0xF3, 0xDD, 0x21, 0x00, 0x90, 0x11, 0x04, 0x00, 0x3E, 0xFF, 0x37, 0xCD, 0x56, 0x05, 0x3E, 0xA5, 0x32, 0x00,
                0xA0, 0x18, 0xFE,
            ];
            let mut st = MState::new(m128, 1);
            st.port7ffd = 0x10;
            st.regs.pc = 0x8000;
            st.regs.sp = 0xBF00;
            st.regs.iff1 = false;
            st.regs.iff2 = false;
            st.regs.im = 1;
            st.banks[2][..code.len()].copy_from_slice(&code);
            let f = if m128 { sna128(&st) } else { sna48(&st) };
            e.load_snapshot(Snapshot::Sna(make_asset(&f, AssetKind::Buffer, "endtrap"))).ok().expect("load_snapshot");
            e.play_tape();
        }
        Scenario::TrapEdge(offset) => {
            e.load_tape(Tape::Tap(make_asset(&tape_bytes(), asset, "tape"))).ok().expect("load_tape");
            let f = trap_program_sna(m128, trap_delay_for(m128, offset));
            e.load_snapshot(Snapshot::Sna(make_asset(&f, AssetKind::Buffer, "trap"))).ok().expect("load_snapshot");
        }
        Scenario::SzxSnap => {
            use crate::formats::{szx, MState, SzxOpts};
            let mut st = MState::new(m128, 3);
            st.port7ffd = if m128 { 0x17 } else { 0 };
            st.regs.pc = 0x8000;
            st.regs.sp = 0xBF00;
            st.regs.iff1 = true;
            st.regs.iff2 = true;
            st.regs.im = 1;
            // loop: LD HL,4000; l1: INC (HL); INC HL; LD A,H; OUT (FE),A; CP 5B; JR NZ,l1; JR loop
            let code = [0x21, 0x00, 0x40, 0x34, 0x23, 0x7C, 0xD3, 0xFE, 0xFE, 0x5B, 0x20, 0xF7, 0x18, 0xF2];
            st.banks[2][..code.len()].copy_from_slice(&code);
            let f = szx(&st, &SzxOpts { compressed: true, unknown_chunks: true, ..SzxOpts::default() });
            e.load_snapshot(Snapshot::Szx(make_asset(&f, asset, "szx"))).ok().expect("load_snapshot szx");
        }
        Scenario::Tune => {
            let f = rig::gunzip(&rig::read_file(&format!("/repo/rustzx-test/test_data/sound.{}.sna.gz", if m128 { "128k" } else { "48k" })));
            e.load_snapshot(Snapshot::Sna(make_asset(&f, asset, "tune"))).ok().expect("load_snapshot");
        }
    }
    e
}

fn digest(e: &mut DEmu, m128: bool, audio: Option<&[(f32, f32)]>) -> u64 {
    let v = rig::regs_view(e.verif_cpu());
    let mut h = fnv(format!("{:?}", v).as_bytes());
    let banks = if m128 { 8 } else { 3 };
    for b in 0..banks {
        h = fnv_mix(h, fnv(e.verif_ram_bank(b)));
    }
    let p = e.verif_paging();
    h = fnv_mix(h, p.0 as u64 | (p.1 as u64) << 8 | (p.2 as u64) << 16);
    h = fnv_mix(h, e.verif_frame_clocks() as u64);
    h = fnv_mix(h, fnv(&e.screen_buffer().pix));
    h = fnv_mix(h, fnv(&e.border_buffer().pix));
    let bc: u8 = e.border_color().into();
    h = fnv_mix(h, bc as u64);
    if let Some(a) = audio {
        for s in a {
            h = fnv_mix(h, (s.0.to_bits() as u64) << 32 | s.1.to_bits() as u64);
        }
    }
    h
}

fn drain(e: &mut DEmu) -> Vec<(f32, f32)> {
    let mut v = Vec::new();
    while let Some(s) = e.next_audio_sample() {
        v.push((s.left, s.right));
    }
    v
}

fn apply_inputs(e: &mut DEmu, sc: Scenario, frame: u64) {
    if sc == Scenario::RomKeys {
        // host inputs applied at frame boundaries
        match frame {
            0 => e.send_key(ZXKey::J, true),
            2 => e.send_key(ZXKey::J, false),
            3 => e.send_key(ZXKey::SymShift, true),
            4 => e.send_key(ZXKey::P, true),
            5 => {
                e.send_key(ZXKey::P, false);
                e.send_key(ZXKey::SymShift, false)
            }
            _ => {}
        }
    }
}

/// Returns per completed-frame digests: (state digest, state+audio digest when comparable)
fn run_driving(sc: Scenario, m128: bool, k: usize, d: &Driving, dev: Option<&mut Dev>) -> Result<BTreeMap<u64, (u64, Option<u64>)>, String> {
    let asset = if let Driving::Asset(a) = d { *a } else { AssetKind::Buffer };
    let mut e = build(sc, m128, asset);
    let mut out = BTreeMap::new();
    rig::stopwatch_set(vec![], 0);
    let limit = Duration::from_millis(20);
    let mut dev = dev;
    match d {
        Driving::SoundOff => e.set_sound(false),
        Driving::Breakpoints(pcs) => e.set_debug_interface(VDebug::at(pcs)),
        Driving::BreakAlways => e.set_debug_interface(VDebug::always()),
        _ => {}
    }
    let per_frame_inputs = !matches!(d, Driving::Composition(..) | Driving::MaxMode(_));
    let mut call = 0usize;
    apply_inputs(&mut e, sc, 0);
    let mut guard = 0u64;
    while (e.verif_total_frames() as usize) < k {
        guard += 1;
        if guard > 3_000_000 {
            return Err("driving never reaches the frame count".into());
        }
        match d {
            Driving::Composition(parts, late) => {
                let n = parts.get(call).copied().unwrap_or(1);
                e.set_speed(EmulationMode::FrameCount(n));
                rig::stopwatch_set(vec![], if *late { limit.as_nanos() as u64 + 1 } else { 0 });
            }
            Driving::MaxMode(_) => {
                e.set_speed(EmulationMode::Max);
                // script: one ternary choice per stopwatch reading
                let mut script = Vec::new();
                for _ in 0..(2 * k + 4) {
                    let c = match dev.as_mut() {
                        Some(dv) => dv.choose(3),
                        None => 0,
                    };
                    script.push(match c {
                        0 => 0u64,
                        1 => limit.as_nanos() as u64,
                        _ => limit.as_nanos() as u64 + 1,
                    });
                }
                rig::stopwatch_set(script, limit.as_nanos() as u64 + 1);
            }
            _ => {}
        }
        if let Driving::SoundSwitch(p) = d {
            e.set_sound(p & (1 << (e.verif_total_frames() % 16)) != 0);
        }
        let before = e.verif_total_frames();
        let info = e.emulate_frames(limit).map_err(|er| format!("emulate_frames error {:?}", er))?;
        call += 1;
        let after = e.verif_total_frames();
        if matches!(d, Driving::MaxMode(_)) && after == before {
            return Err("Max-mode call emulated no frame".into());
        }
        if info.stop_reason == EmulationStopReason::Breakpoint {
            if after > before {
                // the instruction that completed a frame also hit the breakpoint: the host is at a
                // frame boundary (plus the overrun) exactly as after a completed call, so it drains
                // the finished frame's audio here as the default driving does; no digest is taken
                // (the call did not report a completed frame)
                let _ = drain(&mut e);
            }
            continue;
        }
        if let Driving::Composition(parts, _) = d {
            // how many frames a FrameCount(n) call emulates is part of the result (host inputs are
            // applied between calls): it must be n whatever the stopwatch says
            let n = parts.get(call - 1).copied().unwrap_or(1) as u64;
            if after - before != n {
                return Err(format!("a FrameCount({}) call emulated {} frame(s) ({})", n, after - before, if info.stop_reason == EmulationStopReason::Timeout { "stopped by the stopwatch" } else { "reported as completed" }));
            }
        }
        // at a frame boundary
        let drained = match d {
            Driving::Drain(pattern) => pattern & (1 << ((after - 1) % 16)) != 0,
            _ => true,
        };
        let audio = if drained { Some(drain(&mut e)) } else { None };
        // with the beeper only (48K scenarios: AY off) sound generation is stateless, so once the
        // queue is empty again (this frame and the previous one drained) the audio of a frame must
        // not depend on earlier undrained frames
        let drained_prev = match d {
            Driving::Drain(pattern) => after >= 2 && pattern & (1 << ((after - 2) % 16)) != 0,
            _ => true,
        };
        let audio_comparable = after == before + 1
            && (matches!(d, Driving::Default | Driving::SoundOff | Driving::Asset(_) | Driving::Breakpoints(_) | Driving::BreakAlways)
                || (matches!(d, Driving::Drain(_)) && !m128 && drained && drained_prev));
        let state = digest(&mut e, m128, None);
        let with_audio = if audio_comparable { audio.as_ref().map(|a| digest(&mut e, m128, Some(a))) } else { None };
        out.insert(after, (state, with_audio));
        if per_frame_inputs {
            apply_inputs(&mut e, sc, after);
        }
    }
    if m128 {
        // what the program would read back from the sound chip after the run (the read-back disturbs
        // the machine, so it is taken once, at the very end, keyed by the number of frames run)
        let frames_run = e.verif_total_frames();
        // DI; LD HL,8100; LD D,0; LD BC,FFFD; loop: OUT (C),D; IN A,(C); LD (HL),A; INC HL; INC D; LD A,D; CP 16; JR NZ,loop; JR $
        let prog: [u8; 24] = [0xF3, 0x21, 0x00, 0x81, 0x16, 0x00, 0x01, 0xFD, 0xFF, 0xED, 0x51, 0xED, 0x78, 0x77, 0x23, 0x14, 0x7A, 0xFE, 0x10, 0x20, 0xF4, 0x18, 0xFE, 0x00];
        let pokes: Vec<rustzx_core::poke::PokeAction> = prog.iter().enumerate().map(|(i, b)| rustzx_core::poke::PokeAction::mem(0x8000 + i as u16, *b)).collect();
        e.execute_poke(rig::PokeList(pokes));
        e.verif_cpu().regs.set_pc(0x8000);
        e.set_debug_interface(VDebug::at(&[]));
        e.set_speed(EmulationMode::FrameCount(1));
        rig::stopwatch_set(vec![], 0);
        let _ = e.emulate_frames(limit);
        let regs: Vec<u8> = (0..16u16).map(|i| e.peek(0x8100 + i)).collect();
        out.insert((1u64 << 40) + frames_run, (crate::vcore::fnv(&regs), None));
    }
    Ok(out)
}

fn compare(ctx: &Ctx, sc: Scenario, m128: bool, base: &BTreeMap<u64, (u64, Option<u64>)>, got: &Result<BTreeMap<u64, (u64, Option<u64>)>, String>, d: &Driving, class: &str) {
    let case = json!({"kind":"driving","scenario":format!("{:?}", sc),"m128":m128,"driving":format!("{:?}", d)});
    let mname = if m128 { "128k" } else { "48k" };
    match got {
        Err(e) => ctx.violation(&format!("C16:{}:{:?}:error", class, sc), &format!("{:?} {} driven as {:?}: {}", sc, mname, d, e), case),
        Ok(g) => {
            for (f, (st, au)) in g.iter() {
                match base.get(f) {
                    None => {
                        // beyond the horizon of the default table: nothing to compare with
                        continue;
                    }
                    Some((bst, bau)) => {
                        if st != bst {
                            ctx.violation(
                                &format!("C16:{}:{:?}:state-differs", class, sc),
                                &format!("{:?} {} driven as {:?}: after frame {} registers/RAM/paging/frame clock/frame buffers differ from the default driving", sc, mname, d, f),
                                case.clone(),
                            );
                            return;
                        }
                        if let (Some(a), Some(b)) = (au, bau) {
                            if a != b {
                                ctx.violation(
                                    &format!("C16:{}:{:?}:audio-differs", class, sc),
                                    &format!("{:?} {} driven as {:?}: audio of frame {} differs from the default driving", sc, mname, d, f),
                                    case.clone(),
                                );
                                return;
                            }
                        }
                    }
                }
            }
        }
    }
}

fn compositions(k: usize, thorough: bool) -> Vec<Vec<usize>> {
    let mut out = Vec::new();
    for mask in 0..(1u32 << (k - 1)) {
        let mut parts = Vec::new();
        let mut cur = 1;
        for i in 0..k - 1 {
            if mask & (1 << i) != 0 {
                parts.push(cur);
                cur = 1;
            } else {
                cur += 1;
            }
        }
        parts.push(cur);
        if !thorough || k <= 8 || parts.len() <= 4 || parts.iter().all(|p| *p <= 2) {
            out.push(parts);
        }
    }
    out
}

pub fn run(tier: Tier, seed: u64, replay: Option<String>) -> i32 {
    let ctx = Ctx::new("C16", tier, seed, "exploration");
    let thorough = tier.is_thorough();
    if let Some(path) = replay {
        let v: serde_json::Value = serde_json::from_slice(&rig::read_file(&path)).expect("replay json");
        println!("replay: the recorded case is {}; re-running the whole scenario family", v["case"]);
    }
    let k = if thorough { 12 } else { 6 };
    let scenarios = [Scenario::RomBoot, Scenario::RomKeys, Scenario::TapeFast, Scenario::TapeReal, Scenario::Tune, Scenario::SzxSnap, Scenario::HaltContended];
    let mut jobs: Vec<(Scenario, bool)> = Vec::new();
    for s in scenarios {
        for m in [false, true] {
            jobs.push((s, m));
        }
    }
    par_for(jobs.len(), 1, |j| {
        let (sc, m128) = jobs[j];
        // the default table reaches further than K: a Max-mode call may run past frame K
        let kbase = 2 * k + 6;
        let base = match run_driving(sc, m128, kbase, &Driving::Default, None) {
            Ok(b) => b,
            Err(e) => {
                ctx.violation(&format!("C16:default:{:?}:error", sc), &format!("default driving failed: {}", e), json!({"kind":"driving","scenario":format!("{:?}", sc),"m128":m128}));
                return;
            }
        };
        ctx.outcome(base.values().fold(0u64, |a, b| fnv_mix(a, b.0)));
        // determinism: identical second run
        let again = run_driving(sc, m128, kbase, &Driving::Default, None);
        if again.as_ref().ok() != Some(&base) {
            ctx.violation(&format!("C16:repeat:{:?}", sc), &format!("{:?}: two identical runs differ", sc), json!({"kind":"driving","scenario":format!("{:?}", sc),"m128":m128,"driving":"Default twice"}));
        }
        let mut n = 2u64;
        // all compositions of K frames into FrameCount(n) calls
        for parts in compositions(k, thorough) {
            for late in [false, true] {
                let d = Driving::Composition(parts.clone(), late);
                let g = run_driving(sc, m128, k, &d, None);
                compare(&ctx, sc, m128, &base, &g, &d, if late { "frames-per-call-late-stopwatch" } else { "frames-per-call" });
                n += 1;
            }
        }
        // Max mode: stopwatch answers explored with a deviation bound
        let bound = if thorough { 2 } else { 1 };
        let (runs, _, capped) = explore_dev(bound, 4000, |dev| {
            let d = Driving::MaxMode(dev.trace.iter().map(|t| t.0).collect());
            let g = run_driving(sc, m128, k, &d, Some(dev));
            let d2 = Driving::MaxMode(dev.trace.iter().map(|t| t.0).collect());
            compare(&ctx, sc, m128, &base, &g, &d2, "max-mode-stopwatch");
        });
        n += runs;
        if capped {
            ctx.note("max_mode_run_cap_hit", json!(true));
        }
        // breakpoints
        // 0x056B is the address the tape fast-load trap itself sits on
        let pcs: Vec<u16> = vec![0x0038, 0x028E, 0x0010, 0x15F2, 0x10A8, 0x0556, 0x11DC, 0x056B];
        for sub in 1..(1u32 << 8) {
            if !thorough && sub.count_ones() != 1 && sub != 0xFF {
                continue;
            }
            let sel: Vec<u16> = (0..8).filter(|i| sub & (1 << i) != 0).map(|i| pcs[i]).collect();
            let d = Driving::Breakpoints(sel);
            let g = run_driving(sc, m128, k, &d, None);
            compare(&ctx, sc, m128, &base, &g, &d, "breakpoints");
            n += 1;
        }
        {
            // stop at every instruction of the first two frames
            let d = Driving::BreakAlways;
            let g = run_driving(sc, m128, 2.min(k), &d, None);
            compare(&ctx, sc, m128, &base, &g, &d, "break-every-instruction");
            n += 1;
        }
        // sound off, drain patterns
        {
            let d = Driving::SoundOff;
            let g = run_driving(sc, m128, k, &d, None);
            compare(&ctx, sc, m128, &base, &g, &d, "sound-off");
            n += 1;
        }
        // sound switched on and off by the host at frame boundaries
        for p in [0b010101u32, 0b101010, 0b000111, 0b111000, 0b110011, 0b001100, 0xFFF8, 0x0FC0] {
            let d = Driving::SoundSwitch(p);
            let g = run_driving(sc, m128, k, &d, None);
            compare(&ctx, sc, m128, &base, &g, &d, "sound-switched");
            n += 1;
        }
        let patterns: Vec<u32> = if thorough { (0..(1u32 << k.min(12))).step_by(7).collect() } else { (0..(1u32 << k)).collect() };
        for p in patterns {
            let d = Driving::Drain(p);
            let g = run_driving(sc, m128, k, &d, None);
            compare(&ctx, sc, m128, &base, &g, &d, "drain-schedule");
            n += 1;
        }
        // asset implementations
        if matches!(sc, Scenario::TapeFast | Scenario::TapeReal | Scenario::Tune | Scenario::SzxSnap) {
            for a in [AssetKind::Chunk(1), AssetKind::Chunk(2), AssetKind::Chunk(3), AssetKind::Chunk(127), AssetKind::Chunk(128), AssetKind::Chunk(129), AssetKind::File, AssetKind::Gzip] {
                let d = Driving::Asset(a);
                let g = run_driving(sc, m128, k, &d, None);
                compare(&ctx, sc, m128, &base, &g, &d, "asset-implementation");
                n += 1;
            }
        }
        ctx.add_eval(n);
        ctx.add_nontrivial(n);
    });
    // an event raised by the very instruction that completes a frame (and a call): the fast-load trap
    // reached -6..+8 T around the end of the second frame, under every composition of 4 frames into
    // calls, Max mode and a breakpoint on the trap address
    let edge_jobs: Vec<(bool, i16)> = [false, true].iter().flat_map(|m| (-6i16..=8).map(move |o| (*m, o))).collect();
    par_for(edge_jobs.len(), 1, |j| {
        let (m128, off) = edge_jobs[j];
        let sc = Scenario::TrapEdge(off);
        let k = 4usize;
        let base = match run_driving(sc, m128, 2 * k + 6, &Driving::Default, None) {
            Ok(b) => b,
            Err(e) => {
                ctx.violation("C16:default:TrapEdge:error", &format!("default driving failed: {}", e), json!({"kind":"driving","scenario":format!("{:?}", sc),"m128":m128}));
                return;
            }
        };
        // vacuity guard: the load must have happened by frame 4 (R stored at A000 by the program)
        let mut n = 1u64;
        for parts in compositions(k, false) {
            for late in [false, true] {
                let d = Driving::Composition(parts.clone(), late);
                let g = run_driving(sc, m128, k, &d, None);
                compare(&ctx, sc, m128, &base, &g, &d, "frames-per-call:event-at-frame-edge");
                n += 1;
            }
        }
        let (runs, _, _) = explore_dev(1, 200, |dev| {
            let d = Driving::MaxMode(dev.trace.iter().map(|t| t.0).collect());
            let g = run_driving(sc, m128, k, &d, Some(dev));
            let d2 = Driving::MaxMode(dev.trace.iter().map(|t| t.0).collect());
            compare(&ctx, sc, m128, &base, &g, &d2, "max-mode-stopwatch:event-at-frame-edge");
        });
        n += runs;
        for pcs in [vec![0x056Bu16], vec![0x056A], vec![0x056A, 0x056B]] {
            let d = Driving::Breakpoints(pcs);
            let g = run_driving(sc, m128, k, &d, None);
            compare(&ctx, sc, m128, &base, &g, &d, "breakpoints:event-at-frame-edge");
            n += 1;
        }
        ctx.add_eval(n);
        ctx.add_nontrivial(n);
        ctx.outcome(base.values().fold(off as u64, |a, b| fnv_mix(a, b.0)));
    });
    // long calls: a tape that ends inside a call, a fast-load trap later in the same call
    par_for(2, 1, |j| {
        let m128 = j == 1;
        let sc = Scenario::TapeEndTrap;
        let k = 200usize;
        let base = match run_driving(sc, m128, k + 4, &Driving::Default, None) {
            Ok(b) => b,
            Err(e) => {
                ctx.violation("C16:default:TapeEndTrap:error", &format!("default driving failed: {}", e), json!({"kind":"driving","scenario":"TapeEndTrap","m128":m128}));
                return;
            }
        };
        let mut n = 1u64;
        for parts in [vec![200usize], vec![100, 100], vec![50, 50, 50, 50], vec![151, 49], vec![1, 199]] {
            let d = Driving::Composition(parts, false);
            let g = run_driving(sc, m128, k, &d, None);
            compare(&ctx, sc, m128, &base, &g, &d, "frames-per-call:tape-ends-inside-the-call");
            n += 1;
        }
        ctx.add_eval(n);
        ctx.add_nontrivial(n);
        ctx.outcome(base.values().fold(0xE4D, |a, b| fnv_mix(a, b.0)));
    });
    ctx.sample(json!({"scenario":"TapeFast","m128":true,"driving":"Composition([2, 1, 3])"}));
    ctx.note("frames", json!(k));
    ctx.note("not_judged", json!("how many frames a Max-mode call emulates (the stopwatch decides); audio when it is not drained every frame or the call spans several frames"));
    ctx.finish(
        "scenarios {ROM boot, ROM with keys pressed/released at frame boundaries, tape fast load with autoload, real-time tape load, AY/beeper tune snapshot (SNA), screen/border-writing program from an SZX snapshot with zlib pages, HALT loop in contended RAM recording R after every interrupt} x {48K,128K}, plus a program whose call of ROM LD-BYTES reaches the fast-load trap -6..+8 T around the end of a frame (event and frame/call end coincide; compositions of 4 frames, Max mode, breakpoints on the trap), and a 200-frame run in which a playing tape ends inside a call and the fast-load trap is reached later in the same call (calls of 200, 100, 50, 151+49, 1+199 frames); deviations from the default driving: every composition of the K frames into FrameCount(n) calls with the stopwatch always at 0 and always past the limit (each call must emulate exactly n frames), Max mode with every stopwatch reading chosen from {0, limit, limit+1 ns} within a deviation bound, breakpoint stops at subsets of 8 ROM addresses (incl. the fast-load trap address 056B) and at every instruction, sound off, sound switched on/off by the host at frame boundaries in 8 patterns, every drain/no-drain pattern, the same file bytes through BufferCursor / chunked reads {1,2,3,127,128,129} / a real file / GzipAsset; at every frame boundary a driving stops at, the digest of registers, all RAM, paging, frame clock, both frame buffers (and audio where comparable) must equal the default driving's digest of that frame, and on the 128K the 16 AY registers read back by the CPU after the run must equal those after the default driving; the default is run twice. distinct_nontrivial = drivings executed",
        false,
        &["frame boundaries are identified by the hook frame counter", "real file assets live under harness/target/c16-tmp and are unlinked immediately"],
    )
}
