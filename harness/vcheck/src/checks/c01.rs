//! C01 — every Z80 instruction yields the architected register/flag/memory/IO result.
//! (a) E-PROD single step from every state (z80prod), (b) sequences carrying hidden state.

use crate::rig;
use crate::vcore::{par_for, Ctx, Tier};
use crate::z80lock::*;
use crate::z80prod::*;
use refz80::RefZ80;
use serde_json::json;
use std::collections::HashSet;
use std::sync::Mutex;

/// Run a sequence of encodings from background `which`, each placed at the current PC, both
/// sides carrying their own complete state. Returns digest of the final reference state.
pub fn run_sequence(ctx: &Ctx, seq: &[(u8, u8)], which: u8, pc: u16, verbose: bool) -> u64 {
    let first = match base_case(seq[0].0, seq[0].1, which, pc) {
        Some(c) => c,
        None => return 0,
    };
    let mut cpu = to_impl(&first.st);
    let mut rc: RefZ80 = first.st.clone();
    let mut ienv = first.env.clone();
    let mut renv = first.env.clone();
    for (k, (kind, op)) in seq.iter().enumerate() {
        let tmpl = match base_case(*kind, *op, which, rc.pc) {
            Some(c) => c,
            None => return 0,
        };
        let at = rc.pc;
        ienv.set_code(at, &tmpl.code[..tmpl.code_len]);
        renv.set_code(at, &tmpl.code[..tmpl.code_len]);
        let pre: RefZ80 = rc.clone();
        let pre_env = renv.clone();
        let mut ib = ImplBus::new(ienv.clone());
        let mut rb = RBus::new(renv.clone());
        let n = impl_macro_step(&mut cpu, &mut ib);
        let _ = ref_macro_step(&mut rc, &mut rb);
        let mut ist = from_impl(&cpu);
        let mut rcn = rc.clone();
        normalize_q(at, &mut ist, &mut rcn);
        if verbose {
            println!("  step {} {} {:02x} at {:04x}", k, kind_name(*kind), op, at);
            println!("    reference: {:x?}", rc);
            println!("    impl     : {:x?}", ist);
            println!("    ref bus  : {}", fmt_log(rb.log.slice()));
            println!("    impl bus : {}", fmt_log(ib.log.slice()));
        }
        let mut bad: Option<(String, String)> = None;
        if n == 0 {
            bad = Some(("prefix chain never resolves".into(), "prefix-chain".into()));
        } else if let Some(d) = diff_states(&ist, &rcn, false) {
            bad = Some((d, diff_fields(&ist, &rcn, false).join("+")));
        } else if data_events(ib.log.slice()) != data_events(rb.log.slice()) {
            bad = Some((format!("memory/port access sequence differs: impl [{}] ref [{}]", fmt_log(ib.log.slice()), fmt_log(rb.log.slice())), "bus-data".into()));
        }
        if let Some((what, fields)) = bad {
            // is it a single-step defect of this encoding from the (agreed) pre-state?
            let mut single = tmpl.clone();
            single.st = pre.clone();
            single.env = pre_env;
            single.env.set_code(at, &tmpl.code[..tmpl.code_len]);
            let single_bad = {
                let r = run_ref(&single);
                match run_impl(&single) {
                    Ok(mut i) => {
                        let mut rs = r.st.clone();
                        normalize_q(at, &mut i.st, &mut rs);
                        diff_states(&i.st, &rs, false).is_some() || data_events(i.log.slice()) != data_events(r.log.slice())
                    }
                    #[allow(unreachable_patterns)]
                    Ok(i) => data_events(i.log.slice()) != data_events(r.log.slice()),
                    Err(_) => true,
                }
            };
            let names: Vec<String> = seq[..=k].iter().map(|(a, b)| format!("{}.{:02x}", kind_name(*a), b)).collect();
            let key = if single_bad || k == 0 {
                format!("C01:{}:{:02x}:{}", kind_name(*kind), op, fields)
            } else {
                format!("C01:seq:{}:{}", names.join(">"), fields)
            };
            ctx.violation(
                &key,
                &format!("sequence [{}] from background {}: after step {} {}", names.join(", "), which, k, what),
                json!({"kind":"sequence","seq": seq.iter().map(|(a, b)| json!([a, b])).collect::<Vec<_>>(), "which": which, "pc": pc}),
            );
            return 0;
        }
        ienv = ib.env;
        renv = rb.env;
        if rc.halted || rc.pc.wrapping_sub(at) < 2 {
            // replacing the code under a halted CPU / a repeating block instruction is not a
            // history this harness can produce faithfully
            break;
        }
    }
    crate::vcore::fnv(&[rc.a, rc.f, rc.q, rc.r, (rc.memptr >> 8) as u8, rc.memptr as u8, rc.h, rc.l])
}

pub fn run(tier: Tier, seed: u64, replay: Option<String>) -> i32 {
    let ctx = Ctx::new("C01", tier, seed, "model_checking");
    if let Some(path) = replay {
        return replay_case(&ctx, &path);
    }
    if let Err(e) = crate::oracle::require_valid() {
        eprintln!("MACHINERY: reference model not validated: {}", e);
        return 2;
    }
    let thorough = tier.is_thorough();
    if thorough {
        run_product(&ctx, Mode::Results, &[0x8000, 0xFFFE, 0x3FFF], 1 << 20, true, seed);
    } else {
        // 0xFFFE: the instruction bytes wrap over the top of memory and PC+2 leaves the 2K page of PC
        // (bits 11/13 of PC reach F through the repeating block instructions)
        run_product(&ctx, Mode::Results, &[0x8000, 0xFFFE], 2048, false, seed);
    }
    // (b) all ordered pairs of encodings, state carried by each side itself
    let encs = all_encodings();
    let outcomes: Mutex<HashSet<u64>> = Mutex::new(HashSet::new());
    let n = encs.len();
    par_for(n, 1, |i| {
        let mut local = HashSet::new();
        for j in 0..n {
            for which in 0..2u8 {
                let h = run_sequence(&ctx, &[encs[i], encs[j]], which, 0x8000, false);
                if local.len() < 64 {
                    local.insert(h);
                }
            }
        }
        ctx.add_transitions(4 * n as u64);
        ctx.add_traces(2 * n as u64);
        outcomes.lock().unwrap().extend(local);
    });
    ctx.note("pairs", json!(2 * n * n));
    // observers making hidden state visible: SCF, CCF, BIT 0,(HL), BIT 0,(IX+d), NOP
    if thorough {
        let obs: [(u8, u8); 5] = [(0, 0x37), (0, 0x3F), (1, 0x46), (5, 0x46), (0, 0x00)];
        par_for(n, 1, |i| {
            for j in 0..n {
                for o in obs.iter() {
                    run_sequence(&ctx, &[encs[i], encs[j], *o], 0, 0x8000, false);
                }
            }
            ctx.add_transitions(15 * n as u64);
            ctx.add_traces(5 * n as u64);
        });
        ctx.note("triples", json!(5 * n * n));
    } else {
        // quick: every encoding followed by every observer
        let obs: [(u8, u8); 4] = [(0, 0x37), (0, 0x3F), (1, 0x46), (5, 0x46)];
        par_for(n, 8, |i| {
            for o in obs.iter() {
                for which in 0..2u8 {
                    run_sequence(&ctx, &[encs[i], *o], which, 0x8000, false);
                }
            }
            ctx.add_transitions(16);
        });
    }
    ctx.outcomes_bulk(&outcomes.lock().unwrap());
    ctx.note("oracle_validation", crate::oracle::status_json());
    ctx.finish(
        "single step: for each of the 1786 distinct encodings (256 x {none,CB,ED,DD,FD,DDCB,FDCB} minus aliases) the read set is discovered on RefZ80 and the full product of per-atom domains is executed on Z80::emulate and RefZ80 in lock step, two contrasting backgrounds for all other atoms; sequences: all ordered pairs of encodings (and all triples ending in a hidden-state observer in thorough) with each side carrying its own state. Compared: all registers incl. alternates, PC SP I R IFF1 IFF2 IM halted MEMPTR Q and the ordered memory/port accesses with data. distinct = distinct reference outcomes",
        true,
        &["RefZ80 validated against zexall, z80test 1.2 (full, memptr, ccf) and z80bltst before use", "hook H1: Clone, Q latch, pending prefix"],
    )
}

fn replay_case(ctx: &Ctx, path: &str) -> i32 {
    let v: serde_json::Value = serde_json::from_slice(&rig::read_file(path)).expect("replay json");
    let case = &v["case"];
    if case["kind"] == "sequence" {
        let seq: Vec<(u8, u8)> = case["seq"].as_array().unwrap().iter().map(|x| (x[0].as_u64().unwrap() as u8, x[1].as_u64().unwrap() as u8)).collect();
        run_sequence(ctx, &seq, case["which"].as_u64().unwrap_or(0) as u8, case["pc"].as_u64().unwrap_or(0x8000) as u16, true);
    } else if let Some((kind, op, c)) = case_from_json(case) {
        println!("replay: encoding {} {:02x}, state {:x?}", kind_name(kind), op, c.st);
        compare_case(ctx, Mode::Results, kind, op, &c, true);
    }
    let n = ctx.violation_classes();
    println!("replay: {} violation class(es) reproduced", n);
    (n > 0) as i32
}
