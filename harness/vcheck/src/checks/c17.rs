//! C17 — input ports reflect exactly the controls held, for every event history.
//!
//! Histories are enumerated outright (no state merging on the implementation side: a state is
//! the event history reaching it, replayed on a fresh real Emulator), in lock step with RefMatrix.
//! The half-rows are read by `IN A,(C)` executed by the emulated CPU.

use crate::rig::{self, Emu, Opts};
use crate::vcore::{fnv, par_for, Ctx, Tier};
use rustzx_core::zx::{
    joy::{
        kempston::KempstonKey,
        sinclair::{SinclairJoyNum, SinclairKey},
    },
    keys::{CompoundKey, ZXKey},
    mouse::kempston::{KempstonMouseButton, KempstonMouseWheelDirection},
};
use rustzx_core::IterableEnum;
use serde_json::json;
use std::collections::{BTreeMap, BTreeSet, HashSet};
use std::sync::Mutex;

const CODE: u16 = 0x8000;

/// The standard 8 x 5 Spectrum keyboard matrix (row = address line A8+row, bit 0..4)
const MATRIX: [[&str; 5]; 8] = [
    ["Shift", "Z", "X", "C", "V"],
    ["A", "S", "D", "F", "G"],
    ["Q", "W", "E", "R", "T"],
    ["N1", "N2", "N3", "N4", "N5"],
    ["N0", "N9", "N8", "N7", "N6"],
    ["P", "O", "I", "U", "Y"],
    ["Enter", "L", "K", "J", "H"],
    ["Space", "SymShift", "M", "N", "B"],
];

fn pos_of(name: &str) -> (usize, usize) {
    for (r, row) in MATRIX.iter().enumerate() {
        for (b, k) in row.iter().enumerate() {
            if *k == name {
                return (r, b);
            }
        }
    }
    panic!("unknown key name {}", name)
}

#[derive(Clone, Copy, Debug, PartialEq, Eq, Hash, PartialOrd, Ord)]
enum Ctl {
    Key(u8),      // index into all keys
    Comp(u8),     // 0..7
    Sin(u8, u8),  // joystick 0/1, control 0..5 (left,right,down,up,fire)
    Kemp(u8),     // bit index 0..8
    MBtn(u8),     // 0..4
}

#[derive(Clone, Copy, Debug, PartialEq, Eq, Hash, PartialOrd, Ord)]
enum Ev {
    Set(Ctl, bool),
    Wheel(bool), // true = up
    Move(i8, i8),
}

struct Tables {
    keys: Vec<ZXKey>,
    key_names: Vec<String>,
    comps: Vec<CompoundKey>,
    comp_names: Vec<String>,
}

fn tables() -> Tables {
    let keys: Vec<ZXKey> = ZXKey::iter().collect();
    let key_names = keys.iter().map(|k| format!("{:?}", k)).collect();
    let comps: Vec<CompoundKey> = CompoundKey::iter().collect();
    let comp_names = comps.iter().map(|k| format!("{:?}", k)).collect();
    Tables { keys, key_names, comps, comp_names }
}

const SIN_KEYS: [SinclairKey; 5] = [SinclairKey::Left, SinclairKey::Right, SinclairKey::Down, SinclairKey::Up, SinclairKey::Fire];
const SIN_NAMES: [&str; 5] = ["Left", "Right", "Down", "Up", "Fire"];
/// joystick 1: 6,7,8,9,0 ; joystick 2: 1,2,3,4,5 for left,right,down,up,fire (property text)
const SIN_MAP: [[&str; 5]; 2] = [["N6", "N7", "N8", "N9", "N0"], ["N1", "N2", "N3", "N4", "N5"]];
const KEMP: [KempstonKey; 8] = [
    KempstonKey::Right,
    KempstonKey::Left,
    KempstonKey::Down,
    KempstonKey::Up,
    KempstonKey::Fire,
    KempstonKey::Ext1,
    KempstonKey::Ext2,
    KempstonKey::Ext3,
];
const KEMP_NAMES: [&str; 8] = ["Right", "Left", "Down", "Up", "Fire", "Ext1", "Ext2", "Ext3"];
const MBTN: [KempstonMouseButton; 4] = [
    KempstonMouseButton::Left,
    KempstonMouseButton::Right,
    KempstonMouseButton::Middle,
    KempstonMouseButton::Additional,
];

fn comp_primary(name: &str) -> &'static str {
    match name {
        "ArrowLeft" => "N5",
        "ArrowRight" => "N8",
        "ArrowUp" => "N7",
        "ArrowDown" => "N6",
        "CapsLock" => "N2",
        "Delete" => "N0",
        "Break" => "Space",
        _ => panic!("unknown compound key {}", name),
    }
}

fn ev_name(t: &Tables, e: &Ev) -> String {
    match e {
        Ev::Set(c, p) => {
            let n = match c {
                Ctl::Key(i) => format!("key.{}", t.key_names[*i as usize]),
                Ctl::Comp(i) => format!("compound.{}", t.comp_names[*i as usize]),
                Ctl::Sin(j, k) => format!("sinclair{}.{}", j + 1, SIN_NAMES[*k as usize]),
                Ctl::Kemp(i) => format!("kempston.{}", KEMP_NAMES[*i as usize]),
                Ctl::MBtn(i) => format!("mouse.button{}", i),
            };
            format!("{}({})", if *p { "press" } else { "release" }, n)
        }
        Ev::Wheel(up) => format!("wheel({})", if *up { "up" } else { "down" }),
        Ev::Move(x, y) => format!("move({},{})", x, y),
    }
}

fn apply(t: &Tables, e: &mut Emu, ev: &Ev) {
    match ev {
        Ev::Set(c, p) => match c {
            Ctl::Key(i) => e.send_key(t.keys[*i as usize], *p),
            Ctl::Comp(i) => e.send_compound_key(t.comps[*i as usize], *p),
            Ctl::Sin(j, k) => e.send_sinclair_key(
                if *j == 0 { SinclairJoyNum::Fist } else { SinclairJoyNum::Second },
                SIN_KEYS[*k as usize],
                *p,
            ),
            Ctl::Kemp(i) => e.send_kempston_key(KEMP[*i as usize], *p),
            Ctl::MBtn(i) => e.send_mouse_button(MBTN[*i as usize], *p),
        },
        Ev::Wheel(up) => e.send_mouse_wheel(if *up { KempstonMouseWheelDirection::Up } else { KempstonMouseWheelDirection::Down }),
        Ev::Move(x, y) => e.send_mouse_pos_diff(*x, *y),
    }
}

/// RefMatrix: the set of controls currently held plus the mouse counters
#[derive(Clone, Default)]
struct RefMatrix {
    held: BTreeSet<Ctl>,
    wheel: u8,
    x: u8,
    y: u8,
    moved: bool,
    wheeled: bool,
}

impl RefMatrix {
    fn apply(&mut self, ev: &Ev) {
        match ev {
            Ev::Set(c, true) => {
                self.held.insert(*c);
            }
            Ev::Set(c, false) => {
                self.held.remove(c);
            }
            Ev::Wheel(up) => {
                self.wheel = if *up { self.wheel.wrapping_add(1) } else { self.wheel.wrapping_sub(1) } & 0x0F;
                self.wheeled = true;
            }
            Ev::Move(dx, dy) => {
                self.x = self.x.wrapping_add(*dx as u8);
                self.y = self.y.wrapping_sub(*dy as u8);
                self.moved = true;
            }
        }
    }
    /// 8 half-rows, bits 0..4, 0 = held
    fn rows(&self, t: &Tables) -> [u8; 8] {
        let mut rows = [0x1Fu8; 8];
        let mut hold = |name: &str| {
            let (r, b) = pos_of(name);
            rows[r] &= !(1 << b);
        };
        for c in self.held.iter() {
            match c {
                Ctl::Key(i) => hold(&t.key_names[*i as usize]),
                Ctl::Comp(i) => {
                    hold("Shift");
                    hold(comp_primary(&t.comp_names[*i as usize]));
                }
                Ctl::Sin(j, k) => hold(SIN_MAP[*j as usize][*k as usize]),
                _ => {}
            }
        }
        rows
    }
    fn kempston(&self) -> u8 {
        let mut v = 0;
        for c in self.held.iter() {
            if let Ctl::Kemp(i) = c {
                v |= 1 << i;
            }
        }
        v
    }
}

#[derive(Clone, Debug, PartialEq, Eq, PartialOrd, Ord, Hash)]
enum Mis {
    Row(usize, usize, bool), // row, bit, expected-held
    Selector(u8),
    Kempston(u8, u8),
    MouseButton(u8, bool),
    Wheel(u8, u8),
    MouseX(u8, u8),
    MouseY(u8, u8),
}

struct Obs {
    rows: [u8; 8],
    kemp: u8,
    mbtn: u8,
    mx: u8,
    my: u8,
}

fn observe(e: &mut Emu) -> Obs {
    let mut rows = [0u8; 8];
    for (r, row) in rows.iter_mut().enumerate() {
        let port = ((!(1u16 << r) & 0xFF) << 8) | 0xFE;
        *row = rig::cpu_in(e, CODE, port) & 0x1F;
    }
    Obs {
        rows,
        kemp: rig::cpu_in(e, CODE, 0x001F),
        mbtn: rig::cpu_in(e, CODE, 0xFADF),
        mx: rig::cpu_in(e, CODE, 0xFBDF),
        my: rig::cpu_in(e, CODE, 0xFFDF),
    }
}

/// Two machine configurations are used for every history: keyboard + Kempston joystick are read on
/// a machine with the joystick enabled and the mouse disabled, the mouse ports on a machine with
/// the mouse enabled and the joystick disabled — which device wins a port both could decode is
/// C07's subject, not C17's.
fn fresh(mouse: bool) -> Emu {
    let mut o = Opts::k48();
    o.kempston = !mouse;
    o.mouse = mouse;
    rig::emu_stepping(&o)
}

struct Baseline {
    mbtn: u8,
    mx: u8,
    my: u8,
}

/// Replay a history on a fresh emulator and compare with RefMatrix. `selectors`: also read all
/// 256 selector bytes.
fn run_history(t: &Tables, base: &Baseline, hist: &[Ev], selectors: bool) -> (BTreeSet<Mis>, u64) {
    let mut e = fresh(false);
    let mut em = fresh(true);
    // a third machine is read like a game loop polls: the half-rows an event is about to change are
    // read right before the event and again right after it, with no other read in between
    let mut ep = fresh(false);
    let mut poll_mis: BTreeSet<Mis> = BTreeSet::new();
    let mut r = RefMatrix::default();
    for ev in hist {
        let rows_before = r.rows(t);
        let mut r2 = r.clone();
        r2.apply(ev);
        let rows_after = r2.rows(t);
        let affected: Vec<usize> = (0..8).filter(|k| rows_before[*k] != rows_after[*k]).collect();
        for row in affected.iter() {
            let _ = rig::cpu_in(&mut ep, CODE, ((!(1u16 << row) & 0xFF) << 8) | 0xFE);
        }
        apply(t, &mut e, ev);
        apply(t, &mut em, ev);
        apply(t, &mut ep, ev);
        r.apply(ev);
        for row in affected.iter().rev() {
            let got = rig::cpu_in(&mut ep, CODE, ((!(1u16 << row) & 0xFF) << 8) | 0xFE) & 0x1F;
            for bit in 0..5 {
                let eh = rows_after[*row] & (1 << bit) == 0;
                let gh = got & (1 << bit) == 0;
                if eh != gh {
                    poll_mis.insert(Mis::Row(*row, bit, eh));
                }
            }
        }
    }
    let mut o = observe(&mut e);
    let om = observe(&mut em);
    if om.rows != o.rows {
        // keyboard must not depend on which extra device is enabled
        o.rows = om.rows;
    }
    o.mbtn = om.mbtn;
    o.mx = om.mx;
    o.my = om.my;
    let exp = r.rows(t);
    let mut m = poll_mis;
    for row in 0..8 {
        for bit in 0..5 {
            let eh = exp[row] & (1 << bit) == 0;
            let gh = o.rows[row] & (1 << bit) == 0;
            if eh != gh {
                m.insert(Mis::Row(row, bit, eh));
            }
        }
    }
    if selectors {
        for sel in 0..=255u8 {
            let got = rig::cpu_in(&mut e, CODE, ((sel as u16) << 8) | 0xFE) & 0x1F;
            let mut want = 0x1F;
            for row in 0..8 {
                if sel & (1 << row) == 0 {
                    want &= o.rows[row];
                }
            }
            if got != want {
                m.insert(Mis::Selector(sel));
                break;
            }
        }
    }
    if o.kemp != r.kempston() {
        m.insert(Mis::Kempston(r.kempston(), o.kemp));
    }
    // mouse buttons: active low in bits 0..3 (which bit belongs to which button is not fixed by the
    // property: a held button must clear exactly its own bit, found on the baseline run)
    for b in 0..4u8 {
        let held = r.held.contains(&Ctl::MBtn(b));
        let bit = 1u8 << b;
        let got_held = o.mbtn & bit == 0;
        if held != got_held {
            m.insert(Mis::MouseButton(b, held));
        }
    }
    let wheel_exp = ((base.mbtn >> 4).wrapping_add(r.wheel)) & 0x0F;
    if (o.mbtn >> 4) != wheel_exp {
        m.insert(Mis::Wheel(wheel_exp, o.mbtn >> 4));
    }
    let xe = base.mx.wrapping_add(r.x);
    let ye = base.my.wrapping_add(r.y);
    if o.mx != xe {
        m.insert(Mis::MouseX(xe, o.mx));
    }
    if o.my != ye {
        m.insert(Mis::MouseY(ye, o.my));
    }
    let mut h = fnv(&o.rows);
    h = crate::vcore::fnv_mix(h, (o.kemp as u64) << 24 | (o.mbtn as u64) << 16 | (o.mx as u64) << 8 | o.my as u64);
    (m, h)
}

/// Delta-debug a failing history to a 1-minimal one that still shows a mismatch from `target`
fn minimize(t: &Tables, base: &Baseline, hist: &[Ev], target: &BTreeSet<Mis>) -> Vec<Ev> {
    let fails = |h: &[Ev]| -> bool {
        let (m, _) = run_history(t, base, h, false);
        m.iter().any(|x| target.iter().any(|y| same_kind(x, y)))
    };
    let mut cur: Vec<Ev> = hist.to_vec();
    loop {
        let mut reduced = false;
        for i in 0..cur.len() {
            let mut c = cur.clone();
            c.remove(i);
            if fails(&c) {
                cur = c;
                reduced = true;
                break;
            }
        }
        if !reduced {
            break;
        }
    }
    cur
}

fn same_kind(a: &Mis, b: &Mis) -> bool {
    match (a, b) {
        (Mis::Row(r1, b1, _), Mis::Row(r2, b2, _)) => r1 == r2 && b1 == b2,
        (Mis::Selector(_), Mis::Selector(_)) => true,
        (Mis::Kempston(..), Mis::Kempston(..)) => true,
        (Mis::MouseButton(a, _), Mis::MouseButton(b, _)) => a == b,
        (Mis::Wheel(..), Mis::Wheel(..)) => true,
        (Mis::MouseX(..), Mis::MouseX(..)) => true,
        (Mis::MouseY(..), Mis::MouseY(..)) => true,
        _ => false,
    }
}

fn mis_name(m: &Mis) -> String {
    match m {
        Mis::Row(r, b, exp_held) => format!(
            "{}-reads-{}",
            MATRIX[*r][*b],
            if *exp_held { "released-but-is-held" } else { "pressed-but-nothing-holds-it" }
        ),
        Mis::Selector(_) => "multi-row-selector-not-AND".into(),
        Mis::Kempston(..) => "kempston-port".into(),
        Mis::MouseButton(b, _) => format!("mouse-button{}", b),
        Mis::Wheel(..) => "mouse-wheel".into(),
        Mis::MouseX(..) => "mouse-x".into(),
        Mis::MouseY(..) => "mouse-y".into(),
    }
}

struct Shared<'a> {
    ctx: &'a Ctx,
    t: &'a Tables,
    base: &'a Baseline,
    outcomes: Mutex<HashSet<u64>>,
    reported: Mutex<BTreeMap<String, ()>>,
}

fn report(sh: &Shared, hist: &[Ev], new: &BTreeSet<Mis>) {
    let min = minimize(sh.t, sh.base, hist, new);
    let (mm, _) = run_history(sh.t, sh.base, &min, false);
    let names: Vec<String> = min.iter().map(|e| ev_name(sh.t, e)).collect();
    let mis: Vec<String> = mm.iter().map(mis_name).collect();
    let key = format!("C17:{}:{}", names.join(","), mis.join("+"));
    {
        let mut g = sh.reported.lock().unwrap();
        g.insert(key.clone(), ());
    }
    sh.ctx.violation(
        &key,
        &format!(
            "after the event history [{}] the ports read: {} (found in history [{}])",
            names.join(", "),
            mis.join(", "),
            hist.iter().map(|e| ev_name(sh.t, e)).collect::<Vec<_>>().join(", ")
        ),
        json!({"kind":"history","events": encode(&min)}),
    );
}

fn encode(h: &[Ev]) -> Vec<serde_json::Value> {
    h.iter()
        .map(|e| match e {
            Ev::Set(Ctl::Key(i), p) => json!(["key", i, p]),
            Ev::Set(Ctl::Comp(i), p) => json!(["comp", i, p]),
            Ev::Set(Ctl::Sin(j, k), p) => json!(["sin", j, k, p]),
            Ev::Set(Ctl::Kemp(i), p) => json!(["kemp", i, p]),
            Ev::Set(Ctl::MBtn(i), p) => json!(["mbtn", i, p]),
            Ev::Wheel(u) => json!(["wheel", u]),
            Ev::Move(x, y) => json!(["move", x, y]),
        })
        .collect()
}

fn decode_events(v: &serde_json::Value) -> Vec<Ev> {
    v.as_array()
        .map(|a| {
            a.iter()
                .map(|e| {
                    let k = e[0].as_str().unwrap_or("");
                    let n = |i: usize| e[i].as_i64().unwrap_or(0);
                    let b = |i: usize| e[i].as_bool().unwrap_or(false);
                    match k {
                        "key" => Ev::Set(Ctl::Key(n(1) as u8), b(2)),
                        "comp" => Ev::Set(Ctl::Comp(n(1) as u8), b(2)),
                        "sin" => Ev::Set(Ctl::Sin(n(1) as u8, n(2) as u8), b(3)),
                        "kemp" => Ev::Set(Ctl::Kemp(n(1) as u8), b(2)),
                        "mbtn" => Ev::Set(Ctl::MBtn(n(1) as u8), b(2)),
                        "wheel" => Ev::Wheel(b(1)),
                        _ => Ev::Move(n(1) as i8, n(2) as i8),
                    }
                })
                .collect()
        })
        .unwrap_or_default()
}

/// Depth-first enumeration of every history over `alpha` up to `depth`, below the prefix `hist`.
fn dfs(sh: &Shared, alpha: &[Ev], hist: &mut Vec<Ev>, depth: usize, parent_mis: &BTreeSet<Mis>, selectors_at_leaf: bool, counts: &mut (u64, u64)) {
    let leaf = hist.len() == depth;
    let (m, h) = run_history(sh.t, sh.base, hist, selectors_at_leaf && leaf);
    counts.0 += 1;
    counts.1 += 1;
    {
        let mut g = sh.outcomes.lock().unwrap();
        if g.len() < 200_000 {
            g.insert(h);
        }
    }
    let new: BTreeSet<Mis> = m.iter().filter(|x| !parent_mis.iter().any(|y| same_kind(x, y))).cloned().collect();
    if !new.is_empty() {
        report(sh, hist, &new);
    }
    if leaf {
        return;
    }
    for ev in alpha {
        hist.push(*ev);
        dfs(sh, alpha, hist, depth, &m, selectors_at_leaf, counts);
        hist.pop();
    }
}

fn explore(sh: &Shared, name: &str, alpha: &[Ev], depth: usize, selectors_at_leaf: bool) {
    // parallel over the first two events
    let mut roots: Vec<Vec<Ev>> = vec![vec![]];
    for a in alpha {
        roots.push(vec![*a]);
    }
    let first: Vec<Vec<Ev>> = if depth >= 2 {
        let mut v = Vec::new();
        for a in alpha {
            for b in alpha {
                v.push(vec![*a, *b]);
            }
        }
        v
    } else {
        vec![]
    };
    let total = Mutex::new((0u64, 0u64));
    // depth 0 and 1 nodes
    let mut c = (0u64, 0u64);
    for r in roots.iter() {
        let (pm, _) = if r.is_empty() { (BTreeSet::new(), 0) } else { run_history(sh.t, sh.base, &r[..r.len() - 1], false) };
        let (m, h) = run_history(sh.t, sh.base, r, false);
        c.0 += 1;
        sh.outcomes.lock().unwrap().insert(h);
        let new: BTreeSet<Mis> = m.iter().filter(|x| !pm.iter().any(|y| same_kind(x, y))).cloned().collect();
        if !new.is_empty() {
            report(sh, r, &new);
        }
    }
    par_for(first.len(), 1, |i| {
        let mut h = first[i].clone();
        let (pm, _) = run_history(sh.t, sh.base, &h[..1], false);
        let mut cnt = (0u64, 0u64);
        dfs(sh, alpha, &mut h, depth, &pm, selectors_at_leaf, &mut cnt);
        let mut g = total.lock().unwrap();
        g.0 += cnt.0;
    });
    let n = total.into_inner().unwrap().0 + c.0;
    sh.ctx.add_states(n);
    sh.ctx.add_transitions(n);
    sh.ctx.add_traces(n);
    sh.ctx.note(&format!("histories_{}", name), json!({"alphabet": alpha.len(), "depth": depth, "histories": n}));
}

fn both(c: Ctl) -> [Ev; 2] {
    [Ev::Set(c, true), Ev::Set(c, false)]
}

pub fn run(tier: Tier, seed: u64, replay: Option<String>) -> i32 {
    let ctx = Ctx::new("C17", tier, seed, "model_checking");
    let t = tables();
    // baseline of the mouse ports on a fresh machine (initial counter values are not fixed by the property)
    let base = {
        let mut e = fresh(true);
        let o = observe(&mut e);
        Baseline { mbtn: o.mbtn, mx: o.mx, my: o.my }
    };
    if let Some(path) = replay {
        let v: serde_json::Value = serde_json::from_slice(&rig::read_file(&path)).expect("replay json");
        let h = decode_events(&v["case"]["events"]);
        let (m, _) = run_history(&t, &base, &h, true);
        println!("replay: history [{}]", h.iter().map(|e| ev_name(&t, e)).collect::<Vec<_>>().join(", "));
        println!("replay: mismatches: {:?}", m.iter().map(mis_name).collect::<Vec<_>>());
        return (!m.is_empty()) as i32;
    }
    let sh = Shared {
        ctx: &ctx,
        t: &t,
        base: &base,
        outcomes: Mutex::new(HashSet::new()),
        reported: Mutex::new(BTreeMap::new()),
    };
    let key = |n: &str| Ctl::Key(t.key_names.iter().position(|k| k == n).unwrap() as u8);
    let comp = |n: &str| Ctl::Comp(t.comp_names.iter().position(|k| k == n).unwrap() as u8);
    let thorough = tier.is_thorough();

    // (A) full alphabet, depth 2
    let mut full: Vec<Ev> = Vec::new();
    for i in 0..t.keys.len() {
        full.extend(both(Ctl::Key(i as u8)));
    }
    for i in 0..t.comps.len() {
        full.extend(both(Ctl::Comp(i as u8)));
    }
    for j in 0..2 {
        for k in 0..5 {
            full.extend(both(Ctl::Sin(j, k)));
        }
    }
    for i in 0..8 {
        full.extend(both(Ctl::Kemp(i)));
    }
    for i in 0..4 {
        full.extend(both(Ctl::MBtn(i)));
    }
    full.push(Ev::Wheel(true));
    full.push(Ev::Wheel(false));
    for (x, y) in [(1i8, 0i8), (-1, 0), (0, 1), (0, -1), (127, 127), (-128, -128)] {
        full.push(Ev::Move(x, y));
    }
    explore(&sh, "full", &full, 2, true);

    // (B) CAPS SHIFT / compound cluster
    let mut b: Vec<Ev> = Vec::new();
    for c in [key("Shift"), key("N5"), key("N2"), comp("ArrowLeft"), comp("CapsLock"), comp("Delete"), comp("Break"), key("Space"), Ctl::Sin(1, 4), Ctl::Sin(1, 1)] {
        b.extend(both(c));
    }
    explore(&sh, "shift-cluster", &b, if thorough { 5 } else { 4 }, true);
    // (C) Sinclair 1 / arrows
    let mut c1: Vec<Ev> = Vec::new();
    for c in [key("N6"), key("N7"), key("N8"), key("N9"), comp("ArrowDown"), comp("ArrowUp"), comp("ArrowRight"), Ctl::Sin(0, 0), Ctl::Sin(0, 1), Ctl::Sin(0, 2), Ctl::Sin(0, 3)] {
        c1.extend(both(c));
    }
    explore(&sh, "sinclair1-cluster", &c1, if thorough { 5 } else { 4 }, false);
    // (D) Sinclair 2 / digits 1-5
    let mut d: Vec<Ev> = Vec::new();
    for c in [key("N1"), key("N2"), key("N3"), key("N4"), Ctl::Sin(1, 0), Ctl::Sin(1, 1), Ctl::Sin(1, 2), Ctl::Sin(1, 3), Ctl::Sin(1, 4), comp("CapsLock")] {
        d.extend(both(c));
    }
    explore(&sh, "sinclair2-cluster", &d, if thorough { 5 } else { 4 }, false);
    // (E) Kempston joystick
    let mut k: Vec<Ev> = Vec::new();
    for i in 0..8 {
        k.extend(both(Ctl::Kemp(i)));
    }
    explore(&sh, "kempston", &k, if thorough { 4 } else { 3 }, false);
    // (F) mouse
    let mut mo: Vec<Ev> = Vec::new();
    for i in 0..4 {
        mo.extend(both(Ctl::MBtn(i)));
    }
    mo.push(Ev::Wheel(true));
    mo.push(Ev::Wheel(false));
    for x in [0i8, 1, -1, 127, -128] {
        for y in [0i8, 1, -1, 127, -128] {
            if x != 0 || y != 0 {
                mo.push(Ev::Move(x, y));
            }
        }
    }
    explore(&sh, "mouse", &mo, if thorough { 4 } else { 3 }, false);
    // wheel wrap: 17 ups / downs in a row
    for up in [true, false] {
        let h: Vec<Ev> = (0..17).map(|_| Ev::Wheel(up)).collect();
        for n in 1..=17 {
            let (m, _) = run_history(&t, &base, &h[..n], false);
            if !m.is_empty() {
                report(&sh, &h[..n], &m);
            }
        }
    }
    ctx.outcomes_bulk(&sh.outcomes.lock().unwrap());
    ctx.sample(json!({"history": ["press(compound.ArrowLeft)", "press(key.Shift)", "release(compound.ArrowLeft)"], "expected": "Shift still reads pressed"}));
    ctx.note("not_judged", json!("which of bits 0-3 of the mouse button port belongs to which button is taken as bit b for button b (Left,Right,Middle,Additional), the Kempston mouse convention; initial values of the mouse counters are taken from a fresh machine"));
    ctx.finish(
        "every event history up to the stated depth over each sub-alphabet (full alphabet depth 2; CAPS-SHIFT/compound, Sinclair-1, Sinclair-2 collision clusters depth 4 quick / 5 thorough; Kempston and mouse depth 3/4), each replayed on a fresh real Emulator and read through IN executed by the emulated CPU (8 half-rows, all 256 selector bytes at the leaves of two clusters, Kempston port, three mouse ports), lock step with RefMatrix; a failing history is delta-debugged to a 1-minimal history which forms its class key. distinct = distinct port read-outs observed",
        true,
        &["RefMatrix is the standard 8x5 matrix and the control->key table of the property text"],
    )
}
