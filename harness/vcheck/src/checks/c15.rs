//! C15 — loaders are total: any file or failing asset gives Ok/Err, never crash/hang.
//! Fault/input enumeration: (a) all short byte strings, (b) every prefix of every seed file,
//! (c) boundary values of every structural field, alone and in pairs, (d) every single-byte
//! substitution in header regions (and a stride through page data), (e) asset faults at every
//! call index (E-DEV, d=1 quick / d=2 thorough). Monitors: panic (caught), hang (watchdog +
//! asset-call budget), largest single allocation request (counting global allocator), and the
//! emulator must keep running afterwards. VTX files are also offered through readers that return
//! short reads; host assets report the end of data as Ok(0) or Err(UnexpectedEof), rotating.

use crate::formats::*;
use crate::rig::{self, Emu, Fault, Opts, RegsView, VAsset, VDebug, VRomSet};
use crate::tapemodel::{std_block, tap_image};
use crate::vcore::{Ctx, Tier};
use rustzx_core::host::{Screen, Snapshot, Tape};
use serde_json::json;
use std::sync::atomic::{AtomicBool, AtomicU64, AtomicUsize, Ordering};
use std::sync::{Arc, Mutex};
use std::time::{Duration, Instant};

#[derive(Clone, Copy, Debug, PartialEq, Eq, Hash, PartialOrd, Ord)]
pub enum Entry {
    Sna,
    Szx,
    Tap,
    Scr,
    Rom,
    GzSna,
    Vtx,
}

#[derive(Clone)]
pub struct CaseSpec {
    pub entry: Entry,
    pub m128: bool,
    pub bytes: Arc<Vec<u8>>,
    pub faults: Vec<(usize, Fault)>,
    pub seek_fault: Option<usize>,
    pub chunk: usize,
    pub label: String,
    /// (IX, DE) of the two fast-load requests made after a tape was inserted
    pub request: (u16, u16),
    /// T-state of the frame at which the receiving machine was stopped by a breakpoint before the
    /// snapshot is loaded into it (0: a machine at a frame boundary)
    pub recv_stop: u32,
}

#[derive(Debug, Clone, PartialEq, Eq)]
pub enum Outcome {
    Ok,
    Err,
    Panic(String),
    PostPanic(String),
    Calls(usize),
    Alloc(usize),
}

fn normalize(msg: &str) -> String {
    // strip numbers so the class does not depend on the particular input
    let mut out = String::new();
    let mut last_digit = false;
    for c in msg.chars() {
        if c.is_ascii_digit() {
            if !last_digit {
                out.push('N');
            }
            last_digit = true;
        } else {
            last_digit = false;
            out.push(if c.is_ascii_alphanumeric() || c == ' ' || c == '-' { c } else { '_' });
        }
    }
    out.truncate(70);
    out.replace(' ', "_")
}

fn panic_msg(p: Box<dyn std::any::Any + Send>) -> String {
    p.downcast_ref::<String>().cloned().or_else(|| p.downcast_ref::<&str>().map(|s| s.to_string())).unwrap_or_else(|| "panic".into())
}

fn asset(c: &CaseSpec) -> VAsset {
    let mut a = VAsset::shared(c.bytes.clone());
    a.faults = c.faults.clone();
    a.seek_fault_at = c.seek_fault;
    a.chunk = c.chunk;
    // both legal ways of reporting the end of data, rotating with the case
    a.eof_zero = (c.bytes.len() + c.label.len()) % 2 == 1;
    a.call_cap = 64 * c.bytes.len() + 4096;
    a
}

fn machine(m128: bool, fastload: bool) -> Emu {
    let mut o = Opts::machine(m128);
    o.sound = false;
    o.fastload = fastload;
    rig::emu(&o)
}

/// Leaves the machine stopped by a breakpoint `t` T-states into a frame (NOP sled in uncontended RAM)
fn stop_mid_frame(e: &mut Emu, t: u32) {
    rig::poke(e, 0x8000, &vec![0u8; 0x4600]);
    rig::poke(e, 0xC600, &[0x18, 0xFE]);
    let mut v = RegsView::default();
    v.pc = 0x8000;
    v.sp = 0xFF00;
    v.im = 1;
    rig::set_regs(e.verif_cpu(), &v);
    e.set_debug_interface(VDebug::at(&[0x8000 + (t / 4) as u16]));
    let _ = e.emulate_frames(Duration::from_secs(100));
    e.set_debug_interface(VDebug::at(&[]));
}

fn run_frames(e: &mut Emu, n: usize) {
    for _ in 0..n {
        let _ = e.emulate_frames(Duration::from_secs(100));
    }
}

/// Execute one case. Returns (outcome, asset calls made, largest allocation request).
pub fn execute(c: &CaseSpec) -> (Outcome, usize, usize) {
    execute_q(c, false)
}

pub fn execute_q(c: &CaseSpec, quick: bool) -> (Outcome, usize, usize) {
    crate::MAX_ALLOC_REQ.with(|m| m.set(0));
    let mut calls = 0usize;
    let mut cap_hit = false;
    let mut e_holder: Option<Emu> = None;
    let r = std::panic::catch_unwind(std::panic::AssertUnwindSafe(|| -> bool {
        match c.entry {
            Entry::Sna | Entry::Szx => {
                let mut e = machine(c.m128, false);
                if c.recv_stop > 0 {
                    stop_mid_frame(&mut e, c.recv_stop);
                }
                let a = asset(c);
                let res = if c.entry == Entry::Sna { e.load_snapshot(Snapshot::Sna(TrackedAsset::new(a, &mut calls, &mut cap_hit))) } else { e.load_snapshot(Snapshot::Szx(TrackedAsset::new(a, &mut calls, &mut cap_hit))) };
                e_holder = Some(e);
                res.is_ok()
            }
            Entry::Scr => {
                let mut e = machine(c.m128, false);
                let res = e.load_screen(Screen::Scr(TrackedAsset::new(asset(c), &mut calls, &mut cap_hit)));
                e_holder = Some(e);
                res.is_ok()
            }
            Entry::Rom => {
                let mut e = machine(c.m128, false);
                let b = &c.bytes;
                let split = b.len().min(16384);
                let mut p0 = VAsset::new(b[..split].to_vec());
                p0.faults = c.faults.clone();
                p0.chunk = c.chunk;
                p0.eof_zero = (b.len() + c.label.len()) % 2 == 1;
                let p1 = VAsset::new(b[split..].to_vec()).eof_as_zero((b.len() + c.label.len()) % 2 == 1);
                let mut pages = std::collections::VecDeque::new();
                if !b.is_empty() || c.label.contains("empty-set") {
                    pages.push_back(p0);
                    if b.len() > 16384 {
                        pages.push_back(p1);
                    }
                }
                let res = e.load_rom(VRomSet { pages });
                e_holder = Some(e);
                res.is_ok()
            }
            Entry::Tap => {
                let mut e = machine(c.m128, true);
                let a = asset(c);
                let res = e.load_tape(Tape::Tap(a));
                let ok = res.is_ok();
                e_holder = Some(e);
                ok
            }
            Entry::GzSna => {
                let cur = std::io::Cursor::new(c.bytes.as_ref().clone());
                match rustzx_utils::io::GzipAsset::new(cur) {
                    Ok(gz) => {
                        let mut e = machine(c.m128, false);
                        let res = e.load_snapshot(Snapshot::Sna(gz));
                        e_holder = Some(e);
                        res.is_ok()
                    }
                    Err(_) => false,
                }
            }
            Entry::Vtx => {
                let cur = std::io::Cursor::new(c.bytes.as_ref().clone());
                if c.chunk > 0 {
                    // a reader that returns short reads (legal for std::io::Read)
                    vtx::Vtx::load(ChunkedReader { inner: cur, chunk: c.chunk }).is_ok()
                } else {
                    vtx::Vtx::load(cur).is_ok()
                }
            }
        }
    }));
    let max_alloc = crate::MAX_ALLOC_REQ.with(|m| m.get());
    let loaded = match r {
        Ok(v) => v,
        Err(p) => return (Outcome::Panic(panic_msg(p)), calls, max_alloc),
    };
    // tape entry keeps its asset: read the call counter from the emulator side by running it
    // ---- afterwards the emulator must still run
    if let Some(mut e) = e_holder {
        let post = std::panic::catch_unwind(std::panic::AssertUnwindSafe(|| {
            if c.entry == Entry::Tap {
                e.play_tape();
                run_frames(&mut e, if quick { 5 } else { 50 });
                e.stop_tape();
                let _ = e.rewind_tape();
                // five fast-load requests through the ROM entry: enough to walk over every block of the
                // seed tapes and to come back to the tape after a request that failed
                e.set_debug_interface(VDebug::at(&[0x8F00]));
                let (req_ix, req_de) = c.request;
                for _ in 0..5 {
                    let mut v = RegsView::default();
                    v.pc = 0x0556;
                    v.sp = 0xFF40;
                    v.af = 0xFF01;
                    v.ix = req_ix;
                    v.de = req_de;
                    v.im = 1;
                    rig::set_regs(e.verif_cpu(), &v);
                    rig::poke(&mut e, 0xFF40, &[0x00, 0x8F]);
                    rig::poke(&mut e, 0x8F00, &[0x76]);
                    if c.m128 {
                        // fast load needs ROM 1; the paging write is harmless on failure
                    }
                    run_frames(&mut e, 3);
                }
            } else {
                run_frames(&mut e, if quick && !loaded { 1 } else { 2 });
                if loaded && matches!(c.entry, Entry::Sna | Entry::Szx | Entry::GzSna) {
                    // the restored machine must also survive the program touching the devices the
                    // file configured: AY select/data/read-back, paging, ULA, Kempston/mouse ports
                    let prog: [u8; 38] = [
                        0xF3, 0x01, 0xFD, 0xFF, 0xED, 0x78, 0x01, 0xFD, 0xBF, 0xED, 0x79, 0x01, 0xFD, 0xFF, 0xED, 0x79, 0xED, 0x78, 0x01, 0xFD, 0x7F, 0xED, 0x78, 0x01, 0xFE, 0x00, 0xED, 0x78, 0x01, 0xDF, 0xFB, 0xED, 0x78, 0xDB, 0x1F,
                        0x18, 0xFE, 0x00,
                    ];
                    rig::poke(&mut e, 0x8000, &prog);
                    e.verif_cpu().regs.set_pc(0x8000);
                    run_frames(&mut e, 1);
                }
            }
        }));
        if let Err(p) = post {
            return (Outcome::PostPanic(panic_msg(p)), calls, max_alloc);
        }
    }
    let max_alloc = max_alloc.max(crate::MAX_ALLOC_REQ.with(|m| m.get()));
    if cap_hit {
        return (Outcome::Calls(calls), calls, max_alloc);
    }
    // allocation bound: inputs that are containers of compressed data may legitimately expand by
    // the format's own maximum ratio (gzip/zlib ~1032:1, LH5 similar)
    let ratio = match c.entry {
        // an SZX page is 16K whatever its stream inflates to: no expansion allowance for it
        Entry::GzSna | Entry::Vtx => 1100,
        _ => 16,
    };
    let bound = (1 << 20) + 4 * 131072 + ratio * c.bytes.len();
    if max_alloc > bound {
        return (Outcome::Alloc(max_alloc), calls, max_alloc);
    }
    (if loaded { Outcome::Ok } else { Outcome::Err }, calls, max_alloc)
}

/// `Read + Seek` over a byte vector that never returns more than `chunk` bytes per call
pub struct ChunkedReader {
    pub inner: std::io::Cursor<Vec<u8>>,
    pub chunk: usize,
}
impl std::io::Read for ChunkedReader {
    fn read(&mut self, buf: &mut [u8]) -> std::io::Result<usize> {
        let n = buf.len().min(self.chunk);
        self.inner.read(&mut buf[..n])
    }
}
impl std::io::Seek for ChunkedReader {
    fn seek(&mut self, pos: std::io::SeekFrom) -> std::io::Result<u64> {
        self.inner.seek(pos)
    }
}

/// Asset wrapper counting calls into the runner's variables
pub struct TrackedAsset<'a> {
    inner: VAsset,
    calls: &'a mut usize,
    cap_hit: &'a mut bool,
}
impl<'a> TrackedAsset<'a> {
    fn new(inner: VAsset, calls: &'a mut usize, cap_hit: &'a mut bool) -> Self {
        TrackedAsset { inner, calls, cap_hit }
    }
}
impl<'a> rustzx_core::host::LoadableAsset for TrackedAsset<'a> {
    fn read(&mut self, buf: &mut [u8]) -> Result<usize, rustzx_core::error::IoError> {
        *self.calls += 1;
        let r = self.inner.read(buf);
        if self.inner.cap_hit {
            *self.cap_hit = true;
        }
        r
    }
}
impl<'a> rustzx_core::host::SeekableAsset for TrackedAsset<'a> {
    fn seek(&mut self, pos: rustzx_core::host::SeekFrom) -> Result<usize, rustzx_core::error::IoError> {
        *self.calls += 1;
        let r = self.inner.seek(pos);
        if self.inner.cap_hit {
            *self.cap_hit = true;
        }
        r
    }
}

// ---------------------------------------------------------------- families

pub struct Family {
    pub name: String,
    pub count: usize,
    pub make: Box<dyn Fn(usize) -> CaseSpec + Send + Sync>,
}

fn seeds() -> Vec<(Entry, bool, String, Arc<Vec<u8>>)> {
    let mut v = Vec::new();
    for m128 in [false, true] {
        let mut s = MState::new(m128, 2);
        s.regs.pc = 0x9000;
        s.regs.iff1 = false;
        s.regs.iff2 = false;
        s.banks[2][0x1000..0x1003].copy_from_slice(&[0xF3, 0x18, 0xFE]);
        let sna = if m128 { sna128(&s) } else { sna48(&s) };
        v.push((Entry::Sna, m128, format!("sna{}", if m128 { 128 } else { 48 }), Arc::new(sna.clone())));
        v.push((Entry::Szx, m128, format!("szx{}-stored", if m128 { 128 } else { 48 }), Arc::new(szx(&s, &SzxOpts::default()))));
        v.push((Entry::Szx, m128, format!("szx{}-zlib", if m128 { 128 } else { 48 }), Arc::new(szx(&s, &SzxOpts { compressed: true, unknown_chunks: true, ..SzxOpts::default() }))));
        let tap = tap_image(&[std_block(0x00, &[3u8; 17]), std_block(0xFF, &(0..300u32).map(|i| i as u8).collect::<Vec<u8>>()), std_block(0xFF, &[1, 2, 3])]);
        v.push((Entry::Tap, m128, "tap".into(), Arc::new(tap)));
        v.push((Entry::Scr, m128, "scr".into(), Arc::new((0..6912u32).map(|i| (i * 7) as u8).collect())));
        let rom: Vec<u8> = (0..if m128 { 32768u32 } else { 16384 }).map(|i| (i * 3) as u8).collect();
        v.push((Entry::Rom, m128, "rom".into(), Arc::new(rom)));
        // gzip of the SNA
        use std::io::Write;
        let mut gz = flate2::write::GzEncoder::new(Vec::new(), flate2::Compression::default());
        gz.write_all(&sna).unwrap();
        v.push((Entry::GzSna, m128, "gz-sna".into(), Arc::new(gz.finish().unwrap())));
    }
    for f in ["secret", "csoon", "sil00", "spf21_00"] {
        let data = rig::read_file(&format!("/repo/vtx/src/test/{}.vtx", f));
        v.push((Entry::Vtx, false, format!("vtx-{}", f), Arc::new(data)));
    }
    v
}

fn spec(entry: Entry, m128: bool, bytes: Vec<u8>, label: String) -> CaseSpec {
    CaseSpec { entry, m128, bytes: Arc::new(bytes), faults: vec![], seek_fault: None, chunk: 0, label, request: (0x9000, 0x0140), recv_stop: 0 }
}

/// structural fields of a seed: (offset, width)
fn fields(entry: Entry, data: &[u8]) -> Vec<(usize, usize)> {
    let mut f = Vec::new();
    match entry {
        Entry::Szx => {
            f.push((0, 1));
            f.push((4, 1));
            f.push((6, 1));
            let mut p = 8;
            let mut n = 0;
            while p + 8 <= data.len() && n < 14 {
                let size = u32::from_le_bytes([data[p + 4], data[p + 5], data[p + 6], data[p + 7]]) as usize;
                f.push((p, 1)); // id byte
                f.push((p + 4, 4)); // size
                if size >= 3 {
                    f.push((p + 8, 2)); // first field of the chunk (flags / AF)
                    f.push((p + 10, 1)); // page number / ...
                }
                p += 8 + size;
                n += 1;
            }
        }
        Entry::Sna => {
            f.push((19, 1));
            f.push((25, 1));
            f.push((26, 1));
            f.push((23, 2));
            if data.len() > 49181 {
                f.push((49179, 2));
                f.push((49181, 1));
                f.push((49182, 1));
            }
        }
        Entry::Tap => {
            let mut p = 0;
            while p + 2 <= data.len() {
                f.push((p, 2));
                f.push((p + 2, 1));
                p += 2 + u16::from_le_bytes([data[p], data[p + 1]]) as usize;
            }
        }
        Entry::Vtx => {
            f.push((0, 2));
            f.push((2, 1));
            f.push((3, 2));
            f.push((5, 4));
            f.push((9, 1));
            f.push((10, 2));
            f.push((12, 4));
            // string terminators
            let mut nuls = 0;
            for (i, b) in data.iter().enumerate().skip(16) {
                if *b == 0 {
                    f.push((i, 1));
                    nuls += 1;
                    if nuls == 5 {
                        f.push((i + 1, 2));
                        break;
                    }
                }
            }
        }
        Entry::GzSna => {
            for i in 0..10.min(data.len()) {
                f.push((i, 1));
            }
            if data.len() > 8 {
                f.push((data.len() - 8, 4));
                f.push((data.len() - 4, 4));
            }
        }
        _ => {}
    }
    f
}

fn field_values(width: usize, n: u64) -> Vec<u64> {
    let v: Vec<u64> = match width {
        1 => vec![0, 1, 2, 3, 7, 8, 0x7F, 0x80, 0xFE, 0xFF],
        2 => vec![0, 1, n.wrapping_sub(1) & 0xFFFF, n & 0xFFFF, (n + 1) & 0xFFFF, 0x7FFF, 0x8000, 0xFFFF],
        _ => vec![0, 1, n.wrapping_sub(1) & 0xFFFF_FFFF, (n + 1) & 0xFFFF_FFFF, 0x7FFF, 0x8000, 0xFFFF, 0x10000, 0x7FFF_FFFF, 0x8000_0000, 0xFFFF_FFFF],
    };
    v
}

fn apply_field(d: &mut [u8], off: usize, width: usize, val: u64) {
    for k in 0..width {
        if off + k < d.len() {
            d[off + k] = (val >> (8 * k)) as u8;
        }
    }
}

fn build_families(quick: bool) -> Vec<Family> {
    let mut fams: Vec<Family> = Vec::new();
    let all_entries = [Entry::Sna, Entry::Szx, Entry::Tap, Entry::Scr, Entry::Rom, Entry::GzSna, Entry::Vtx];
    // a snapshot with its own frame position loaded into a machine that a breakpoint stopped in the
    // middle of a frame: every relation of the two beam positions (same line before/after, other
    // lines, out of range)
    for m128 in [false, true] {
        let (first, line, frame) = if m128 { (14362u32, 228u32, 70908u32) } else { (14336, 224, 69888) };
        let stops: Vec<u32> = vec![5000, first + 50 * line + 4, first + 100 * line + 100, first + 191 * line + 120, frame - 900];
        let rel: Vec<i64> = vec![-400, -224, -130, -100, -64, -32, -16, -8, -4, -1, 0, 1, 4, 8, 64, 224];
        let abs: Vec<u32> = vec![0, frame - 1, frame, 2 * frame + 5, 0xFFFF_FFFF];
        let per = rel.len() + abs.len();
        fams.push(Family {
            name: format!("szx-into-machine-stopped-mid-frame:{}", if m128 { "128k" } else { "48k" }),
            count: stops.len() * per,
            make: Box::new(move |i| {
                let t = stops[i / per];
                let k = i % per;
                let cyc = if k < rel.len() { (t as i64 + rel[k]) as u32 } else { abs[k - rel.len()] };
                let mut s = MState::new(m128, 2);
                s.regs.pc = 0x9000;
                s.regs.iff1 = false;
                s.regs.iff2 = false;
                s.banks[2][0x1000..0x1003].copy_from_slice(&[0xF3, 0x18, 0xFE]);
                s.cycles = cyc;
                let mut c = spec(Entry::Szx, m128, szx(&s, &SzxOpts::default()), format!("szx at T={} into a machine stopped at T={}", cyc, t));
                c.recv_stop = t;
                c
            }),
        });
    }
    // compressed RAM pages whose stream inflates to more than a page: the loader needs 16K of it, so
    // its memory request has to stay bounded whatever the stream expands to
    for m128 in [false, true] {
        let sizes: Vec<usize> = if quick { vec![16383, 16385, 65535, 65536, 65537, 1 << 20, 8 << 20] } else { vec![16383, 16384, 16385, 65535, 65536, 65537, 1 << 20, 8 << 20, 32 << 20] };
        let n = sizes.len();
        fams.push(Family {
            name: format!("szx-ramp-inflating-streams:{}", if m128 { "128k" } else { "48k" }),
            count: n * 2,
            make: Box::new(move |i| {
                let size = sizes[i % n];
                let patterned = i / n == 1;
                let mut s = MState::new(m128, 2);
                s.regs.pc = 0x9000;
                s.regs.iff1 = false;
                s.regs.iff2 = false;
                s.banks[2][0x1000..0x1003].copy_from_slice(&[0xF3, 0x18, 0xFE]);
                let mut f = szx(&s, &SzxOpts::default());
                let plain: Vec<u8> = (0..size).map(|k| if patterned { (k % 251) as u8 } else { 0 }).collect();
                let z = miniz_oxide::deflate::compress_to_vec_zlib(&plain, 9);
                f.extend_from_slice(b"RAMP");
                f.extend_from_slice(&((z.len() + 3) as u32).to_le_bytes());
                f.extend_from_slice(&[1, 0, 0]);
                f.extend_from_slice(&z);
                spec(Entry::Szx, m128, f, format!("szx with a compressed page inflating to {} bytes ({})", size, if patterned { "pattern" } else { "zeros" }))
            }),
        });
    }
    // (a) short strings
    for entry in all_entries {
        for m128 in [false, true] {
            if entry == Entry::Vtx && m128 {
                continue;
            }
            // lengths 0,1,2 exhaustive: 1 + 256 + 65536
            let n_short = if quick { 1 + 256 + 1024 } else { 1 + 256 + 65536 };
            fams.push(Family {
                name: format!("short-strings:{:?}:{}", entry, m128),
                count: n_short,
                make: Box::new(move |i| {
                    let bytes = if i == 0 {
                        vec![]
                    } else if i <= 256 {
                        vec![(i - 1) as u8]
                    } else {
                        let k = i - 257;
                        let k = if quick { (k % 32) * 8 + (k / 32) * 2048 + (k / 32) % 8 } else { k };
                        vec![(k >> 8) as u8, k as u8]
                    };
                    spec(entry, m128, bytes, format!("short:{}", i))
                }),
            });
            // lengths 3 and 4 over a 9-letter alphabet
            let alpha: [u8; 9] = [0x00, 0x01, 0x7F, 0x80, 0xFF, b'Z', b'X', b'S', b'T'];
            fams.push(Family {
                name: format!("alphabet-strings:{:?}:{}", entry, m128),
                count: if quick { 729 } else { 729 + 6561 },
                make: Box::new(move |i| {
                    let (len, mut k) = if i < 729 { (3, i) } else { (4, i - 729) };
                    let mut b = Vec::new();
                    for _ in 0..len {
                        b.push(alpha[k % 9]);
                        k /= 9;
                    }
                    spec(entry, m128, b, format!("alphabet:{}", i))
                }),
            });
        }
    }
    // structure-aware: SZX files whose RAMP chunks carry well-formed page data of every interesting
    // size (stored, and valid zlib streams inflating to that size), valid and invalid page numbers
    for m128 in [false, true] {
        let sizes: Vec<usize> = vec![0, 1, 2, 16383, 16384, 16385, 20000, 32768, 65535, 65536, 70000, 200000];
        let pages: Vec<u8> = vec![0, 2, 5, 7, 8, 255];
        let n = sizes.len() * pages.len() * 2;
        fams.push(Family {
            name: format!("szx-ramp-page-sizes:{}", if m128 { 128 } else { 48 }),
            count: n,
            make: Box::new(move |i| {
                let compressed = i % 2 == 1;
                let page = pages[(i / 2) % pages.len()];
                let size = sizes[i / 2 / pages.len()];
                let mut s = MState::new(m128, 2);
                s.regs.pc = 0x9000;
                s.regs.iff1 = false;
                s.regs.iff2 = false;
                s.banks[2][0x1000..0x1003].copy_from_slice(&[0xF3, 0x18, 0xFE]);
                // a valid file, then one extra RAMP chunk appended
                let mut f = szx(&s, &SzxOpts { compressed, ..SzxOpts::default() });
                let payload: Vec<u8> = (0..size).map(|k| (k * 7 + 1) as u8).collect();
                let mut d = Vec::new();
                d.extend_from_slice(&(compressed as u16).to_le_bytes());
                d.push(page);
                if compressed {
                    d.extend_from_slice(&miniz_oxide::deflate::compress_to_vec_zlib(&payload, 1));
                } else {
                    d.extend_from_slice(&payload);
                }
                f.extend_from_slice(b"RAMP");
                f.extend_from_slice(&(d.len() as u32).to_le_bytes());
                f.extend_from_slice(&d);
                spec(Entry::Szx, m128, f, format!("szx-ramp:{}:page{}:size{}", if compressed { "zlib" } else { "stored" }, page, size))
            }),
        });
    }
    // structure-aware: SZX files whose Z80R chunk holds corner values of PC and SP, with the
    // halted / EI-last flags and every interrupt mode: the loader adjusts PC for HALT and the
    // restored CPU runs on
    for m128 in [false, true] {
        let pcs: Vec<u16> = vec![0x0000, 0x0001, 0x0002, 0x3FFF, 0x4000, 0x7FFF, 0x8000, 0xFFFE, 0xFFFF];
        let sps: Vec<u16> = vec![0x0000, 0x0001, 0x0002, 0x4000, 0xFFFF];
        let n = pcs.len() * sps.len() * 2 * 2 * 2;
        fams.push(Family {
            name: format!("szx-z80r-corners:{}", if m128 { 128 } else { 48 }),
            count: n,
            make: Box::new(move |i| {
                let compressed = i % 2 == 1;
                let halted = (i / 2) % 2 == 1;
                let eilast = (i / 4) % 2 == 1;
                let sp = sps[(i / 8) % sps.len()];
                let pc = pcs[i / 8 / sps.len()];
                let mut s = MState::new(m128, 2);
                s.regs.pc = pc;
                s.regs.sp = sp;
                s.regs.iff1 = eilast;
                s.regs.iff2 = eilast;
                s.regs.im = (i % 3) as u8;
                s.eilast = eilast;
                let f = szx(&s, &SzxOpts { compressed, halted, ..SzxOpts::default() });
                spec(Entry::Szx, m128, f, format!("szx-z80r:pc{:04x}:sp{:04x}:halted{}:eilast{}", pc, sp, halted, eilast))
            }),
        });
    }
    // structure-aware: tapes whose fast load (ROM trap) runs against the top of memory, the ROM and
    // the request corners: IX+DE beyond 0xFFFF, into ROM, DE = 0 / 1 / FFFF, block shorter/longer
    for m128 in [false, true] {
        let reqs: Vec<(u16, u16)> = vec![(0xFFFE, 4), (0xFFFF, 1), (0xFFFF, 2), (0xFF00, 0x0200), (0x0000, 0x0010), (0x3FFE, 4), (0x8000, 0), (0x8000, 0xFFFF), (0xFFF0, 0xFFFF)];
        let lens: Vec<usize> = vec![0, 1, 2, 4, 300, 70000];
        let n = reqs.len() * lens.len();
        fams.push(Family {
            name: format!("tap-fastload-request-corners:{}", if m128 { 128 } else { 48 }),
            count: n,
            make: Box::new(move |i| {
                let (ix, de) = reqs[i % reqs.len()];
                let len = lens[i / reqs.len()];
                let payload: Vec<u8> = (0..len.min(65533)).map(|k| (k * 11 + 5) as u8).collect();
                let blk = std_block(0xFF, &payload);
                let mut c = spec(Entry::Tap, m128, tap_image(&[blk.clone(), blk]), format!("tap-fastload:ix{:04x}:de{:04x}:payload{}", ix, de, len));
                c.request = (ix, de);
                c
            }),
        });
    }
    // structure-aware: SZX chunk ids in every letter-case spelling with chunk sizes below, at and
    // above the chunk's fixed size (the id decides which fixed offsets the loader reads)
    for m128 in [false, true] {
        let ids: Vec<&'static [u8; 4]> = vec![b"Z80R", b"SPCR", b"RAMP", b"AY\0\0", b"KEYB", b"CRTR", b"AMXM", b"JOY\0"];
        let sizes: Vec<usize> = vec![0, 1, 2, 3, 4, 7, 8, 17, 18, 36, 37, 38, 100];
        let n = ids.len() * 16 * sizes.len();
        fams.push(Family {
            name: format!("szx-chunk-id-spellings:{}", if m128 { 128 } else { 48 }),
            count: n,
            make: Box::new(move |i| {
                let size = sizes[i % sizes.len()];
                let case_mask = (i / sizes.len()) % 16;
                let id0 = ids[i / sizes.len() / 16];
                let mut id = *id0;
                for b in 0..4 {
                    if case_mask & (1 << b) != 0 && id[b].is_ascii_alphabetic() {
                        id[b] ^= 0x20;
                    }
                }
                // header of a valid file for this machine, then the one chunk, then the rest of the valid file
                let mut s = MState::new(m128, 2);
                s.regs.pc = 0x9000;
                s.banks[2][0x1000..0x1003].copy_from_slice(&[0xF3, 0x18, 0xFE]);
                let valid = szx(&s, &SzxOpts::default());
                let mut f = valid[..8].to_vec();
                f.extend_from_slice(&id);
                f.extend_from_slice(&(size as u32).to_le_bytes());
                f.extend((0..size).map(|k| (k * 3 + 1) as u8));
                f.extend_from_slice(&valid[8..]);
                spec(Entry::Szx, m128, f, format!("szx-chunk-id:{}:size{}", String::from_utf8_lossy(&id).replace('\0', "."), size))
            }),
        });
    }
    // VTX through readers that return short reads: a header followed by every strings area over
    // {'A', NUL} up to a length, read 1/2/3/5 bytes at a time
    {
        let maxlen = if quick { 10usize } else { 13 };
        let per_len: Vec<usize> = (0..=maxlen).map(|l| 1usize << l).collect();
        let total: usize = per_len.iter().sum();
        fams.push(Family {
            name: "vtx-strings-short-reads".into(),
            count: total * 4,
            make: Box::new(move |i| {
                let chunk = [1usize, 2, 3, 5][i % 4];
                let mut k = i / 4;
                let mut len = 0;
                while k >= (1usize << len) {
                    k -= 1usize << len;
                    len += 1;
                }
                let mut f: Vec<u8> = vec![b'a', b'y', 1, 0, 0];
                f.extend_from_slice(&1_773_400u32.to_le_bytes());
                f.push(50);
                f.extend_from_slice(&2000u16.to_le_bytes());
                f.extend_from_slice(&14u32.to_le_bytes());
                for b in 0..len {
                    f.push(if k & (1 << b) != 0 { 0 } else { b'A' });
                }
                f.extend_from_slice(&[1, 2, 3, 4, 5, 6, 7, 8]);
                let mut c = spec(Entry::Vtx, false, f, format!("vtx-strings:len{}:pattern{:b}:chunk{}", len, k, chunk));
                c.chunk = chunk;
                c
            }),
        });
    }
    for (entry, m128, name, data) in seeds() {
        let len = data.len();
        // (b) every prefix
        {
            let data = data.clone();
            let name2 = name.clone();
            let stride = if quick && len > 20000 { 17 } else { 1 };
            let cnt = if stride == 1 { len } else { 4096 + (len - 4096) / stride };
            fams.push(Family {
                name: format!("prefixes:{}", name),
                count: cnt,
                make: Box::new(move |i| {
                    let n = if stride == 1 || i < 4096 { i } else { 4096 + (i - 4096) * stride };
                    spec(entry, m128, data[..n.min(data.len())].to_vec(), format!("prefix:{}:{}", name2, n))
                }),
            });
        }
        // (c) structural fields: singles and pairs
        let fl = fields(entry, &data);
        let mut muts: Vec<(usize, usize, u64)> = Vec::new();
        for (off, w) in fl.iter() {
            let cur = (0..*w).fold(0u64, |a, k| a | (*data.get(off + k).unwrap_or(&0) as u64) << (8 * k));
            for v in field_values(*w, cur) {
                if v != cur {
                    muts.push((*off, *w, v));
                }
            }
        }
        let nm = muts.len();
        if nm > 0 {
            let muts = Arc::new(muts);
            {
                let data = data.clone();
                let muts = muts.clone();
                let name2 = name.clone();
                fams.push(Family {
                    name: format!("field-single:{}", name),
                    count: nm,
                    make: Box::new(move |i| {
                        let mut d = data.as_ref().clone();
                        let (o, w, v) = muts[i];
                        apply_field(&mut d, o, w, v);
                        spec(entry, m128, d, format!("field:{}:off{}w{}={:x}", name2, o, w, v))
                    }),
                });
            }
            let pairs = if quick { (nm * (nm - 1) / 2).min(3000) } else { nm * (nm - 1) / 2 };
            let data2 = data.clone();
            let name2 = name.clone();
            let total_pairs = nm * (nm - 1) / 2;
            fams.push(Family {
                name: format!("field-pairs:{}", name),
                count: pairs,
                make: Box::new(move |i| {
                    // spread over the full pair space in quick
                    let idx = if pairs == total_pairs { i } else { (i as u128 * total_pairs as u128 / pairs as u128) as usize };
                    // unrank (a<b)
                    let mut a = 0usize;
                    let mut rem = idx;
                    while rem >= nm - 1 - a {
                        rem -= nm - 1 - a;
                        a += 1;
                    }
                    let b = a + 1 + rem;
                    let mut d = data2.as_ref().clone();
                    let (o, w, v) = muts[a];
                    apply_field(&mut d, o, w, v);
                    let (o2, w2, v2) = muts[b];
                    apply_field(&mut d, o2, w2, v2);
                    spec(entry, m128, d, format!("field-pair:{}:off{}={:x},off{}={:x}", name2, o, v, o2, v2))
                }),
            });
        }
        // (d) single-byte substitutions: header region densely, the rest with a stride
        let dense = match entry {
            Entry::Szx => 8 + 8 + 37 + 8 + 37 + 8 + 8 + 8 + 3 + 64,
            Entry::Sna => 27,
            Entry::Tap => 24,
            Entry::Vtx => 96,
            Entry::GzSna => 32,
            _ => 0,
        }
        .min(len);
        if dense > 0 {
            let sparse_offsets: Vec<usize> = (dense..len).step_by(if quick { 997 } else { 97 }).collect();
            let nsub = (dense + sparse_offsets.len()) * if quick { 32 } else { 256 };
            let data = data.clone();
            let name2 = name.clone();
            let per = if quick { 32 } else { 256 };
            fams.push(Family {
                name: format!("substitution:{}", name),
                count: nsub,
                make: Box::new(move |i| {
                    let pos = i / per;
                    let val = if per == 256 { (i % per) as u8 } else { [0x00u8, 0x01, 0x02, 0x03, 0x04, 0x07, 0x08, 0x0F, 0x10, 0x1F, 0x20, 0x3F, 0x40, 0x41, 0x52, 0x5A, 0x61, 0x79, 0x7A, 0x7F, 0x80, 0x81, 0xA0, 0xBF, 0xC0, 0xDF, 0xE0, 0xF0, 0xFB, 0xFD, 0xFE, 0xFF][i % per] };
                    let off = if pos < dense { pos } else { sparse_offsets[pos - dense] };
                    let mut d = data.as_ref().clone();
                    d[off] = val;
                    spec(entry, m128, d, format!("subst:{}:off{}={:02x}", name2, off, val))
                }),
            });
        }
        if entry == Entry::Vtx {
            let data3 = data.clone();
            let name3 = name.clone();
            fams.push(Family {
                name: format!("reader-chunked:{}", name),
                count: 9,
                make: Box::new(move |i| {
                    let mut c = spec(entry, m128, vec![], String::new());
                    c.bytes = data3.clone();
                    c.chunk = [1usize, 2, 3, 127, 128, 129, 255, 256, 257][i];
                    c.label = format!("chunked:{}:{}", name3, c.chunk);
                    c
                }),
            });
        }
        // (e) asset faults (entries that read through a host asset)
        if matches!(entry, Entry::Sna | Entry::Szx | Entry::Scr | Entry::Tap | Entry::Rom) {
            // number of asset calls of the fault-free run
            let base = spec(entry, m128, data.as_ref().clone(), "probe".into());
            let (_, calls, _) = execute(&base);
            let ncalls = match entry {
                Entry::Tap => 40,
                Entry::Rom => 4,
                _ => calls.max(4) + 2,
            };
            let kinds = [Fault::Err, Fault::Short1, Fault::Zero];
            let single = ncalls * 3 + ncalls;
            let data1 = data.clone();
            let name2 = name.clone();
            fams.push(Family {
                name: format!("asset-fault-1:{}", name),
                count: single,
                make: Box::new(move |i| {
                    let mut c = spec(entry, m128, vec![], format!("fault:{}:#{}", name2, i));
                    c.bytes = data1.clone();
                    if i < ncalls * 3 {
                        c.faults = vec![(i / 3, kinds[i % 3])];
                        c.label = format!("fault:{}:call{}:{:?}", name2, i / 3, kinds[i % 3]);
                    } else {
                        c.seek_fault = Some(i - ncalls * 3);
                        c.label = format!("fault:{}:seek-failure-at-call{}", name2, i - ncalls * 3);
                    }
                    c
                }),
            });
            // chunked reads of every small size
            let data3 = data.clone();
            let name3 = name.clone();
            fams.push(Family {
                name: format!("asset-chunked:{}", name),
                count: 6,
                make: Box::new(move |i| {
                    let mut c = spec(entry, m128, vec![], String::new());
                    c.bytes = data3.clone();
                    c.chunk = [1usize, 2, 3, 127, 128, 129][i];
                    c.label = format!("chunked:{}:{}", name3, c.chunk);
                    c
                }),
            });
            if !quick {
                let n2 = ncalls * 3;
                let data2 = data.clone();
                let name4 = name.clone();
                fams.push(Family {
                    name: format!("asset-fault-2:{}", name),
                    count: n2 * n2,
                    make: Box::new(move |i| {
                        let (a, b) = (i / n2, i % n2);
                        let mut c = spec(entry, m128, vec![], String::new());
                        c.bytes = data2.clone();
                        c.faults = vec![(a / 3, kinds[a % 3]), (b / 3, kinds[b % 3])];
                        c.label = format!("fault2:{}:call{}:{:?}+call{}:{:?}", name4, a / 3, kinds[a % 3], b / 3, kinds[b % 3]);
                        c
                    }),
                });
            }
        }
    }
    fams
}

// ---------------------------------------------------------------- runner with watchdog

struct Slot {
    busy: AtomicBool,
    dead: AtomicBool,
    started: Mutex<Instant>,
    case_id: AtomicUsize,
}

pub fn run(tier: Tier, seed: u64, replay: Option<String>) -> i32 {
    let ctx = Arc::new(Ctx::new("C15", tier, seed, "fault_enumeration"));
    let quick = !tier.is_thorough();
    let fams = Arc::new(build_families(quick));
    let mut starts = Vec::new();
    let mut total = 0usize;
    for f in fams.iter() {
        starts.push(total);
        total += f.count;
    }
    let starts = Arc::new(starts);
    let locate = {
        let starts = starts.clone();
        move |i: usize| -> (usize, usize) {
            let f = starts.partition_point(|s| *s <= i) - 1;
            (f, i - starts[f])
        }
    };
    if let Some(path) = replay {
        let v: serde_json::Value = serde_json::from_slice(&rig::read_file(&path)).expect("replay json");
        let c = &v["case"];
        let fam = c["family"].as_str().unwrap_or("");
        let idx = c["index"].as_u64().unwrap_or(0) as usize;
        for f in fams.iter() {
            if f.name == fam {
                let cs = (f.make)(idx);
                println!("replay: {} case {} ({}), {} bytes", fam, idx, cs.label, cs.bytes.len());
                let (o, calls, alloc) = execute(&cs);
                println!("replay: outcome {:?}, asset calls {}, largest allocation request {}", o, calls, alloc);
                return matches!(o, Outcome::Panic(_) | Outcome::PostPanic(_) | Outcome::Calls(_) | Outcome::Alloc(_)) as i32;
            }
        }
        println!("replay: family {} not found in this tier; try thorough", fam);
        return 2;
    }
    let next = Arc::new(AtomicUsize::new(0));
    let nthreads = crate::vcore::n_threads();
    let slots: Arc<Vec<Slot>> = Arc::new((0..nthreads + 64).map(|_| Slot { busy: AtomicBool::new(false), dead: AtomicBool::new(false), started: Mutex::new(Instant::now()), case_id: AtomicUsize::new(0) }).collect());
    let live = Arc::new(AtomicUsize::new(0));
    let outcomes_ok = Arc::new(AtomicU64::new(0));
    let outcomes_err = Arc::new(AtomicU64::new(0));
    let hangs = Arc::new(AtomicUsize::new(0));
    let spawn_worker = {
        let (fams, next, slots, live, ctx, ok, er) = (fams.clone(), next.clone(), slots.clone(), live.clone(), ctx.clone(), outcomes_ok.clone(), outcomes_err.clone());
        let locate = locate.clone();
        move |slot_idx: usize| {
            let (fams, next, slots, live, ctx, ok, er) = (fams.clone(), next.clone(), slots.clone(), live.clone(), ctx.clone(), ok.clone(), er.clone());
            let locate = locate.clone();
            live.fetch_add(1, Ordering::SeqCst);
            std::thread::Builder::new()
                .stack_size(16 << 20)
                .spawn(move || {
                    loop {
                        let i = next.fetch_add(1, Ordering::SeqCst);
                        if i >= total {
                            break;
                        }
                        let (f, k) = locate(i);
                        let cs = (fams[f].make)(k);
                        let slot = &slots[slot_idx];
                        slot.case_id.store(i, Ordering::SeqCst);
                        *slot.started.lock().unwrap() = Instant::now();
                        slot.busy.store(true, Ordering::SeqCst);
                        let (o, _calls, _alloc) = execute_q(&cs, quick);
                        slot.busy.store(false, Ordering::SeqCst);
                        if slot.dead.load(Ordering::SeqCst) {
                            // the watchdog already reported this case as a hang and replaced us
                            return;
                        }
                        let case = json!({"family": fams[f].name, "index": k, "label": cs.label, "entry": format!("{:?}", cs.entry), "m128": cs.m128, "len": cs.bytes.len()});
                        let mname = if cs.m128 { "128k" } else { "48k" };
                        match o {
                            Outcome::Ok => {
                                ok.fetch_add(1, Ordering::Relaxed);
                            }
                            Outcome::Err => {
                                er.fetch_add(1, Ordering::Relaxed);
                            }
                            Outcome::Panic(m) => ctx.violation(
                                &format!("C15:{:?}:panic:{}", cs.entry, normalize(&m)),
                                &format!("{:?} loader ({}) panicked on input '{}' ({} bytes): {}", cs.entry, mname, cs.label, cs.bytes.len(), m),
                                case,
                            ),
                            Outcome::PostPanic(m) => ctx.violation(
                                &format!("C15:{:?}:panic-while-emulating-afterwards:{}", cs.entry, normalize(&m)),
                                &format!("after {:?} load of '{}' the emulator panicked while emulating further frames: {}", cs.entry, cs.label, m),
                                case,
                            ),
                            Outcome::Calls(n) => ctx.violation(
                                &format!("C15:{:?}:asset-calls-unbounded", cs.entry),
                                &format!("{:?} loader made more than {} asset calls on input '{}' ({} bytes)", cs.entry, n, cs.label, cs.bytes.len()),
                                case,
                            ),
                            Outcome::Alloc(n) => ctx.violation(
                                &format!("C15:{:?}:allocation-out-of-proportion", cs.entry),
                                &format!("{:?} loader requested a single allocation of {} bytes for input '{}' of {} bytes", cs.entry, n, cs.label, cs.bytes.len()),
                                case,
                            ),
                        }
                    }
                    live.fetch_sub(1, Ordering::SeqCst);
                })
                .expect("spawn");
        }
    };
    for s in 0..nthreads {
        spawn_worker(s);
    }
    // watchdog
    let mut next_slot = nthreads;
    let limit = Duration::from_secs(if quick { 4 } else { 8 });
    loop {
        std::thread::sleep(Duration::from_millis(100));
        for s in 0..next_slot {
            let slot = &slots[s];
            if slot.busy.load(Ordering::SeqCst) && !slot.dead.load(Ordering::SeqCst) {
                let started = *slot.started.lock().unwrap();
                if started.elapsed() > limit {
                    slot.dead.store(true, Ordering::SeqCst);
                    live.fetch_sub(1, Ordering::SeqCst);
                    let i = slot.case_id.load(Ordering::SeqCst);
                    let (f, k) = locate(i);
                    let cs = (fams[f].make)(k);
                    ctx.violation(
                        &format!("C15:{:?}:hang", cs.entry),
                        &format!("{:?} loader ({}) did not return within {} s on input '{}' ({} bytes)", cs.entry, if cs.m128 { "128k" } else { "48k" }, limit.as_secs(), cs.label, cs.bytes.len()),
                        json!({"family": fams[f].name, "index": k, "label": cs.label, "entry": format!("{:?}", cs.entry), "m128": cs.m128, "len": cs.bytes.len()}),
                    );
                    let h = hangs.fetch_add(1, Ordering::SeqCst) + 1;
                    if h < 60 && next_slot < slots.len() {
                        spawn_worker(next_slot);
                        next_slot += 1;
                    }
                }
            }
        }
        if live.load(Ordering::SeqCst) == 0 {
            break;
        }
    }
    let done = next.load(Ordering::SeqCst).min(total);
    let capped = hangs.load(Ordering::SeqCst) >= 60 && done < total;
    ctx.add_eval(done as u64);
    ctx.add_nontrivial(done as u64);
    ctx.note("families", json!(fams.iter().map(|f| json!({"name": f.name, "cases": f.count})).collect::<Vec<_>>()));
    ctx.note("loads_ok", json!(outcomes_ok.load(Ordering::Relaxed)));
    ctx.note("loads_err", json!(outcomes_err.load(Ordering::Relaxed)));
    ctx.note("hung_cases", json!(hangs.load(Ordering::SeqCst)));
    if capped {
        ctx.note("cap_hit", json!("stopped spawning replacement workers after 60 hung cases"));
    }
    ctx.outcome(outcomes_ok.load(Ordering::Relaxed));
    ctx.outcome(outcomes_err.load(Ordering::Relaxed) ^ 0xE);
    ctx.sample(json!({"family":"prefixes:szx128-stored","index":100,"label":"first 100 bytes of a valid 128K SZX"}));
    ctx.note("not_judged", json!("vtx::Player (playback, not loading); allocation bound for gzip and LH5 containers uses the formats' own maximum expansion ratio"));
    let code = ctx.finish(
        "entry points: load_snapshot (SNA, SZX), load_tape then play 50 frames, stop, rewind and two fast-load requests, load_screen, load_rom, GzipAsset::new + load, Vtx::load; both machines. Families, each exhaustive: all byte strings of length <= 2 and length 3-4 over a 9-letter alphabet; every prefix of each seed file; boundary values of every structural field alone and in all pairs; every single-byte substitution in the header regions and a stride through the rest; asset faults {Err, 1-byte short read, Ok(0), seek failure} at every call index (pairs in thorough) and chunked reads {1,2,3,127,128,129}; SZX files carrying every relation of their frame position to the position at which a breakpoint stopped the receiving machine (same line before/after, other lines, out of range: 5 stop positions x 21 positions x 2 machines); SZX pages whose zlib stream inflates to 16383..32 Mi bytes (no expansion allowance for SZX: a page is 16K). Monitors: panic, wall-clock watchdog, asset-call budget 64*len+4096, largest allocation request, 2 further frames of emulation (tapes: 50 frames playing, then two fast-load requests). distinct_nontrivial = cases executed",
        !capped,
        &["in-process watchdog: a hung case is reported, its thread abandoned and replaced (process exit ends it)", "counting global allocator records the largest single request"],
    );
    // abandoned (hung) threads die with the process
    std::process::exit(code);
}
