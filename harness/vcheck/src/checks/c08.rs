//! C08 — the displayed picture is the standard decode of the ULA-visible screen memory.
//! E-PROD over screen contents (Latin frames: every screen address meets every byte value;
//! address-line frames) x writers x machine/screen-bank configurations, the completed frame
//! compared pixel by pixel with the reference decode; flash period; beam-relative clause.

use crate::formats::*;
use crate::refzx::*;
use crate::rig::{self, Emu, Opts, RegsView, VAsset};
use crate::vcore::{par_for, Ctx, Tier};
use rustzx_core::host::{Screen, Snapshot, Tape};
use serde_json::json;
use std::time::Duration;

const IDLE: u16 = 0x9000;

#[derive(Clone, Copy, Debug, PartialEq, Eq)]
pub enum Writer {
    Ldir,
    FastLoad,
    Sna,
    SzxStored,
    SzxZlib,
    Scr,
    Poke,
    CpuStores,
}

#[derive(Clone, Copy, Debug, PartialEq, Eq)]
pub enum Cfg {
    K48,
    K128Normal,
    /// shadow screen displayed (7FFD bit 3), content written to bank 7 through 0xC000
    K128Shadow,
    /// content written to bank 5 through 0xC000 (bank 5 paged there)
    K128Bank5AtC000,
}

fn m128(c: Cfg) -> bool {
    c != Cfg::K48
}

fn frames(e: &mut Emu, n: usize) -> bool {
    for _ in 0..n {
        if e.emulate_frames(Duration::from_secs(1000)).is_err() {
            return false;
        }
    }
    true
}

fn latin(j: usize) -> Vec<u8> {
    let mut v = vec![0u8; 6912];
    for a in 0..6144usize {
        v[a] = ((17 * a + j) % 256) as u8;
    }
    for a in 0..768usize {
        v[6144 + a] = ((29 * a + 3 * j) % 256) as u8;
    }
    v
}

fn address_line(k: usize, complement: bool) -> Vec<u8> {
    let mut v = vec![0u8; 6912];
    for a in 0..6912usize {
        let bit = (a >> k) & 1 == 1;
        v[a] = if bit != complement { 0xFF } else { 0x00 };
    }
    // attributes: ink 7 paper 0 unless the address-line pattern already covers attributes
    for a in 6144..6912usize {
        let bit = (a >> k) & 1 == 1;
        v[a] = if bit != complement { 0x47 } else { 0x38 };
    }
    v
}

fn set_idle(e: &mut Emu) {
    rig::poke(e, IDLE, &[0xF3, 0x18, 0xFE]); // DI; JR $
    let mut r = RegsView::default();
    r.pc = IDLE;
    r.sp = 0xBF00;
    r.im = 1;
    rig::set_regs(e.verif_cpu(), &r);
}

/// Bring a machine to the configuration and put `content` into the display memory with `w`.
fn write_content(c: Cfg, w: Writer, content: &[u8]) -> Result<Emu, String> {
    // files reach the loaders through assets returning short reads of a size that rotates with the content
    let chunk = [0usize, 1, 2, 3, 7, 127, 128, 129][(content[0] as usize + content[6144] as usize + w as usize) % 8];
    let mut o = Opts::machine(m128(c));
    o.sound = false;
    o.fastload = true;
    let mut e = rig::emu(&o);
    let latch: u8 = match c {
        Cfg::K48 | Cfg::K128Normal => 0x00,
        Cfg::K128Shadow => 0x0F,       // bank 7 at C000, shadow screen shown
        Cfg::K128Bank5AtC000 => 0x05, // bank 5 at C000, normal screen
    };
    let out_latch = |e: &mut Emu, v: u8| {
        // LD BC,7FFD; LD A,v; OUT (C),A; JP IDLE
        rig::poke(e, 0x8800, &[0x01, 0xFD, 0x7F, 0x3E, v, 0xED, 0x79, 0xC3, IDLE as u8, (IDLE >> 8) as u8]);
        set_idle(e);
        e.verif_cpu().regs.set_pc(0x8800);
        frames(e, 1);
    };
    set_idle(&mut e);
    let dst: u16 = if matches!(c, Cfg::K128Shadow | Cfg::K128Bank5AtC000) { 0xC000 } else { 0x4000 };
    match w {
        Writer::Ldir | Writer::CpuStores => {
            if m128(c) {
                out_latch(&mut e, latch);
            }
            rig::poke(&mut e, 0xA000, content);
            let code: Vec<u8> = if w == Writer::Ldir {
                vec![0xF3, 0x21, 0x00, 0xA0, 0x11, dst as u8, (dst >> 8) as u8, 0x01, 0x00, 0x1B, 0xED, 0xB0, 0xC3, IDLE as u8, (IDLE >> 8) as u8]
            } else {
                // loop: LD A,(HL); LD (DE),A; INC HL; INC DE; DEC BC; LD A,B; OR C; JR NZ,loop
                vec![0xF3, 0x21, 0x00, 0xA0, 0x11, dst as u8, (dst >> 8) as u8, 0x01, 0x00, 0x1B, 0x7E, 0x12, 0x23, 0x13, 0x0B, 0x78, 0xB1, 0x20, 0xF7, 0xC3, IDLE as u8, (IDLE >> 8) as u8]
            };
            rig::poke(&mut e, 0x8800, &code);
            e.verif_cpu().regs.set_pc(0x8800);
            frames(&mut e, 6);
        }
        Writer::Poke => {
            if m128(c) {
                out_latch(&mut e, latch);
            }
            rig::poke(&mut e, dst, content);
        }
        Writer::FastLoad => {
            if m128(c) {
                // ROM 1 must be paged in for the trap, keep the rest of the latch
                out_latch(&mut e, latch | 0x10);
            }
            let blk = crate::tapemodel::std_block(0xFF, content);
            e.load_tape(Tape::Tap(VAsset::new(crate::tapemodel::tap_image(&[blk])).chunked(chunk).eof_as_zero(content[1] & 1 == 1))).map_err(|e| format!("{:?}", e))?;
            let mut v = RegsView::default();
            v.pc = 0x0556;
            v.sp = 0xBF00;
            v.af = 0xFF01;
            v.ix = dst;
            v.de = 6912;
            v.im = 1;
            rig::set_regs(e.verif_cpu(), &v);
            rig::poke(&mut e, 0xBF00, &[IDLE as u8, (IDLE >> 8) as u8]);
            frames(&mut e, 2);
        }
        Writer::Sna | Writer::SzxStored | Writer::SzxZlib => {
            let mut s = MState::new(m128(c), 3);
            s.port7ffd = latch;
            s.regs.pc = IDLE;
            s.regs.sp = 0xBF00;
            s.regs.iff1 = false;
            s.regs.iff2 = false;
            let bank = match c {
                Cfg::K128Shadow => 7,
                _ => 5,
            };
            s.banks[bank][..6912].copy_from_slice(content);
            // idle loop lives at 0x9000 = bank 2 offset 0x1000
            s.banks[2][0x1000..0x1003].copy_from_slice(&[0xF3, 0x18, 0xFE]);
            let file = match w {
                Writer::Sna => {
                    if m128(c) {
                        sna128(&s)
                    } else {
                        sna48(&s)
                    }
                }
                Writer::SzxStored => szx(&s, &SzxOpts::default()),
                _ => szx(&s, &SzxOpts { compressed: true, ..SzxOpts::default() }),
            };
            let snap = if w == Writer::Sna { Snapshot::Sna(VAsset::new(file).chunked(chunk).eof_as_zero(content[1] & 1 == 1)) } else { Snapshot::Szx(VAsset::new(file).chunked(chunk).eof_as_zero(content[1] & 1 == 1)) };
            e.load_snapshot(snap).map_err(|e| format!("{:?}", e))?;
        }
        Writer::Scr => {
            if m128(c) {
                out_latch(&mut e, latch);
            }
            e.load_screen(Screen::Scr(VAsset::new(scr(content)).chunked(chunk).eof_as_zero(content[1] & 1 == 1))).map_err(|e| format!("{:?}", e))?;
        }
    }
    Ok(e)
}

fn displayed_memory(e: &Emu, is128: bool) -> Vec<u8> {
    if is128 {
        let bank = if e.verif_paging().0 & 0x08 != 0 { 7 } else { 5 };
        e.verif_ram_bank(bank)[..6912].to_vec()
    } else {
        e.verif_ram_bank(0)[..6912].to_vec()
    }
}

/// Compare the completed frame with the reference decode. Returns Some(flash phase) when equal.
fn compare_frame(e: &Emu, mem: &[u8]) -> Result<bool, (usize, usize, u8, u8)> {
    let pix = &rig::canvas(e).pix;
    let d0 = decode_screen(mem, false);
    if pix[..] == d0[..] {
        return Ok(false);
    }
    let d1 = decode_screen(mem, true);
    if pix[..] == d1[..] {
        return Ok(true);
    }
    // first mismatch against the closer decode
    let m0 = (0..pix.len()).filter(|i| pix[*i] != d0[*i]).count();
    let m1 = (0..pix.len()).filter(|i| pix[*i] != d1[*i]).count();
    let d = if m0 <= m1 { &d0 } else { &d1 };
    let i = (0..pix.len()).find(|i| pix[*i] != d[*i]).unwrap();
    Err((i % 256, i / 256, pix[i], d[i]))
}

fn check_content(ctx: &Ctx, c: Cfg, w: Writer, content: &[u8], label: &str) {
    // writers that do not apply to a configuration
    if w == Writer::Scr && matches!(c, Cfg::K128Shadow | Cfg::K128Bank5AtC000) {
        return;
    }
    if matches!(w, Writer::Sna | Writer::SzxStored | Writer::SzxZlib) && c == Cfg::K128Bank5AtC000 {
        return;
    }
    ctx.add_eval(1);
    let case = json!({"kind":"content","cfg":format!("{:?}", c),"writer":format!("{:?}", w),"content":label});
    let mut e = match write_content(c, w, content) {
        Ok(e) => e,
        Err(err) => {
            ctx.violation(&format!("C08:writer-error:{:?}:{:?}", w, c), &format!("writer {:?} failed on {:?}: {}", w, c, err), case);
            return;
        }
    };
    // two complete frames with the display unchanged
    frames(&mut e, 3);
    let mem = displayed_memory(&e, m128(c));
    if mem[..] != content[..] {
        ctx.violation(
            &format!("C08:content-not-in-display-memory:{:?}:{:?}", w, c),
            &format!("after writer {:?} on {:?} the displayed bank does not hold the content ({})", w, c, label),
            case,
        );
        return;
    }
    match compare_frame(&e, &mem) {
        Ok(ph) => ctx.outcome(crate::vcore::fnv(label.as_bytes()) ^ ph as u64 ^ ((w as u64) << 8) ^ ((c as u64) << 16)),
        Err((x, y, got, want)) => {
            ctx.violation(
                &format!("C08:picture:{:?}:{:?}", w, c),
                &format!("writer {:?} on {:?}, content {}: pixel ({},{}) shows {:02x} (colour|bright<<3), standard decode of the displayed memory gives {:02x}", w, c, label, x, y, got, want),
                case,
            );
        }
    }
}

fn flash_period(ctx: &Ctx, c: Cfg) {
    let mut content = latin(77);
    for a in 6144..6912 {
        content[a] |= 0x80;
        if content[a] & 7 == (content[a] >> 3) & 7 {
            content[a] ^= 1;
        }
    }
    let mut e = match write_content(c, Writer::Ldir, &content) {
        Ok(e) => e,
        Err(_) => return,
    };
    frames(&mut e, 3);
    let mem = displayed_memory(&e, m128(c));
    let mut phases = Vec::new();
    for k in 0..48 {
        frames(&mut e, 1);
        match compare_frame(&e, &mem) {
            Ok(p) => phases.push(p),
            Err((x, y, g, w)) => {
                ctx.violation(&format!("C08:flash:picture:{:?}", c), &format!("frame {} of an unchanged flashing screen: pixel ({},{}) {:02x} vs {:02x}", k, x, y, g, w), json!({"kind":"flash","cfg":format!("{:?}", c)}));
                return;
            }
        }
    }
    ctx.add_eval(48);
    // runs of equal phase: all complete runs must be exactly 16 frames long
    let mut runs: Vec<usize> = Vec::new();
    let mut cur = 1;
    for k in 1..phases.len() {
        if phases[k] == phases[k - 1] {
            cur += 1;
        } else {
            runs.push(cur);
            cur = 1;
        }
    }
    let inner = if runs.len() > 1 { &runs[1..] } else { &runs[0..0] };
    if runs.is_empty() || inner.iter().any(|r| *r != 16) || runs[0] > 16 {
        ctx.violation(
            &format!("C08:flash:period:{:?}", c),
            &format!("FLASH cells swap with run lengths {:?} (+ trailing {}) frames instead of exactly 16", runs, cur),
            json!({"kind":"flash","cfg":format!("{:?}", c)}),
        );
    }
    ctx.outcome(crate::vcore::fnv(format!("{:?}", runs).as_bytes()));
}

fn bank_switch(ctx: &Ctx) {
    // both screens hold different pictures; bit 3 selects which one is shown, frame by frame
    let a = latin(5);
    let b = latin(130);
    let mut o = Opts::k128();
    o.sound = false;
    let mut e = rig::emu(&o);
    set_idle(&mut e);
    let out_latch = |e: &mut Emu, v: u8| {
        rig::poke(e, 0x8800, &[0x01, 0xFD, 0x7F, 0x3E, v, 0xED, 0x79, 0xC3, IDLE as u8, (IDLE >> 8) as u8]);
        e.verif_cpu().regs.set_pc(0x8800);
        frames(e, 1);
    };
    // fill bank 5 and bank 7 by LDIR
    for (latch, content) in [(0x05u8, &a), (0x07u8, &b)] {
        out_latch(&mut e, latch);
        rig::poke(&mut e, 0xA000, content);
        rig::poke(&mut e, 0x8900, &[0x21, 0x00, 0xA0, 0x11, 0x00, 0xC0, 0x01, 0x00, 0x1B, 0xED, 0xB0, 0xC3, IDLE as u8, (IDLE >> 8) as u8]);
        e.verif_cpu().regs.set_pc(0x8900);
        frames(&mut e, 5);
    }
    // the displayed bank follows the reference latch (bit 3 of the last ACCEPTED write: nothing is
    // accepted after a value with bit 5 set), never the implementation's own bookkeeping
    let mut accepted: u8 = 0x07;
    let mut locked = false;
    for (k, latch) in [0x00u8, 0x08, 0x00, 0x0F, 0x07, 0x08, 0x00, 0x28, 0x00, 0x07, 0x20, 0x08].iter().enumerate() {
        out_latch(&mut e, *latch);
        if !locked {
            accepted = *latch;
            locked = *latch & 0x20 != 0;
        }
        frames(&mut e, 2);
        let shown = if accepted & 8 != 0 { 7 } else { 5 };
        let mem = e.verif_ram_bank(shown)[..6912].to_vec();
        let want = if accepted & 8 != 0 { &b } else { &a };
        ctx.add_eval(1);
        if mem[..] != want[..] {
            ctx.violation("C08:bank-switch:memory", "screen banks do not hold the two pictures", json!({"kind":"bankswitch"}));
            return;
        }
        if let Err((x, y, g, w)) = compare_frame(&e, &mem) {
            ctx.violation(
                &format!("C08:bank-switch:picture{}", if locked && *latch != accepted { ":after-lock" } else { "" }),
                &format!("after paging write #{} ({:02x}; last accepted value {:02x}, paging {}) the picture is not the decode of bank {}: pixel ({},{}) {:02x} vs {:02x}", k, latch, accepted, if locked { "locked" } else { "unlocked" }, shown, x, y, g, w),
                json!({"kind":"bankswitch"}),
            );
            return;
        }
    }
    ctx.outcome(0xB5);
}

/// Snapshot/SCR loaders must make BOTH screens of the 128K displayable: after the load the CPU flips
/// bit 3 of the paging latch without rewriting anything.
fn snapshot_then_flip(ctx: &Ctx) {
    let a = latin(9);
    let b = latin(200);
    for (wname, w) in [("sna", 0), ("szx", 1), ("szx-zlib", 2)] {
        for start_shadow in [false, true] {
            let mut s = MState::new(true, 4);
            s.port7ffd = if start_shadow { 0x08 } else { 0x00 };
            s.regs.pc = 0x8800;
            s.regs.sp = 0xBF00;
            s.regs.iff1 = false;
            s.regs.iff2 = false;
            s.banks[5][..6912].copy_from_slice(&a);
            s.banks[7][..6912].copy_from_slice(&b);
            // program in bank 2: wait two frames' worth, flip bit 3, idle
            let flip = if start_shadow { 0x00 } else { 0x08 };
            let prog: Vec<u8> = vec![
                0xF3, // DI
                0x01, 0x00, 0x40, // LD BC,4000h
                0x0B, 0x78, 0xB1, 0x20, 0xFB, // loop: DEC BC; LD A,B; OR C; JR NZ,loop  (~26 T x 16384 = 6 frames)
                0x01, 0xFD, 0x7F, 0x3E, flip, 0xED, 0x79, // LD BC,7FFD; LD A,flip; OUT (C),A
                0x18, 0xFE, // JR $
            ];
            s.banks[2][0x0800..0x0800 + prog.len()].copy_from_slice(&prog);
            let file = match w {
                0 => sna128(&s),
                1 => szx(&s, &SzxOpts::default()),
                _ => szx(&s, &SzxOpts { compressed: true, ..SzxOpts::default() }),
            };
            let mut o = Opts::k128();
            o.sound = false;
            let mut e = rig::emu(&o);
            let snap = if w == 0 { Snapshot::Sna(VAsset::new(file)) } else { Snapshot::Szx(VAsset::new(file)) };
            if e.load_snapshot(snap).is_err() {
                continue;
            }
            ctx.add_eval(1);
            let case = json!({"kind":"snapshot-flip","writer":wname,"start_shadow":start_shadow});
            frames(&mut e, 3);
            let mem = displayed_memory(&e, true);
            let first = if start_shadow { &b } else { &a };
            if mem[..] != first[..] || compare_frame(&e, &mem).is_err() {
                ctx.violation(&format!("C08:snapshot-then-flip:{}:before-flip", wname), &format!("{} snapshot: picture before the flip is not the decode of the displayed bank", wname), case.clone());
                continue;
            }
            frames(&mut e, 8);
            let mem = displayed_memory(&e, true);
            let second = if start_shadow { &a } else { &b };
            if mem[..] != second[..] {
                ctx.violation(&format!("C08:snapshot-then-flip:{}:latch", wname), "the program did not flip the screen bank (harness)", case.clone());
                continue;
            }
            if let Err((x, y, g, wnt)) = compare_frame(&e, &mem) {
                ctx.violation(
                    &format!("C08:snapshot-then-flip:{}:picture-after-flip", wname),
                    &format!("{} snapshot with pictures in both screen banks (shown first: bank {}): after the program flips bit 3 of 7FFD the picture is not the decode of the now displayed bank: pixel ({},{}) {:02x} vs {:02x}", wname, if start_shadow { 7 } else { 5 }, x, y, g, wnt),
                    case,
                );
            }
            ctx.outcome(0x5F00 + w as u64 * 2 + start_shadow as u64);
        }
    }
}

/// Emulator-internal memory writes are writers too: saving a 48K SNA pushes PC below SP and has to
/// put the two bytes back; with SP inside the display file or the attributes the picture must still
/// be the decode of the (unchanged) memory afterwards. SP over bitmap, attribute and boundary
/// addresses x both snapshot formats x both machines.
fn save_with_stack_in_screen(ctx: &Ctx) {
    struct Rec;
    impl rustzx_core::host::DataRecorder for Rec {
        fn write(&mut self, buf: &[u8]) -> Result<usize, rustzx_core::error::IoError> {
            Ok(buf.len())
        }
    }
    let content = latin(41);
    let mut jobs: Vec<(bool, u16, bool)> = Vec::new();
    for is128 in [false, true] {
        for sp in [0x4002u16, 0x4001, 0x4102, 0x57FF, 0x5800, 0x5801, 0x5902, 0x5B00, 0x5B01] {
            for szx in [false, true] {
                jobs.push((is128, sp, szx));
            }
        }
    }
    par_for(jobs.len(), 1, |j| {
        let (is128, sp, szx) = jobs[j];
        let mut e = match write_content(if is128 { Cfg::K128Normal } else { Cfg::K48 }, Writer::Ldir, &content) {
            Ok(e) => e,
            Err(_) => return,
        };
        frames(&mut e, 2);
        e.verif_cpu().regs.set_sp(sp);
        let r = if szx {
            e.save_snapshot(rustzx_core::host::SnapshotRecorder::Szx(Rec))
        } else {
            e.save_snapshot(rustzx_core::host::SnapshotRecorder::Sna(Rec))
        };
        if r.is_err() {
            return;
        }
        frames(&mut e, 3);
        ctx.add_eval(1);
        let mem = displayed_memory(&e, is128);
        let case = json!({"kind":"save-stack-in-screen","m128":is128,"sp":sp,"szx":szx});
        if mem[..] != content[..] {
            // the save changed display memory: C13's clause, reported there; the picture clause
            // below is still judged against what the memory holds now
            ctx.note("save_changed_display_memory", json!(true));
        }
        if let Err((x, y, g, w)) = compare_frame(&e, &mem) {
            ctx.violation(
                &format!("C08:save-stack-in-screen:{}:{}", if is128 { "128k" } else { "48k" }, if szx { "szx" } else { "sna" }),
                &format!("{} machine, save_snapshot({}) with SP={:04x} (the two bytes below SP lie in the display memory): three frames later pixel ({},{}) shows {:02x}, the standard decode of the display memory gives {:02x}", if is128 { "128K" } else { "48K" }, if szx { "SZX" } else { "SNA" }, sp, x, y, g, w),
                case,
            );
        }
        ctx.outcome(0x5A00 ^ (sp as u64) << 2 ^ (is128 as u64) << 1 ^ szx as u64);
    });
}

/// A tape block shorter than the request, fast-loaded over a picture that is already on the screen:
/// the loader leaves early (tape error), and what it did store must be on the next frames as well.
fn fastload_short_block(ctx: &Ctx) {
    let old = latin(60);
    let new = latin(190);
    for is128 in [false, true] {
        for len in [1usize, 96, 300, 6143, 6911] {
            let cfg = if is128 { Cfg::K128Normal } else { Cfg::K48 };
            let mut e = match write_content(cfg, Writer::Poke, &old) {
                Ok(e) => e,
                Err(_) => continue,
            };
            frames(&mut e, 2);
            if is128 {
                // ROM 1 for the trap
                rig::poke(&mut e, 0x8800, &[0x01, 0xFD, 0x7F, 0x3E, 0x10, 0xED, 0x79, 0xC3, IDLE as u8, (IDLE >> 8) as u8]);
                e.verif_cpu().regs.set_pc(0x8800);
                frames(&mut e, 1);
            }
            let blk = crate::tapemodel::std_block(0xFF, &new[..len]);
            if e.load_tape(Tape::Tap(VAsset::new(crate::tapemodel::tap_image(&[blk])))).is_err() {
                continue;
            }
            let mut v = RegsView::default();
            v.pc = 0x0556;
            v.sp = 0xBF00;
            v.af = 0xFF01;
            v.ix = 0x4000;
            v.de = 6912;
            v.im = 1;
            rig::set_regs(e.verif_cpu(), &v);
            rig::poke(&mut e, 0xBF00, &[IDLE as u8, (IDLE >> 8) as u8]);
            frames(&mut e, 4);
            ctx.add_eval(1);
            let mem = displayed_memory(&e, is128);
            let case = json!({"kind":"fastload-short","m128":is128,"len":len});
            if mem[..len] != new[..len] {
                ctx.violation("C08:fastload-short:harness", &format!("the short block of {} bytes was not loaded to the screen", len), case);
                continue;
            }
            if let Err((x, y, g, w)) = compare_frame(&e, &mem) {
                ctx.violation(
                    &format!("C08:fastload-short-block:{}", if is128 { "128k" } else { "48k" }),
                    &format!("{} machine: a tape block of {} data bytes fast-loaded to 4000h for a request of 6912 bytes (the loader leaves early): four frames later pixel ({},{}) shows {:02x}, the standard decode of the display memory gives {:02x}", if is128 { "128K" } else { "48K" }, len, x, y, g, w),
                    case,
                );
            }
            ctx.outcome(0xF5B0 ^ (len as u64) << 1 ^ is128 as u64);
        }
    }
}

/// Several stores in ONE frame, on both sides of the beam, then nothing: from the next frame on
/// every frame must be the decode of the (now unchanged) memory. (A renderer that skips redrawing
/// unchanged screens must not lose a store because a later store re-armed its bookkeeping.)
fn stores_around_the_beam_then_idle(ctx: &Ctx) {
    let base = latin(11);
    // addresses: first bitmap byte (line 0), last bitmap byte (line 191), first and last attribute
    let spots: [u16; 4] = [0x4000, 0x57FF, 0x5800, 0x5AFF];
    let mut jobs: Vec<(bool, usize, usize)> = Vec::new();
    for is128 in [false, true] {
        for a in 0..4 {
            for b in 0..4 {
                if a != b {
                    jobs.push((is128, a, b));
                }
            }
        }
    }
    par_for(jobs.len(), 1, |j| {
        let (is128, a, b) = jobs[j];
        let cfg = if is128 { Cfg::K128Normal } else { Cfg::K48 };
        let mut e = match write_content(cfg, Writer::Poke, &base) {
            Ok(e) => e,
            Err(_) => return,
        };
        frames(&mut e, 3);
        // DI; LD BC,1350; loop (26 T each: about 35000 T, the beam is in the middle of the picture);
        // LD A,value; LD (spot a),A; CPL; LD (spot b),A; JR $
        let (sa, sb) = (spots[a], spots[b]);
        let va = !base[(sa - 0x4000) as usize] | 0x41;
        let prog: Vec<u8> = vec![0xF3, 0x01, 0x46, 0x05, 0x0B, 0x78, 0xB1, 0x20, 0xFB, 0x3E, va, 0x32, sa as u8, (sa >> 8) as u8, 0x2F, 0x32, sb as u8, (sb >> 8) as u8, 0x18, 0xFE];
        rig::poke(&mut e, 0x8800, &prog);
        e.verif_cpu().regs.set_pc(0x8800);
        frames(&mut e, 1);
        let case = json!({"kind":"stores-around-beam","m128":is128,"first":sa,"second":sb});
        ctx.add_eval(1);
        for k in 1..=6 {
            frames(&mut e, 1);
            let mem = displayed_memory(&e, is128);
            if mem[(sa - 0x4000) as usize] != va || mem[(sb - 0x4000) as usize] != !va {
                ctx.violation("C08:stores-around-beam:harness", "the two stores did not happen", case);
                return;
            }
            if let Err((x, y, g, w)) = compare_frame(&e, &mem) {
                ctx.violation(
                    &format!("C08:stores-around-the-beam:{}:frame+{}", if is128 { "128k" } else { "48k" }, k),
                    &format!("{} machine: stores to {:04x} and then {:04x} in one frame while the beam was in the middle of the picture, nothing written afterwards: {} frame(s) later pixel ({},{}) shows {:02x}, the standard decode of the unchanged display memory gives {:02x}", if is128 { "128K" } else { "48K" }, sa, sb, k, x, y, g, w),
                    case,
                );
                return;
            }
        }
        ctx.outcome(0x57B0 ^ (a as u64) << 4 ^ (b as u64) << 1 ^ is128 as u64);
    });
}

/// Beam clause without ever placing the clock: the CPU idles (JR $) from the frame start until
/// the chosen moment, so the renderer's own scheduling of its work is part of what is tested.
/// A load that fails part-way has already put bytes into the display memory: whatever the outcome of
/// the call, the next unchanged frames must show what the displayed memory now holds. Files arrive
/// truncated at every structural boundary (and in the middle of the screen data), and through assets
/// whose k-th call fails.
fn failed_loads(ctx: &Ctx, quick: bool) {
    let old = latin(40);
    let new = latin(201);
    let mut jobs: Vec<(Cfg, Writer, usize, usize)> = Vec::new(); // (cfg, writer, truncate-to (0 = whole), failing call (0 = none))
    for c in [Cfg::K48, Cfg::K128Normal, Cfg::K128Shadow] {
        for w in [Writer::Sna, Writer::SzxStored, Writer::SzxZlib, Writer::Scr] {
            if w == Writer::Scr && c == Cfg::K128Shadow {
                continue;
            }
            for k in 1..=(if quick { 12 } else { 40 }) {
                jobs.push((c, w, 0, k));
            }
            for t in 0..(if quick { 12 } else { 48 }) {
                jobs.push((c, w, t + 1, 0));
            }
        }
    }
    par_for(jobs.len(), 2, |j| {
        let (c, w, trunc, failing) = jobs[j];
        ctx.add_eval(1);
        let is128 = m128(c);
        let mut o = Opts::machine(is128);
        o.sound = false;
        let mut e = rig::emu(&o);
        set_idle(&mut e);
        let latch: u8 = if c == Cfg::K128Shadow { 0x0F } else { 0x00 };
        if is128 && latch != 0 {
            rig::poke(&mut e, 0x8800, &[0x01, 0xFD, 0x7F, 0x3E, latch, 0xED, 0x79, 0xC3, IDLE as u8, (IDLE >> 8) as u8]);
            e.verif_cpu().regs.set_pc(0x8800);
            frames(&mut e, 1);
        }
        // the old picture is on the screen before the load
        rig::poke(&mut e, if c == Cfg::K128Shadow { 0xC000 } else { 0x4000 }, &old);
        frames(&mut e, 2);
        let mut s = MState::new(is128, 3);
        s.port7ffd = latch;
        s.regs.pc = IDLE;
        s.regs.sp = 0xBF00;
        s.regs.iff1 = false;
        s.regs.iff2 = false;
        s.banks[5][..6912].copy_from_slice(&new);
        s.banks[7][..6912].copy_from_slice(&new);
        s.banks[2][0x1000..0x1003].copy_from_slice(&[0xF3, 0x18, 0xFE]);
        let mut file = match w {
            Writer::Sna => {
                if is128 {
                    sna128(&s)
                } else {
                    sna48(&s)
                }
            }
            Writer::SzxStored => szx(&s, &SzxOpts::default()),
            Writer::SzxZlib => szx(&s, &SzxOpts { compressed: true, ..SzxOpts::default() }),
            _ => scr(&new),
        };
        let full = file.len();
        if trunc > 0 {
            // cut points spread over the file, denser over its first 24K (headers, first pages)
            let t = trunc - 1;
            let cut = if t % 2 == 0 { (t / 2 + 1) * 24576usize.min(full) / 26 } else { (t / 2 + 1) * full / 26 };
            file.truncate(cut.min(full - 1));
        }
        let cutlen = file.len();
        let mut a = VAsset::new(file).eof_as_zero(j % 2 == 1);
        if failing > 0 {
            a.faults = vec![(failing - 1, rig::Fault::Err)];
        }
        let res = match w {
            Writer::Sna => e.load_snapshot(Snapshot::Sna(a)).is_ok(),
            Writer::Scr => e.load_screen(Screen::Scr(a)).is_ok(),
            _ => e.load_snapshot(Snapshot::Szx(a)).is_ok(),
        };
        // whatever was restored of the CPU, it idles from here on
        set_idle(&mut e);
        frames(&mut e, 3);
        let mem = displayed_memory(&e, is128);
        let case = json!({"kind":"failed-load","cfg":format!("{:?}", c),"writer":format!("{:?}", w),"truncated_to":if trunc > 0 { cutlen } else { full },"failing_call":failing});
        match compare_frame(&e, &mem) {
            Ok(_) => ctx.outcome(0xFA11 ^ (res as u64) ^ ((mem[0] as u64) << 8) ^ ((mem[6911] as u64) << 16) ^ ((w as u64) << 24)),
            Err((x, y, got, want)) => {
                let changed = (0..6912).filter(|i| mem[*i] != old[*i]).count();
                ctx.violation(
                    &format!("C08:picture-after-{}-load:{:?}:{:?}", if res { "completed" } else { "failed" }, w, c),
                    &format!(
                        "{:?} load on {:?} ({}) returned {}: {} bytes of the displayed memory were replaced, but after three idle frames pixel ({},{}) shows {:02x} where the decode of the displayed memory gives {:02x}",
                        w,
                        c,
                        if trunc > 0 { format!("file truncated to {} of {} bytes", cutlen, full) } else { format!("asset call {} fails", failing) },
                        if res { "Ok" } else { "Err" },
                        changed,
                        x,
                        y,
                        got,
                        want
                    ),
                    case,
                );
            }
        }
    });
}

/// A screen is written in two halves, `gap` frames apart (so that FLASH toggles fall between the
/// halves), into the bank that is hidden or into the one that is shown; once it is on display and left
/// alone, every cell flashes in the same phase: the frame is the decode of the whole bank in one phase.
fn halves_written_across_flash_toggles(ctx: &Ctx, quick: bool) {
    let content = latin(77);
    let gaps: Vec<usize> = if quick { vec![1, 16, 17, 33] } else { vec![1, 2, 15, 16, 17, 31, 32, 33, 48, 49] };
    let mut jobs: Vec<(u8, u8, usize, bool)> = Vec::new(); // (written bank, bank shown while writing, gap, by CPU)
    for (bank, shown) in [(7u8, 5u8), (5, 7), (5, 5), (7, 7)] {
        for g in gaps.iter() {
            for cpu in [false, true] {
                jobs.push((bank, shown, *g, cpu));
            }
        }
    }
    par_for(jobs.len(), 1, |j| {
        let (bank, shown, gap, by_cpu) = jobs[j];
        ctx.add_eval(1);
        let mut o = Opts::k128();
        o.sound = false;
        let mut e = rig::emu(&o);
        set_idle(&mut e);
        let out_latch = |e: &mut Emu, v: u8| {
            rig::poke(e, 0x8800, &[0x01, 0xFD, 0x7F, 0x3E, v, 0xED, 0x79, 0xC3, IDLE as u8, (IDLE >> 8) as u8]);
            e.verif_cpu().regs.set_pc(0x8800);
            frames(e, 1);
        };
        // the written bank sits at C000; bit 3 selects what is shown meanwhile
        let while_writing = bank | if shown == 7 { 0x08 } else { 0 };
        out_latch(&mut e, while_writing);
        let put = |e: &mut Emu, from: usize, to: usize| {
            // bitmap bytes and attribute bytes of the same third of the range travel together
            let ranges = [(from * 6144 / 768, to * 6144 / 768, 0usize), (from, to, 6144usize)];
            for (a, b, base) in ranges {
                let bytes = &content[base + a..base + b];
                let dst = 0xC000u16 + (base + a) as u16;
                if by_cpu {
                    rig::poke(e, 0xA000, bytes);
                    let n = bytes.len() as u16;
                    rig::poke(e, 0x8900, &[0x21, 0x00, 0xA0, 0x11, dst as u8, (dst >> 8) as u8, 0x01, n as u8, (n >> 8) as u8, 0xED, 0xB0, 0xC3, IDLE as u8, (IDLE >> 8) as u8]);
                    e.verif_cpu().regs.set_pc(0x8900);
                    frames(e, 3);
                } else {
                    rig::poke(e, dst, bytes);
                }
            }
        };
        put(&mut e, 0, 384);
        frames(&mut e, gap);
        put(&mut e, 384, 768);
        // show the written bank and leave it alone
        out_latch(&mut e, bank | if bank == 7 { 0x08 } else { 0 });
        let case = json!({"kind":"halves-across-flash","bank":bank,"shown_while_writing":shown,"gap":gap,"by_cpu":by_cpu});
        for f in 0..3 {
            frames(&mut e, if f == 0 { 2 } else { 5 });
            let mem = e.verif_ram_bank(bank)[..6912].to_vec();
            if mem[..] != content[..] {
                ctx.violation("C08:halves-across-flash:memory", "the written bank does not hold the content", case.clone());
                return;
            }
            if let Err((x, y, g, w)) = compare_frame(&e, &mem) {
                ctx.violation(
                    &format!("C08:halves-across-flash:bank{}-written-while-bank{}-shown", bank, shown),
                    &format!(
                        "bank {} written in two halves {} frames apart ({}) while bank {} was shown, then displayed and left alone: the frame is not the decode of the bank in either FLASH phase: pixel ({},{}) {:02x} vs {:02x}",
                        bank,
                        gap,
                        if by_cpu { "LDIR" } else { "pokes" },
                        shown,
                        x,
                        y,
                        g,
                        w
                    ),
                    case.clone(),
                );
                return;
            }
        }
        ctx.outcome(0xF1A5 ^ ((bank as u64) << 8) ^ ((gap as u64) << 16));
    });
}

/// 16-bit stores (LD (nn),rr in its four encodings) whose two bytes lie on both sides of a 16K window
/// boundary, of the end of the display file, of the bitmap/attribute border, or inside the screen:
/// after the store the picture is the decode of the displayed memory as it now is.
fn word_stores(ctx: &Ctx) {
    let pic = latin(123);
    // (cfg, latch, addresses)
    let cases: Vec<(Cfg, u8, Vec<u16>)> = vec![
        (Cfg::K48, 0, vec![0x3FFF, 0x4000, 0x57FF, 0x5AFE, 0x5AFF, 0x7FFF]),
        (Cfg::K128Normal, 0x00, vec![0x3FFF, 0x4000, 0x57FF, 0x5AFF, 0x7FFF]),
        (Cfg::K128Bank5AtC000, 0x05, vec![0xBFFF, 0xC000, 0xD7FF, 0xDAFF, 0xFFFF, 0x3FFF, 0x7FFF]),
        (Cfg::K128Shadow, 0x0F, vec![0xBFFF, 0xC000, 0xD7FF, 0xDAFF, 0xFFFF]),
    ];
    for (c, latch, addrs) in cases {
        for nn in addrs {
            for form in 0..4usize {
                ctx.add_eval(1);
                let mut o = Opts::machine(m128(c));
                o.sound = false;
                let mut e = rig::emu(&o);
                set_idle(&mut e);
                if m128(c) {
                    rig::poke(&mut e, 0x8800, &[0x01, 0xFD, 0x7F, 0x3E, latch, 0xED, 0x79, 0xC3, IDLE as u8, (IDLE >> 8) as u8]);
                    e.verif_cpu().regs.set_pc(0x8800);
                    frames(&mut e, 1);
                }
                // a picture is on the screen (stored by the CPU through the window the screen is written through)
                let dst: u16 = if matches!(c, Cfg::K128Shadow | Cfg::K128Bank5AtC000) { 0xC000 } else { 0x4000 };
                rig::poke(&mut e, 0xA000, &pic);
                rig::poke(&mut e, 0x8900, &[0xF3, 0x21, 0x00, 0xA0, 0x11, dst as u8, (dst >> 8) as u8, 0x01, 0x00, 0x1B, 0xED, 0xB0, 0xC3, IDLE as u8, (IDLE >> 8) as u8]);
                e.verif_cpu().regs.set_pc(0x8900);
                frames(&mut e, 5);
                let (lo, hi) = (nn as u8, (nn >> 8) as u8);
                let code: Vec<u8> = match form {
                    0 => vec![0x21, 0x5A, 0xA5, 0x22, lo, hi],
                    1 => vec![0x01, 0x5A, 0xA5, 0xED, 0x43, lo, hi],
                    2 => vec![0x11, 0x5A, 0xA5, 0xED, 0x53, lo, hi],
                    _ => vec![0xDD, 0x21, 0x5A, 0xA5, 0xDD, 0x22, lo, hi],
                };
                let mut prog = vec![0xF3];
                prog.extend(code);
                prog.extend([0xC3, IDLE as u8, (IDLE >> 8) as u8]);
                rig::poke(&mut e, 0x8A00, &prog);
                e.verif_cpu().regs.set_pc(0x8A00);
                frames(&mut e, 3);
                let mem = displayed_memory(&e, m128(c));
                if let Err((x, y, g, w)) = compare_frame(&e, &mem) {
                    ctx.violation(
                        &format!("C08:word-store:{:?}", c),
                        &format!(
                            "{:?}: 16-bit store of A55Ah at {:04x} ({}), then three idle frames: pixel ({},{}) shows {:02x}, the decode of the displayed memory gives {:02x}",
                            c,
                            nn,
                            ["LD (nn),HL", "LD (nn),BC", "LD (nn),DE", "LD (nn),IX"][form],
                            x,
                            y,
                            g,
                            w
                        ),
                        json!({"kind":"word-store","cfg":format!("{:?}", c),"addr":nn,"form":form}),
                    );
                }
                ctx.outcome(0x3057 ^ (nn as u64) << 8 ^ (form as u64) << 32 ^ (mem[0] as u64) << 40);
            }
        }
    }
}

fn beam_clause_free_running(ctx: &Ctx, is128: bool, lines: &[usize]) {
    let sp = spec(is128);
    let jobs: Vec<(usize, usize)> = lines.iter().flat_map(|l| [0usize, 15, 31].into_iter().map(move |c| (*l, c))).collect();
    par_for(jobs.len(), 1, |j| {
        let (line, col) = jobs[j];
        let mut o = Opts::machine(is128);
        o.sound = false;
        let mut e = rig::emu_stepping(&o);
        let y = line;
        let off = ((y & 0xC0) << 5) | ((y & 7) << 8) | ((y & 0x38) << 2) | col;
        let addr = 0x4000 + off as u16;
        let attr_addr = 0x5800 + ((y >> 3) * 32 + col) as u16;
        let fetch = sp.first_pixel as i64 + (line as i64) * sp.line as i64 + (col as i64) * 4;
        rig::poke(&mut e, IDLE, &[0xF3, 0x18, 0xFE]);
        rig::poke(&mut e, 0x9100, &[0x77, 0xC3, (IDLE + 1) as u8, (IDLE >> 8) as u8]);
        let idle = |e: &mut Emu| {
            let mut r = RegsView::default();
            r.pc = IDLE + 1;
            r.sp = 0xBF00;
            rig::set_regs(e.verif_cpu(), &r);
        };
        let store = |e: &mut Emu, a: u16, v: u8| {
            let mut r = RegsView::default();
            r.pc = 0x9100;
            r.sp = 0xBF00;
            r.hl = a;
            r.af = (v as u16) << 8;
            rig::set_regs(e.verif_cpu(), &r);
            rig::step(e);
            rig::step(e);
        };
        store(&mut e, attr_addr, 0x07);
        let mut old = 0x0Fu8;
        store(&mut e, addr, old);
        // targets: well before, around and well after the fetch, and far away in the frame
        for dtarget in [-20000i64, -3000, -400, -120, -60, -36, 30, 60, 120, 400, 3000, 20000] {
            let target = fetch + dtarget;
            if target < 200 || target > sp.frame as i64 - 200 {
                continue;
            }
            let new = !old;
            idle(&mut e);
            // finish this frame and one more complete frame with the old value
            let f0 = e.verif_total_frames();
            while e.verif_total_frames() < f0 + 2 {
                rig::step(&mut e);
            }
            // idle until just before the target, then store
            while (e.verif_frame_clocks() as i64) < target - 12 {
                rig::step(&mut e);
            }
            let t = e.verif_frame_clocks() as i64;
            store(&mut e, addr, new);
            idle(&mut e);
            let f1 = e.verif_total_frames();
            while e.verif_total_frames() < f1 + 1 {
                rig::step(&mut e);
            }
            let shown = |e: &Emu| -> u8 {
                let pix = &rig::canvas(e).pix;
                let mut b = 0u8;
                for k in 0..8 {
                    if pix[y * 256 + col * 8 + k] & 7 == 7 {
                        b |= 0x80 >> k;
                    }
                }
                b
            };
            let cur = shown(&e);
            while e.verif_total_frames() < f1 + 2 {
                rig::step(&mut e);
            }
            let next = shown(&e);
            ctx.add_eval(1);
            let case = json!({"kind":"beam-free","m128":is128,"line":line,"col":col,"dtarget":dtarget});
            let clearly_before = t + 13 < fetch - 16;
            let clearly_after = t + 4 > fetch + 16;
            let mname = if is128 { "128k" } else { "48k" };
            if clearly_before && cur != new {
                ctx.violation(&format!("C08:beam-free-running:stored-before-fetch-not-in-current-frame:{}", mname), &format!("line {} column {}: byte stored {} T before the ULA fetch (free-running CPU) shows {:02x} in the current frame, new value {:02x}", line, col, fetch - t, cur, new), case.clone());
            }
            if clearly_after && cur != old {
                ctx.violation(&format!("C08:beam-free-running:stored-after-fetch-visible-too-early:{}", mname), &format!("line {} column {}: byte stored {} T after the ULA fetch (free-running CPU) already shows {:02x} in the current frame (old value {:02x})", line, col, t - fetch, cur, old), case.clone());
            }
            if next != new {
                ctx.violation(&format!("C08:beam-free-running:not-in-next-frame:{}", mname), &format!("line {} column {}: stored byte {:02x} is not shown in the next frame ({:02x})", line, col, new, next), case);
            }
            ctx.outcome((cur == new) as u64 | ((dtarget + 30000) as u64) << 1);
            old = new;
        }
    });
}

/// Beam-relative clause: a byte stored clearly before (after) the beam fetches it appears in the
/// current (next) frame.
fn beam_clause(ctx: &Ctx, is128: bool, lines: &[usize]) {
    let sp = spec(is128);
    let jobs: Vec<(usize, usize)> = lines.iter().flat_map(|l| [0usize, 15, 31].into_iter().map(move |c| (*l, c))).collect();
    par_for(jobs.len(), 1, |j| {
        let (line, col) = jobs[j];
        let mut o = Opts::machine(is128);
        o.sound = false;
        let mut e = rig::emu_stepping(&o);
        let y = line;
        let off = ((y & 0xC0) << 5) | ((y & 7) << 8) | ((y & 0x38) << 2) | col;
        let addr = 0x4000 + off as u16;
        // attribute: ink 7 on paper 0, so the bitmap byte is visible
        let attr_addr = 0x5800 + ((y >> 3) * 32 + col) as u16;
        let fetch = sp.first_pixel as i64 + (line as i64) * sp.line as i64 + (col as i64) * 4;
        let mut old = 0x0Fu8;
        for d in -90i64..=70 {
            let t = fetch + d;
            if t < 40 {
                continue;
            }
            let new = !old;
            // run the idle loop (stepping) to the start of a fresh frame
            rig::poke(&mut e, IDLE, &[0xF3, 0x18, 0xFE]);
            rig::poke(&mut e, 0x9100, &[0x77, 0xC3, IDLE as u8, (IDLE >> 8) as u8]); // LD (HL),A ; JP IDLE
            let mut r = RegsView::default();
            r.pc = IDLE;
            r.sp = 0xBF00;
            rig::set_regs(e.verif_cpu(), &r);
            // establish the old value through the CPU write path and finish the frame
            let f0 = e.verif_total_frames();
            let mut r2 = r.clone();
            r2.pc = 0x9100;
            r2.hl = attr_addr;
            r2.af = 0x0700;
            rig::set_regs(e.verif_cpu(), &r2);
            rig::step(&mut e);
            let mut r3 = r.clone();
            r3.pc = 0x9100;
            r3.hl = addr;
            r3.af = (old as u16) << 8;
            rig::set_regs(e.verif_cpu(), &r3);
            rig::step(&mut e);
            while e.verif_total_frames() < f0 + 2 {
                rig::step(&mut e);
            }
            // now early in a frame: place the clock and store the new value
            e.verif_set_frame_clocks(t as usize);
            let mut r4 = r.clone();
            r4.pc = 0x9100;
            r4.hl = addr;
            r4.af = (new as u16) << 8;
            rig::set_regs(e.verif_cpu(), &r4);
            rig::step(&mut e);
            let f1 = e.verif_total_frames();
            while e.verif_total_frames() < f1 + 1 {
                rig::step(&mut e);
            }
            let shown = |e: &Emu| -> u8 {
                let pix = &rig::canvas(e).pix;
                let mut b = 0u8;
                for k in 0..8 {
                    if pix[y * 256 + col * 8 + k] & 7 == 7 {
                        b |= 0x80 >> k;
                    }
                }
                b
            };
            let cur = shown(&e);
            while e.verif_total_frames() < f1 + 2 {
                rig::step(&mut e);
            }
            let next = shown(&e);
            ctx.add_eval(1);
            let case = json!({"kind":"beam","m128":is128,"line":line,"col":col,"d":d});
            // LD (HL),A: write completes between t+4 and t+7+6 (contention)
            let clearly_before = t + 13 < fetch - 16;
            let clearly_after = t + 4 > fetch + 16;
            if clearly_before && cur != new {
                ctx.violation(
                    &format!("C08:beam:stored-before-fetch-not-in-current-frame:{}", if is128 { "128k" } else { "48k" }),
                    &format!("line {} column {}: byte stored by an instruction starting {} T before the ULA fetch shows {:02x} in the current frame (new value {:02x}, old {:02x})", line, col, -d, cur, new, old),
                    case.clone(),
                );
            }
            if clearly_after && cur != old {
                ctx.violation(
                    &format!("C08:beam:stored-after-fetch-visible-too-early:{}", if is128 { "128k" } else { "48k" }),
                    &format!("line {} column {}: byte stored by an instruction starting {} T after the ULA fetch already shows {:02x} in the current frame (old value {:02x})", line, col, d, cur, old),
                    case.clone(),
                );
            }
            if next != new {
                ctx.violation(
                    &format!("C08:beam:not-in-next-frame:{}", if is128 { "128k" } else { "48k" }),
                    &format!("line {} column {}: stored byte {:02x} is not shown in the next frame ({:02x})", line, col, new, next),
                    case,
                );
            }
            ctx.outcome((cur == new) as u64 | ((d + 100) as u64) << 1);
            old = new;
        }
    });
}

pub fn run(tier: Tier, seed: u64, replay: Option<String>) -> i32 {
    let ctx = Ctx::new("C08", tier, seed, "exploration");
    let quick = !tier.is_thorough();
    if let Some(path) = replay {
        let v: serde_json::Value = serde_json::from_slice(&rig::read_file(&path)).expect("replay json");
        println!("replay: re-running the {} family of the recorded case {}", v["case"]["kind"], v["case"]);
    }
    let cfgs = [Cfg::K48, Cfg::K128Normal, Cfg::K128Shadow, Cfg::K128Bank5AtC000];
    let writers = [Writer::Ldir, Writer::CpuStores, Writer::Poke, Writer::FastLoad, Writer::Sna, Writer::SzxStored, Writer::SzxZlib, Writer::Scr];
    let mut contents: Vec<(String, Vec<u8>)> = Vec::new();
    let nlatin = if quick { 32 } else { 256 };
    for j in 0..nlatin {
        let jj = j * 256 / nlatin;
        contents.push((format!("latin{}", jj), latin(jj)));
    }
    for k in 0..13 {
        contents.push((format!("addrline{}", k), address_line(k, false)));
        contents.push((format!("addrline{}c", k), address_line(k, true)));
    }
    let mut jobs: Vec<(Cfg, Writer, usize)> = Vec::new();
    for c in cfgs {
        for (wi, w) in writers.iter().enumerate() {
            for i in 0..contents.len() {
                // quick: every writer sees 1/4 of the contents (all contents are seen by the LDIR writer)
                if quick && *w != Writer::Ldir && (i + wi) % 4 != 0 {
                    continue;
                }
                jobs.push((c, *w, i));
            }
        }
    }
    par_for(jobs.len(), 2, |j| {
        let (c, w, i) = jobs[j];
        check_content(&ctx, c, w, &contents[i].1, &contents[i].0);
    });
    for c in [Cfg::K48, Cfg::K128Normal, Cfg::K128Shadow] {
        flash_period(&ctx, c);
    }
    bank_switch(&ctx);
    snapshot_then_flip(&ctx);
    save_with_stack_in_screen(&ctx);
    fastload_short_block(&ctx);
    stores_around_the_beam_then_idle(&ctx);
    failed_loads(&ctx, quick);
    word_stores(&ctx);
    halves_written_across_flash_toggles(&ctx, quick);
    let lines: Vec<usize> = if quick { vec![0, 1, 7, 8, 63, 64, 65, 100, 127, 128, 190, 191] } else { (0..192).collect() };
    beam_clause(&ctx, false, &lines);
    beam_clause(&ctx, true, &lines);
    beam_clause_free_running(&ctx, false, &lines);
    beam_clause_free_running(&ctx, true, &lines);
    ctx.add_nontrivial(jobs.len() as u64);
    ctx.sample(json!({"cfg":"K128Shadow","writer":"SzxZlib","content":"latin8"}));
    ctx.note("contents", json!(contents.len()));
    ctx.note("not_judged", json!("phase of the first FLASH swap; stores completing within +-16 T of the ULA fetch of the byte"));
    ctx.finish(
        "contents: Latin frames (bitmap[a]=(17a+j) mod 256, attr[a]=(29a+3j) mod 256: every screen address meets every byte value over j) and 26 address-line frames; writers: LDIR, explicit CPU store loop, execute_poke, tape fast load through the ROM trap, SNA, SZX stored, SZX zlib, SCR (files through assets returning short reads of rotating sizes {whole,1,2,3,7,127,128,129}); configurations: 48K, 128K normal screen, 128K shadow screen written through C000, bank 5 written through C000; after two unchanged frames all 49152 pixels (colour and brightness) are compared with the standard decode of the displayed bank; FLASH run lengths over 48 frames; paging bit 3 switched between frames, also after the latch is locked (the displayed bank is computed from the reference latch, not from the implementation); snapshot with both screens loaded then flipped by the program; SNA/SZX save with SP inside the display memory; tape blocks shorter than the request fast-loaded over a picture already shown; two stores in one frame on both sides of the beam followed by six idle frames; 16-bit stores (four encodings of LD (nn),rr) straddling every 16K window boundary, the end of the display file and the bitmap/attribute border on four configurations; a 128K screen bank written in two halves 1..49 frames apart (FLASH toggles in between) while hidden or shown, then displayed: one FLASH phase for all cells; SNA/SZX/SCR loads over a shown picture from files truncated at cut points spread over the file and through assets whose k-th call fails, the picture compared with the displayed memory as the call left it; beam clause on picture lines x columns {0,15,31} x store times -90..+70 T around the ULA fetch. distinct_nontrivial = (configuration, writer, content) cases",
        false,
        &["quick tier rotates contents over the non-LDIR writers (each writer sees a quarter of the contents)", "beam clause places the frame clock through the hook"],
    )
}
