//! C20 — VTX playback is frame-accurate and independent of play() chunking.
//!
//! Three exhaustive product enumerations on the real `vtx::player::Player` / `vtx::Vtx::load`:
//!  (1) scheduling: a recording `AymBackend` logs (sample index, register, value); every
//!      composition of the requested output into play() buffer lengths is executed and compared
//!      with a 20-line reference model of the statement (frame k applied at sample k*spf, R13=FF
//!      skipped, F*spf samples per channel, identical stream for every partition);
//!  (2) the real `AymPrecise`: bit-exact f64 equality of the Player output, for every subset of a
//!      cut-point set around the frame boundaries, against a direct rendering (write the frame,
//!      pull spf samples) that does not go through Player at all;
//!  (3) decode: `Vtx::load` on files produced by the harness VTX writer (literal-only LH5 encoder,
//!      validated by exhaustive round trip through delharc first) and on the four shipped files, each also through readers that return at most 1/3/256 bytes per call (same result required).

#[path = "../ay_common.rs"]
mod ay_common;
#[path = "../vtx_writer.rs"]
mod vtx_writer;

use crate::rig;
use crate::vcore::{fnv, fnv_mix, par_for, Ctx, Tier};
use aym::{AyMode, AymBackend, AymPrecise, StereoSample};
use ay_common::{panic_shape, Collector};
use serde_json::{json, Value};
use std::cell::RefCell;
use std::collections::HashSet;
use std::panic::{catch_unwind, AssertUnwindSafe};
use vtx::player::Player;
use vtx::Vtx;
use vtx_writer::{lh5_decode, lh5_literals, register_major, write_vtx, Lh5Style, VtxSpec};

type Frame = [u8; 14];
type Fail = (String, String);

// ------------------------------------------------------------------ recording backend

#[derive(Default)]
struct Rec {
    news: Vec<(bool, u8, usize, usize)>,
    writes: Vec<(u64, u8, u8)>,
}

thread_local! {
    static REC: RefCell<Rec> = RefCell::new(Rec::default());
}

fn mode_code(m: &AyMode) -> u8 {
    match m {
        AyMode::Mono => 0,
        AyMode::ABC => 1,
        AyMode::ACB => 2,
        AyMode::BAC => 3,
        AyMode::BCA => 4,
        AyMode::CAB => 5,
        AyMode::CBA => 6,
    }
}

fn mode_from(code: u8) -> AyMode {
    match code {
        0 => AyMode::Mono,
        1 => AyMode::ABC,
        2 => AyMode::ACB,
        3 => AyMode::BAC,
        4 => AyMode::BCA,
        5 => AyMode::CAB,
        _ => AyMode::CBA,
    }
}

fn stereo_from(code: u8) -> vtx::Stereo {
    match code {
        0 => vtx::Stereo::Mono,
        1 => vtx::Stereo::ABC,
        2 => vtx::Stereo::ACB,
        3 => vtx::Stereo::BAC,
        4 => vtx::Stereo::BCA,
        5 => vtx::Stereo::CAB,
        _ => vtx::Stereo::CBA,
    }
}

fn stereo_code(s: &vtx::Stereo) -> u8 {
    match s {
        vtx::Stereo::Mono => 0,
        vtx::Stereo::ABC => 1,
        vtx::Stereo::ACB => 2,
        vtx::Stereo::BAC => 3,
        vtx::Stereo::BCA => 4,
        vtx::Stereo::CAB => 5,
        vtx::Stereo::CBA => 6,
    }
}

/// The value the recording chip emits as sample `n` while its register file is `regs`:
/// exact in f64, distinct per (n, register-file digest), left/right distinguishable.
fn rec_sample(n: u64, regs: &[u8; 14]) -> (f64, f64) {
    let h = (fnv(regs) & 0xFFFF) as f64 / 65536.0;
    let l = n as f64 + h;
    (l, -l - 0.5)
}

struct RecAy {
    regs: [u8; 14],
    n: u64,
}

impl AymBackend for RecAy {
    type SoundSample = f64;
    fn new(chip: aym::SoundChip, mode: AyMode, frequency: usize, sample_rate: usize) -> Self {
        REC.with(|r| {
            r.borrow_mut()
                .news
                .push((matches!(chip, aym::SoundChip::YM), mode_code(&mode), frequency, sample_rate))
        });
        RecAy { regs: [0; 14], n: 0 }
    }
    fn write_register(&mut self, address: u8, value: u8) {
        REC.with(|r| r.borrow_mut().writes.push((self.n, address, value)));
        if (address as usize) < 14 {
            self.regs[address as usize] = value;
        }
    }
    fn next_sample(&mut self) -> StereoSample<f64> {
        let (left, right) = rec_sample(self.n, &self.regs);
        self.n += 1;
        StereoSample { left, right }
    }
}

fn mk_vtx(frames: &[Frame], ym: bool, stereo: u8, frequency: u32, pf: u8) -> Vtx {
    let mut frame_data = Vec::with_capacity(frames.len() * 14);
    for f in frames {
        frame_data.extend_from_slice(f);
    }
    Vtx {
        chip: if ym { vtx::SoundChip::YM } else { vtx::SoundChip::AY },
        stereo: stereo_from(stereo),
        frequency,
        player_frequency: pf,
        loop_start_frame: 0,
        year: 0,
        title: String::new(),
        author: String::new(),
        from: String::new(),
        tracker: String::new(),
        comment: String::new(),
        frame_data,
    }
}

// ------------------------------------------------------------------ reference model (scheduling)

/// What the statement says, for a register log and a samples-per-frame value.
struct Model {
    spf: usize,
    total: usize,
    left: Vec<f64>,
    right: Vec<f64>,
    /// expected register writes in frame order; `log_upto[k]` = entries belonging to frames < k
    log: Vec<(u64, u8, u8)>,
    log_upto: Vec<usize>,
}

fn model(frames: &[Frame], spf: usize) -> Model {
    let total = frames.len() * spf;
    let mut regs = [0u8; 14];
    let mut left = Vec::with_capacity(total);
    let mut right = Vec::with_capacity(total);
    let mut log = Vec::new();
    let mut log_upto = vec![0usize];
    for (k, f) in frames.iter().enumerate() {
        for r in 0..14 {
            if r == 13 && f[r] == 0xFF {
                continue;
            }
            regs[r] = f[r];
            log.push(((k * spf) as u64, r as u8, f[r]));
        }
        log_upto.push(log.len());
        for s in 0..spf {
            let (l, r) = rec_sample((k * spf + s) as u64, &regs);
            left.push(l);
            right.push(r);
        }
    }
    Model { spf, total, left, right, log, log_upto }
}

const SENTINEL: f64 = -12345.0;

struct RunInfo {
    produced: usize,
    short_calls: usize,
    zero_calls: usize,
    writes: usize,
}

/// Execute one partition on the real Player with the recording backend and judge it.
fn sched_case(
    frames: &[Frame],
    rate: usize,
    pf: u8,
    stereo: bool,
    lens: &[usize],
    m: &Model,
    scratch: &mut Vec<f64>,
    verbose: bool,
) -> Result<RunInfo, Fail> {
    sched_case_tail(frames, 0, rate, pf, stereo, lens, m, scratch, verbose)
}

/// `tail` > 0: that many bytes (fewer than fourteen, so not a frame) follow the last frame in
/// `frame_data`; the log still has exactly `frames.len()` frames.
#[allow(clippy::too_many_arguments)]
fn sched_case_tail(
    frames: &[Frame],
    tail: usize,
    rate: usize,
    pf: u8,
    stereo: bool,
    lens: &[usize],
    m: &Model,
    scratch: &mut Vec<f64>,
    verbose: bool,
) -> Result<RunInfo, Fail> {
    let tag = if stereo { "stereo" } else { "mono" };
    let ch = if stereo { 2 } else { 1 };
    REC.with(|r| {
        let mut r = r.borrow_mut();
        r.news.clear();
        r.writes.clear();
    });
    let maxlen = lens.iter().copied().max().unwrap_or(0);
    if scratch.len() < maxlen {
        scratch.resize(maxlen, 0.0);
    }
    let res = catch_unwind(AssertUnwindSafe(|| -> Result<(RunInfo, Option<Fail>), Fail> {
        let mut vtx = mk_vtx(frames, false, 1, 1773400, pf);
        vtx.frame_data.extend(std::iter::repeat(0x5A).take(tail));
        let mut player = Player::<RecAy>::new(vtx, rate, stereo);
        let mut pos = 0usize;
        let mut short_calls = 0;
        let mut zero_calls = 0;
        let mut stream_fail: Option<Fail> = None;
        for (ci, &l) in lens.iter().enumerate() {
            let buf = &mut scratch[..l];
            for x in buf.iter_mut() {
                *x = SENTINEL;
            }
            let ret = player.play(buf);
            let cap = l / ch;
            let n = cap.min(m.total - pos);
            if verbose {
                println!("  call {:2}: len {:3} -> returned {:3} (expected {:3})  samples {:?}", ci, l, ret, n * ch, &buf[..ret.min(l)]);
            }
            if ret != n * ch {
                let cls = if ret > n * ch { "too-many" } else { "too-few" };
                return Err((
                    format!("C20:sched:return-count:{}:{}", tag, cls),
                    format!(
                        "play() call {} with a buffer of {} returned {}, expected {} ({} of {} samples per channel already delivered)",
                        ci, l, ret, n * ch, pos, m.total
                    ),
                ));
            }
            for i in 0..n {
                let (el, er) = (m.left[pos + i], m.right[pos + i]);
                let ok = if stereo { buf[2 * i] == el && buf[2 * i + 1] == er } else { buf[i] == el };
                if !ok && stream_fail.is_none() {
                    stream_fail = Some((
                        format!("C20:sched:stream:{}", tag),
                        format!(
                            "sample {} (call {}, offset {}): got {:?}, expected {:?} (integer part = chip sample index, fraction = register-file digest)",
                            pos + i,
                            ci,
                            i,
                            if stereo { vec![buf[2 * i], buf[2 * i + 1]] } else { vec![buf[i]] },
                            if stereo { vec![el, er] } else { vec![el] }
                        ),
                    ));
                }
            }
            if n < cap {
                short_calls += 1;
            }
            if ret == 0 {
                zero_calls += 1;
            }
            pos += n;
        }
        Ok((RunInfo { produced: pos, short_calls, zero_calls, writes: 0 }, stream_fail))
    }));
    let (mut info, stream_fail) = match res {
        Ok(r) => r?,
        Err(p) => {
            return Err((
                format!("C20:sched:panic:Player::play:{}:{}", tag, panic_shape(&p)),
                format!("Player::new/play panicked: {}", panic_shape(&p)),
            ))
        }
    };
    // register-write schedule
    let started = if m.spf == 0 { 0 } else { ((info.produced + m.spf - 1) / m.spf).min(frames.len()) };
    let expect = &m.log[..m.log_upto[started]];
    let fail = REC.with(|r| -> Option<Fail> {
        let r = r.borrow();
        info.writes = r.writes.len();
        if verbose {
            println!("  register writes seen  (sample, reg, value): {:?}", r.writes);
            println!("  register writes wanted (sample, reg, value): {:?}", expect);
        }
        if r.writes.as_slice() == expect {
            return None;
        }
        // order inside one sample index is not judged
        let mut got = r.writes.clone();
        got.sort();
        let mut want = expect.to_vec();
        want.sort();
        if got == want {
            return None;
        }
        let extra_all: Vec<_> = got.iter().filter(|x| !want.contains(x)).collect();
        let missing_all: Vec<_> = want.iter().filter(|x| !got.contains(x)).collect();
        // class: what kind of deviation from the schedule (judged on the complete difference)
        let cls = if extra_all.iter().any(|x| x.1 == 13 && x.2 == 0xFF) {
            "r13-ff-written"
        } else if missing_all.iter().all(|x| x.1 == 13) && extra_all.is_empty() {
            "r13-value-not-written"
        } else if !extra_all.is_empty() && !missing_all.is_empty() {
            "wrong-sample-index"
        } else if missing_all.is_empty() {
            "extra-writes"
        } else {
            "missing-writes"
        };
        let extra: Vec<_> = extra_all.iter().take(3).collect();
        let missing: Vec<_> = missing_all.iter().take(3).collect();
        Some((
            format!("C20:sched:write-log:{}:{}", tag, cls),
            format!(
                "register writes differ from the schedule: unexpected (sample,reg,val) {:?}, missing {:?}; {} samples per channel produced, spf {}",
                extra, missing, info.produced, m.spf
            ),
        ))
    });
    match (fail, stream_fail) {
        (Some(f), _) => Err(f),
        (None, Some(f)) => Err(f),
        (None, None) => Ok(info),
    }
}

fn sched_json(frames: &[Frame], rate: usize, pf: u8, stereo: bool, lens: &[usize]) -> Value {
    json!({"kind":"sched","frames":frames.iter().map(|f| f.to_vec()).collect::<Vec<_>>(),"rate":rate,"pf":pf,"stereo":stereo,"lens":lens})
}

// ------------------------------------------------------------------ scheduling enumeration

#[derive(Clone, Debug)]
enum Family {
    /// all compositions of `n` buffer elements (positive lengths)
    Elements(usize),
    /// stereo only: all compositions of `n` sample frames into capacities x 4 parity patterns
    FramesParity(usize),
}

#[derive(Clone, Debug)]
struct Cfg {
    f: usize,
    spf: usize,
    rate: usize,
    pf: u8,
    stereo: bool,
    family: Family,
}

impl Family {
    fn count(&self) -> u64 {
        match self {
            Family::Elements(n) => 1u64 << (n - 1),
            Family::FramesParity(n) => 4u64 << (n - 1),
        }
    }
    fn lens(&self, idx: u64, out: &mut Vec<usize>) {
        out.clear();
        match self {
            Family::Elements(n) => {
                let mut len = 0;
                for i in 0..*n {
                    len += 1;
                    if i == n - 1 || (idx >> i) & 1 == 1 {
                        out.push(len);
                        len = 0;
                    }
                }
            }
            Family::FramesParity(n) => {
                let pat = idx & 3;
                let mask = idx >> 2;
                let mut len = 0;
                for i in 0..*n {
                    len += 1;
                    if i == n - 1 || (mask >> i) & 1 == 1 {
                        let k = out.len() as u64;
                        let odd = match pat {
                            0 => 0,
                            1 => 1,
                            2 => k & 1,
                            _ => (k + 1) & 1,
                        };
                        out.push(2 * len + odd as usize);
                        len = 0;
                    }
                }
            }
        }
    }
}

const R13_ALPHA: [u8; 4] = [0x00, 0x01, 0x0F, 0xFF];

/// Register logs of F frames: R13 over {00 01 0F FF}^F x two patterns elsewhere
/// (pattern 0: position-coded distinct bytes; pattern 1: FF everywhere, colliding with the
/// R13 "no change" marker in registers where FF is an ordinary value).
fn logs_for(f: usize) -> Vec<Vec<Frame>> {
    let mut out = Vec::new();
    for pat in 0..2 {
        for combo in 0..(4usize.pow(f as u32)) {
            let mut frames = Vec::new();
            for k in 0..f {
                let mut fr = [0u8; 14];
                for r in 0..13 {
                    fr[r] = if pat == 0 { (k * 14 + r + 1) as u8 } else { 0xFF };
                }
                fr[13] = R13_ALPHA[(combo >> (2 * k)) & 3];
                frames.push(fr);
            }
            out.push(frames);
        }
        if f == 0 {
            break;
        }
    }
    out
}

/// Reduced log set for the configurations whose partition count is too large for all logs.
fn reduced_logs(f: usize) -> Vec<Vec<Frame>> {
    let a = [0x0F, 0xFF, 0x00];
    let b = [0xFF, 0xFF, 0x01];
    let mut out = Vec::new();
    for (pat, r13) in [(0usize, a), (1usize, b)] {
        let mut frames = Vec::new();
        for k in 0..f {
            let mut fr = [0u8; 14];
            for r in 0..13 {
                fr[r] = if pat == 0 { (k * 14 + r + 1) as u8 } else { 0xFF };
            }
            fr[13] = r13[k % 3];
            frames.push(fr);
        }
        out.push(frames);
    }
    out
}


/// Position-coded log of `f` frames (every frame distinct from its neighbours and from the frame 256
/// and 65536 places away), envelope shape written in every fifth frame
fn long_log(f: usize) -> Vec<Frame> {
    (0..f)
        .map(|k| {
            let mut fr = [0u8; 14];
            for r in 0..13 {
                fr[r] = (k.wrapping_mul(13) + r * 17 + (k >> 8) + (k >> 16) * 5) as u8;
            }
            fr[13] = if k % 5 == 0 { (k >> 4) as u8 & 0x0F } else { 0xFF };
            fr
        })
        .collect()
}

fn sched_enumeration(ctx: &Ctx, col: &Collector) {
    let budget: u64 = if ctx.thorough() { 1 << 27 } else { 1 << 23 };
    let extra = 3usize;
    let mut cfgs: Vec<Cfg> = Vec::new();
    for f in 0..=3usize {
        for spf in [1usize, 2, 3, 5] {
            // two (sample rate, player frequency) pairs per spf: exact division and a floor case
            for (rate, pf) in [(spf * 50, 50u8), ((spf + 1) * 7 - 1, 7u8)] {
                let t = f * spf;
                cfgs.push(Cfg { f, spf, rate, pf, stereo: false, family: Family::Elements(t + extra) });
                let e = 2 * t + 3;
                if e <= 23 {
                    cfgs.push(Cfg { f, spf, rate, pf, stereo: true, family: Family::Elements(e) });
                } else {
                    cfgs.push(Cfg { f, spf, rate, pf, stereo: true, family: Family::FramesParity(t + 2) });
                }
            }
        }
    }
    struct Job {
        cfg: usize,
        log: usize,
        frames: Vec<Frame>,
        start: u64,
        end: u64,
    }
    let mut jobs: Vec<Job> = Vec::new();
    let mut reduced_cfgs = 0;
    let mut parity_cfgs = 0;
    for (ci, c) in cfgs.iter().enumerate() {
        let n = c.family.count();
        if matches!(c.family, Family::FramesParity(_)) {
            parity_cfgs += 1;
        }
        let mut logs = logs_for(c.f);
        if n * logs.len() as u64 > budget {
            logs = reduced_logs(c.f);
            reduced_cfgs += 1;
        }
        for (li, frames) in logs.into_iter().enumerate() {
            let mut s = 0u64;
            while s < n {
                let e = (s + 4096).min(n);
                jobs.push(Job { cfg: ci, log: li, frames: frames.clone(), start: s, end: e });
                s = e;
            }
        }
    }
    ctx.note("sched_configurations", json!(cfgs.len()));
    ctx.note("sched_configurations_with_reduced_log_set", json!(reduced_cfgs));
    ctx.note("sched_stereo_configurations_on_capacity_x_parity_family", json!(parity_cfgs));
    let calls_total = std::sync::atomic::AtomicU64::new(0);
    par_for(jobs.len(), 1, |ji| {
        let job = &jobs[ji];
        let c = &cfgs[job.cfg];
        let m = model(&job.frames, c.spf);
        let mut lens = Vec::new();
        let mut scratch = Vec::new();
        let mut outs: HashSet<u64> = HashSet::new();
        let mut calls = 0u64;
        for idx in job.start..job.end {
            c.family.lens(idx, &mut lens);
            // past-the-end behaviour: an empty buffer, a larger one, a single element
            lens.push(0);
            lens.push(if c.stereo { 5 } else { 4 });
            lens.push(1);
            calls += lens.len() as u64;
            match sched_case(&job.frames, c.rate, c.pf, c.stereo, &lens, &m, &mut scratch, false) {
                Ok(info) => {
                    let mut h = fnv(&[c.f as u8, c.spf as u8, c.stereo as u8]);
                    h = fnv_mix(h, info.produced as u64);
                    h = fnv_mix(h, info.writes as u64);
                    h = fnv_mix(h, info.short_calls as u64);
                    h = fnv_mix(h, info.zero_calls as u64);
                    outs.insert(h);
                }
                Err(fail) => {
                    col.fail((job.cfg as u64, job.log as u64, idx), &fail.0, &fail.1, || {
                        sched_json(&job.frames, c.rate, c.pf, c.stereo, &lens)
                    });
                }
            }
        }
        ctx.add_eval(job.end - job.start);
        calls_total.fetch_add(calls, std::sync::atomic::Ordering::Relaxed);
        ctx.outcomes_bulk(&outs);
    });
    // register data that does not end on a frame boundary (the fields are public): 1..13 trailing
    // bytes are not a frame of fourteen values, the log has floor(len/14) frames
    {
        let mut n = 0u64;
        let mut scratch = Vec::new();
        for f in 0..=2usize {
            for spf in [1usize, 3] {
                for tail in [1usize, 7, 13] {
                    for stereo in [false, true] {
                        for frames in reduced_logs(f) {
                            let m = model(&frames, spf);
                            let unit = if stereo { 2 } else { 1 };
                            for lens in [vec![64usize, 8], vec![unit; 24], vec![3; 16]] {
                                n += 1;
                                if let Err(fail) = sched_case_tail(&frames, tail, spf * 50, 50, stereo, &lens, &m, &mut scratch, false) {
                                    let key = format!("{}:trailing-bytes", fail.0);
                                    col.fail((900 + f as u64, tail as u64, n), &key, &format!("register data of {} frame(s) followed by {} trailing byte(s): {}", f, tail, fail.1), || {
                                        let mut j = sched_json(&frames, spf * 50, 50, stereo, &lens);
                                        j["tail"] = json!(tail);
                                        j
                                    });
                                }
                            }
                        }
                    }
                }
            }
        }
        ctx.add_eval(n);
        ctx.note("sched_trailing_byte_cases", json!(n));
    }
    // long logs: frame counts at and around 2^8 and 2^16 (a 22-minute track at 50 Hz), one or two
    // samples per frame, whole-track buffers and small odd ones
    {
        let mut n = 0u64;
        let mut scratch = Vec::new();
        let counts: Vec<usize> = if ctx.thorough() { vec![255, 256, 257, 65535, 65536, 65537, 70001, 131073] } else { vec![255, 256, 257, 65535, 65536, 65537] };
        for f in counts {
            let frames = long_log(f);
            for spf in [1usize, 2] {
                let m = model(&frames, spf);
                for stereo in [false, true] {
                    let unit = if stereo { 2 } else { 1 };
                    let total = f * spf * unit;
                    for lens in [vec![total + 8, 4], vec![4096 * unit; total / (4096 * unit) + 2], vec![7 * unit; total / (7 * unit) + 2]] {
                        n += 1;
                        if let Err(fail) = sched_case(&frames, spf * 50, 50, stereo, &lens, &m, &mut scratch, false) {
                            let key = format!("{}:long-log", fail.0);
                            col.fail((950, f as u64, n), &key, &format!("register log of {} frames, {} sample(s) per frame, {} buffers of {} elements: {}", f, spf, lens.len(), lens[0], fail.1), || {
                                json!({"kind":"sched-long","frames":f,"spf":spf,"stereo":stereo,"buffer_len":lens[0],"buffers":lens.len()})
                            });
                        }
                    }
                }
            }
        }
        ctx.add_eval(n);
        ctx.note("sched_long_log_cases", json!(n));
    }
    ctx.note("sched_play_calls", json!(calls_total.into_inner()));
    // a few real cases for the evidence file
    for (ci, li, idx) in [(40usize, 5usize, 77u64), (41, 9, 1234), (90, 1, 4242)] {
        if ci < cfgs.len() {
            let c = &cfgs[ci];
            let logs = logs_for(c.f);
            let frames = &logs[li % logs.len()];
            let mut lens = Vec::new();
            c.family.lens(idx % c.family.count(), &mut lens);
            ctx.sample(json!({"part":"sched","frames":frames.len(),"spf":c.spf,"rate":c.rate,"pf":c.pf,"stereo":c.stereo,
                "buffer_lens":lens,"r13_per_frame":frames.iter().map(|f| f[13]).collect::<Vec<_>>()}));
        }
    }
}

// ------------------------------------------------------------------ real AymPrecise stream equality

#[derive(Clone, Debug)]
struct RealCfg {
    ym: bool,
    /// vtx stereo code 0..=6
    stereo_code: u8,
    freq: u32,
    rate: usize,
    pf: u8,
    stereo: bool,
}

fn chip_of(ym: bool) -> aym::SoundChip {
    if ym {
        aym::SoundChip::YM
    } else {
        aym::SoundChip::AY
    }
}

/// Direct rendering of the statement, not going through Player: write frame k (R13=FF skipped),
/// pull floor(rate/pf) samples, next frame.
fn render_direct(frames: &[Frame], c: &RealCfg) -> Vec<f64> {
    let spf = c.rate / c.pf as usize;
    let mode = if c.stereo { mode_from(c.stereo_code) } else { AyMode::Mono };
    let mut ay = <AymPrecise as AymBackend>::new(chip_of(c.ym), mode, c.freq as usize, c.rate);
    let mut out = Vec::with_capacity(frames.len() * spf * 2);
    for f in frames {
        for r in 0..14 {
            if r == 13 && f[r] == 0xFF {
                continue;
            }
            ay.write_register(r as u8, f[r]);
        }
        for _ in 0..spf {
            let s = ay.next_sample();
            out.push(s.left);
            if c.stereo {
                out.push(s.right);
            }
        }
    }
    out
}

fn real_case(frames: &[Frame], c: &RealCfg, lens: &[usize], reference: &[f64], verbose: bool) -> Result<u64, Fail> {
    let tag = if c.stereo { "stereo" } else { "mono" };
    let ch = if c.stereo { 2 } else { 1 };
    let total = reference.len() / ch;
    let res = catch_unwind(AssertUnwindSafe(|| -> Result<u64, Fail> {
        let vtx = mk_vtx(frames, c.ym, c.stereo_code, c.freq, c.pf);
        let mut player = Player::<AymPrecise>::new(vtx, c.rate, c.stereo);
        let mut pos = 0usize;
        let mut buf: Vec<f64> = Vec::new();
        let mut digest = 0xcbf29ce484222325u64;
        for (ci, &l) in lens.iter().enumerate() {
            buf.clear();
            buf.resize(l, SENTINEL);
            let ret = player.play(&mut buf[..]);
            let cap = l / ch;
            let n = cap.min(total - pos);
            if verbose {
                println!("  call {:3}: len {:5} -> returned {:5} (expected {:5})", ci, l, ret, n * ch);
            }
            if ret != n * ch {
                return Err((
                    format!("C20:real:return-count:{}", tag),
                    format!("play() call {} with a buffer of {} returned {}, expected {} ({} of {} delivered)", ci, l, ret, n * ch, pos, total),
                ));
            }
            for i in 0..n * ch {
                let want = reference[pos * ch + i];
                if buf[i].to_bits() != want.to_bits() {
                    return Err((
                        format!("C20:real:stream-differs:{}", tag),
                        format!(
                            "AymPrecise output element {} (sample {} per channel, call {} offset {}) is {:e}, direct rendering gives {:e}; buffer lengths {:?}",
                            pos * ch + i,
                            pos + i / ch,
                            ci,
                            i,
                            buf[i],
                            want,
                            lens
                        ),
                    ));
                }
                digest = fnv_mix(digest, buf[i].to_bits());
            }
            pos += n;
        }
        Ok(digest)
    }));
    match res {
        Ok(r) => r,
        Err(p) => Err((
            format!("C20:real:panic:Player::play:{}:{}", tag, panic_shape(&p)),
            format!("Player::new/play with AymPrecise panicked: {}", panic_shape(&p)),
        )),
    }
}

fn cut_points(f: usize, spf: usize) -> Vec<usize> {
    let t = f * spf;
    let mut v: Vec<usize> = vec![0, 1, 2];
    for k in 1..=f {
        for d in [-1i64, 0, 1] {
            let p = (k * spf) as i64 + d;
            if p >= 0 && p as usize <= t {
                v.push(p as usize);
            }
        }
    }
    v.sort();
    v.dedup();
    v
}

fn lens_from_cuts(cuts: &[usize], mask: u64, n: usize, stereo: bool, odd: bool, out: &mut Vec<usize>) {
    out.clear();
    let mut prev = 0usize;
    for (i, c) in cuts.iter().enumerate() {
        if (mask >> i) & 1 == 1 {
            out.push(c - prev);
            prev = *c;
        }
    }
    out.push(n - prev);
    if stereo {
        for x in out.iter_mut() {
            *x = 2 * *x + odd as usize;
        }
    }
}

fn real_logs() -> Vec<Vec<Frame>> {
    // tone A+B+C, noise on C, envelope on B; frame 1 either leaves R13 alone (FF) or retriggers
    let f0: Frame = [0xAC, 0x01, 0x58, 0x03, 0x1C, 0x00, 0x07, 0x18, 0x0F, 0x10, 0x0B, 0x20, 0x00, 0x0A];
    let mut f1: Frame = [0x7D, 0x01, 0x58, 0x03, 0x2C, 0x00, 0x03, 0x18, 0x0C, 0x10, 0x0D, 0x20, 0x00, 0xFF];
    let f2: Frame = [0x7D, 0x00, 0x00, 0x00, 0x2C, 0x01, 0x1F, 0x08, 0x1F, 0x10, 0x0D, 0x40, 0x00, 0x0E];
    let a = vec![f0, f1, f2];
    f1[13] = 0x0A;
    let b = vec![f0, f1, f2];
    vec![a, b]
}

fn real_json(frames: &[Frame], c: &RealCfg, lens: &[usize]) -> Value {
    json!({"kind":"real","frames":frames.iter().map(|f| f.to_vec()).collect::<Vec<_>>(),"ym":c.ym,"stereo_code":c.stereo_code,
        "freq":c.freq,"rate":c.rate,"pf":c.pf,"stereo":c.stereo,"lens":lens})
}

fn real_enumeration(ctx: &Ctx, col: &Collector) {
    let mut cfgs = vec![
        RealCfg { ym: false, stereo_code: 1, freq: 1773400, rate: 44100, pf: 50, stereo: false },
        RealCfg { ym: false, stereo_code: 1, freq: 1773400, rate: 44100, pf: 50, stereo: true },
    ];
    if ctx.thorough() {
        cfgs.push(RealCfg { ym: true, stereo_code: 2, freq: 1750000, rate: 48000, pf: 50, stereo: true });
        cfgs.push(RealCfg { ym: false, stereo_code: 6, freq: 2000000, rate: 44100, pf: 60, stereo: true });
        cfgs.push(RealCfg { ym: true, stereo_code: 0, freq: 1773400, rate: 32000, pf: 49, stereo: false });
    }
    let logs = real_logs();
    struct Job {
        cfg: usize,
        log: usize,
        odd: bool,
        reference: std::sync::Arc<Vec<f64>>,
        start: u64,
        end: u64,
    }
    let mut jobs = Vec::new();
    let mut ref_digests = Vec::new();
    for (ci, c) in cfgs.iter().enumerate() {
        let spf = c.rate / c.pf as usize;
        let cuts = cut_points(3, spf);
        for (li, frames) in logs.iter().enumerate() {
            let reference = std::sync::Arc::new(render_direct(frames, c));
            let mut d = 0u64;
            for x in reference.iter() {
                d = fnv_mix(d, x.to_bits());
            }
            ref_digests.push((ci, li, d));
            for odd in [false, true] {
                if odd && !c.stereo {
                    continue;
                }
                let n = 1u64 << cuts.len();
                let mut s = 0;
                while s < n {
                    jobs.push(Job { cfg: ci, log: li, odd, reference: reference.clone(), start: s, end: (s + 32).min(n) });
                    s += 32;
                }
            }
        }
    }
    // vacuity: the R13=FF log and the retrigger log must sound different
    for ci in 0..cfgs.len() {
        let a = ref_digests.iter().find(|x| x.0 == ci && x.1 == 0).unwrap().2;
        let b = ref_digests.iter().find(|x| x.0 == ci && x.1 == 1).unwrap().2;
        if a == b {
            ctx.note("vacuity_alarm_real_r13_ff_indistinguishable", json!(true));
        }
    }
    ctx.note("real_cut_points_44100_50", json!(cut_points(3, 882)));
    let evals = std::sync::atomic::AtomicU64::new(0);
    par_for(jobs.len(), 1, |ji| {
        let job = &jobs[ji];
        let c = &cfgs[job.cfg];
        let frames = &logs[job.log];
        let spf = c.rate / c.pf as usize;
        let cuts = cut_points(3, spf);
        let n = 3 * spf + 3;
        let mut lens = Vec::new();
        for mask in job.start..job.end {
            lens_from_cuts(&cuts, mask, n, c.stereo, job.odd, &mut lens);
            match real_case(frames, c, &lens, &job.reference, false) {
                Ok(d) => ctx.outcome(d ^ ((job.cfg as u64) << 56)),
                Err(fail) => col.fail((1000 + job.cfg as u64, job.log as u64 * 2 + job.odd as u64, mask), &fail.0, &fail.1, || real_json(frames, c, &lens)),
            }
            evals.fetch_add(1, std::sync::atomic::Ordering::Relaxed);
        }
    });
    let e = evals.into_inner();
    ctx.add_eval(e);
    ctx.note("real_partitions_rendered", json!(e));
    ctx.sample(json!({"part":"real","cfg":format!("{:?}", cfgs[1]),"r13_per_frame":[logs[0][0][13],logs[0][1][13],logs[0][2][13]],"cut_points":cut_points(3, 882)}));
}

// ------------------------------------------------------------------ decode

/// Exhaustive round trip of the LH5 literal encoder through delharc. Returns the number of
/// strings checked.
fn validate_writer() -> Result<u64, String> {
    let mut n = 0u64;
    let check = |data: &[u8], block: usize, style: Lh5Style| -> Result<(), String> {
        let enc = lh5_literals(data, block, style);
        match lh5_decode(&enc, data.len()) {
            Ok(d) if d == data => Ok(()),
            Ok(_) => Err(format!("round trip differs for {} bytes, block {}, {:?}", data.len(), block, style)),
            Err(e) => Err(format!("delharc rejects the stream for {} bytes, block {}, {:?}: {}", data.len(), block, style, e)),
        }
    };
    let alpha = [0x00u8, 0x7F, 0xFF];
    for style in [Lh5Style::Flat, Lh5Style::Explicit] {
        for block in [1usize, 3, 65535] {
            for len in 0..=7usize {
                for code in 0..3usize.pow(len as u32) {
                    let mut c = code;
                    let data: Vec<u8> = (0..len)
                        .map(|_| {
                            let v = alpha[c % 3];
                            c /= 3;
                            v
                        })
                        .collect();
                    check(&data, block, style)?;
                    n += 1;
                }
            }
            for b in 0..=255u8 {
                check(&[b], block, style)?;
                check(&[b, b ^ 0xFF, b], block, style)?;
                n += 2;
            }
            let all: Vec<u8> = (0..=255u8).collect();
            check(&all, block, style)?;
            n += 1;
        }
        let long: Vec<u8> = (0..70000usize).map(|i| (i % 251) as u8).collect();
        check(&long, 65535, style)?;
        check(&long, 4096, style)?;
        n += 2;
    }
    Ok(n)
}

fn spec_json(spec: &VtxSpec, block: usize, style: Lh5Style) -> Value {
    let mut flat = Vec::new();
    for f in spec.frames.iter() {
        flat.extend_from_slice(f);
    }
    json!({"kind":"decode","ym":spec.ym,"stereo":spec.stereo,"loop_start":spec.loop_start,"frequency":spec.frequency,
        "player_freq":spec.player_freq,"year":spec.year,"strings":spec.strings.to_vec(),"frames_hex":crate::vcore::hex(&flat),
        "block":block,"style":if style == Lh5Style::Flat {"flat"} else {"explicit"}})
}

fn decode_case(spec: &VtxSpec, block: usize, style: Lh5Style, verbose: bool) -> Result<u64, Fail> {
    let file = write_vtx(spec, block, style);
    // the writer's own payload must survive delharc before the verdict is believed
    let payload = register_major(&spec.frames);
    let enc = lh5_literals(&payload, block, style);
    match lh5_decode(&enc, payload.len()) {
        Ok(d) if d == payload => {}
        _ => {
            eprintln!("MACHINERY: LH5 writer self-check failed");
            std::process::exit(2);
        }
    }
    let mut want = Vec::with_capacity(payload.len());
    for f in spec.frames.iter() {
        want.extend_from_slice(f);
    }
    let res = catch_unwind(AssertUnwindSafe(|| Vtx::load(std::io::Cursor::new(&file[..]))));
    let v = match res {
        Err(p) => {
            return Err((
                format!("C20:decode:panic:Vtx::load:{}", panic_shape(&p)),
                format!("Vtx::load panicked on a well-formed file: {}", panic_shape(&p)),
            ))
        }
        Ok(Err(e)) => {
            return Err(("C20:decode:load-error".to_string(), format!("Vtx::load rejects a well-formed file of {} frames: {}", spec.frames.len(), e)))
        }
        Ok(Ok(v)) => v,
    };
    if verbose {
        println!("  file bytes: {}", file.len());
        println!("  frame_data wanted: {}", crate::vcore::hex(&want[..want.len().min(64)]));
        println!("  frame_data got   : {}", crate::vcore::hex(&v.frame_data[..v.frame_data.len().min(64)]));
    }
    if v.frame_data != want {
        let cls = if v.frame_data.len() != want.len() {
            "length"
        } else {
            let mut a = v.frame_data.clone();
            let mut b = want.clone();
            a.sort();
            b.sort();
            if a == b {
                "reordered"
            } else {
                "bytes-changed"
            }
        };
        let first = v.frame_data.iter().zip(want.iter()).position(|(a, b)| a != b);
        return Err((
            format!("C20:decode:frame-data:{}", cls),
            format!(
                "frame_data of a {}-frame file is not the frame-major transposition: {} bytes (expected {}), first difference at byte {:?}",
                spec.frames.len(),
                v.frame_data.len(),
                want.len(),
                first
            ),
        ));
    }
    let hdr_ok = [
        ("chip", matches!(v.chip, vtx::SoundChip::YM) == spec.ym),
        ("stereo", stereo_code(&v.stereo) == spec.stereo),
        ("frequency", v.frequency == spec.frequency),
        ("player-frequency", v.player_frequency == spec.player_freq),
        ("loop-start", v.loop_start_frame == spec.loop_start),
        ("year", v.year == spec.year),
        ("title", v.title == spec.strings[0]),
        ("author", v.author == spec.strings[1]),
        ("from", v.from == spec.strings[2]),
        ("tracker", v.tracker == spec.strings[3]),
        ("comment", v.comment == spec.strings[4]),
    ];
    for (name, ok) in hdr_ok {
        if !ok {
            return Err((format!("C20:decode:header:{}", name), format!("header field {} does not round-trip: loaded {:?}", name, v)));
        }
    }
    // the same file through readers that return short reads must decode to the same thing
    for chunk in [1usize, 3, 256] {
        let rd = ShortReader { inner: std::io::Cursor::new(file.to_vec()), chunk };
        match catch_unwind(AssertUnwindSafe(|| Vtx::load(rd))) {
            Ok(Ok(v2)) => {
                if v2.frame_data != v.frame_data || v2.title != v.title || v2.author != v.author || v2.from != v.from || v2.tracker != v.tracker || v2.comment != v.comment {
                    return Err(("C20:decode:short-reads:differs".to_string(), format!("a well-formed file of {} frames read {} byte(s) at a time decodes differently from the same file read whole", spec.frames.len(), chunk)));
                }
            }
            Ok(Err(e)) => {
                return Err((
                    "C20:decode:short-reads:load-error".to_string(),
                    format!("a well-formed file of {} frames (strings {:?}) loads when read whole but is rejected when the reader returns at most {} byte(s) per call: {}", spec.frames.len(), spec.strings.iter().map(|x| x.len()).collect::<Vec<_>>(), chunk, e),
                ))
            }
            Err(p) => return Err((format!("C20:decode:short-reads:panic:{}", panic_shape(&p)), format!("Vtx::load panicked reading a well-formed file {} byte(s) at a time", chunk))),
        }
    }
    let mut h = fnv(&v.frame_data);
    h = fnv_mix(h, spec.stereo as u64 | (spec.ym as u64) << 8);
    Ok(h)
}

fn strings_sets() -> Vec<[String; 5]> {
    let e = String::new;
    let mut v = vec![
        [e(), e(), e(), e(), e()],
        ["Title".to_string(), "Author".to_string(), "From".to_string(), "Tracker".to_string(), "A comment".to_string()],
        [e(), e(), e(), e(), "x".repeat(300)],
    ];
    // fifth terminator exactly at the end of / just past the loader's 256-byte scan chunk
    for total in [255usize, 256, 257] {
        v.push(["t".repeat(total - 5), e(), e(), e(), e()]);
    }
    v
}

fn pattern_frames(f: usize, pat: usize) -> Vec<Frame> {
    (0..f)
        .map(|k| {
            let mut fr = [0u8; 14];
            for r in 0..14 {
                let pos = k * 14 + r;
                fr[r] = match pat {
                    0 => (pos % 251 + 1) as u8,
                    1 => 0xFF - (pos % 251) as u8,
                    2 => {
                        if r == 13 {
                            0xFF
                        } else {
                            (pos * 7 % 256) as u8
                        }
                    }
                    3 => 0x00,
                    4 => 0x7F,
                    _ => 0xFF,
                };
            }
            fr
        })
        .collect()
}

fn decode_enumeration(ctx: &Ctx, col: &Collector) {
    struct Job {
        spec: VtxSpec,
        block: usize,
        style: Lh5Style,
    }
    let mut jobs: Vec<Job> = Vec::new();
    let strs = strings_sets();
    let base = |frames: Vec<Frame>, ym: bool, stereo: u8, si: usize| VtxSpec {
        ym,
        stereo,
        loop_start: (frames.len() as u16).wrapping_mul(3) ^ 0x0102,
        frequency: if ym { 2000000 } else { 1773400 },
        player_freq: if ym { 60 } else { 50 },
        year: 1989 + stereo as u16,
        strings: strs[si].clone(),
        frames,
    };
    let n_pat = if ctx.thorough() { 6 } else { 3 };
    for f in 0..=4usize {
        for pat in 0..n_pat {
            for stereo in 0..7u8 {
                for ym in [false, true] {
                    for style in [Lh5Style::Flat, Lh5Style::Explicit] {
                        for block in [65535usize, 5] {
                            jobs.push(Job { spec: base(pattern_frames(f, pat), ym, stereo, (f + pat) % strs.len()), block, style });
                        }
                    }
                }
            }
        }
        // every strings set once per frame count
        for si in 0..strs.len() {
            jobs.push(Job { spec: base(pattern_frames(f, 0), false, 1, si), block: 65535, style: Lh5Style::Flat });
        }
    }
    if ctx.thorough() {
        // one-hot: every (frame, register) position x every value of {00 7F FF} against a 55 background
        for f in 1..=4usize {
            for pos in 0..f * 14 {
                for val in [0x00u8, 0x7F, 0xFF] {
                    let mut frames = vec![[0x55u8; 14]; f];
                    frames[pos / 14][pos % 14] = val;
                    jobs.push(Job { spec: base(frames, false, 1, 0), block: 65535, style: Lh5Style::Flat });
                }
            }
        }
    }
    // larger frame counts (position-coded), crossing the 64 KiB LH5 block limit
    let mut big = vec![5usize, 16, 17, 255, 256, 257, 4681, 4682];
    if ctx.thorough() {
        big.extend([1000, 9999, 20000]);
    }
    for f in big {
        for (ym, stereo) in [(false, 1u8), (true, 6u8)] {
            jobs.push(Job { spec: base(pattern_frames(f, 0), ym, stereo, 1), block: 65535, style: Lh5Style::Flat });
            jobs.push(Job { spec: base(pattern_frames(f, 2), ym, stereo, 2), block: 4096, style: Lh5Style::Explicit });
        }
    }
    // decoded sizes in every relation to power-of-two work-buffer sizes of a loader (frames x 14 a
    // multiple of 1024 / 4096 / 8192, one below and one above)
    for f in [511usize, 512, 513, 1023, 1024, 1025, 2047, 2048, 2049, 4096] {
        jobs.push(Job { spec: base(pattern_frames(f, 0), false, 1, 1), block: 4096, style: Lh5Style::Flat });
    }
    par_for(jobs.len(), 4, |i| {
        let j = &jobs[i];
        match decode_case(&j.spec, j.block, j.style, false) {
            Ok(h) => ctx.outcome(h),
            Err(fail) => col.fail((2000, j.spec.frames.len() as u64, i as u64), &fail.0, &fail.1, || spec_json(&j.spec, j.block, j.style)),
        }
        ctx.add_eval(1);
    });
    ctx.note("decode_files_written_and_loaded", json!(jobs.len()));
    ctx.sample(json!({"part":"decode","frames":2,"register_major_payload_hex":crate::vcore::hex(&register_major(&pattern_frames(2,0))),
        "expected_frame_data_hex":crate::vcore::hex(&pattern_frames(2,0).concat())}));
}

/// Shipped files: header parsed and LH5 payload decoded here with delharc directly; the
/// transposition is done by `transpose` below.
fn sample_file_case(path: &str, verbose: bool) -> Result<u64, Fail> {
    let name = path.rsplit('/').next().unwrap_or(path).to_string();
    let data = rig::read_file(path);
    let size = u32::from_le_bytes([data[12], data[13], data[14], data[15]]) as usize;
    let mut p = 16;
    let mut nul = 0;
    while nul < 5 {
        if data[p] == 0 {
            nul += 1;
        }
        p += 1;
    }
    let payload = match lh5_decode(&data[p..], size) {
        Ok(d) => d,
        Err(e) => {
            eprintln!("MACHINERY: cannot decode {} with delharc: {}", path, e);
            std::process::exit(2);
        }
    };
    let frames = size / 14;
    let mut want = vec![0u8; size];
    for k in 0..frames {
        for r in 0..14 {
            want[k * 14 + r] = payload[r * frames + k];
        }
    }
    let res = catch_unwind(AssertUnwindSafe(|| Vtx::load(std::io::Cursor::new(&data[..]))));
    let v = match res {
        Ok(Ok(v)) => v,
        Ok(Err(e)) => return Err((format!("C20:decode:sample-file:load-error:{}", name), format!("Vtx::load fails on {}: {}", path, e))),
        Err(p) => return Err((format!("C20:decode:sample-file:panic:{}", panic_shape(&p)), format!("Vtx::load panicked on {}", path))),
    };
    if verbose {
        println!("  {}: {} frames, player frequency {}", name, frames, v.player_frequency);
    }
    if v.frame_data != want {
        let first = v.frame_data.iter().zip(want.iter()).position(|(a, b)| a != b);
        return Err((
            format!("C20:decode:sample-file:frame-data:{}", name),
            format!("{}: frame_data is not the transposition of the delharc-decoded payload (first difference at {:?})", name, first),
        ));
    }
    if v.player_frequency != data[9] || v.frequency != u32::from_le_bytes([data[5], data[6], data[7], data[8]]) {
        return Err((format!("C20:decode:sample-file:header:{}", name), format!("{}: header numbers differ", name)));
    }
    // the same bytes through a reader that returns short reads (legal for std::io::Read): the
    // decoded register log must not depend on how the bytes arrive
    for chunk in [1usize, 2, 3, 7, 255, 256, 257] {
        let rd = ShortReader { inner: std::io::Cursor::new(data.clone()), chunk };
        match catch_unwind(AssertUnwindSafe(|| Vtx::load(rd))) {
            Ok(Ok(v2)) => {
                if v2.frame_data != v.frame_data || v2.title != v.title || v2.comment != v.comment {
                    return Err((format!("C20:decode:short-reads:differs:{}", name), format!("{} read {} byte(s) at a time decodes differently from the same file read whole", name, chunk)));
                }
            }
            Ok(Err(e)) => return Err((format!("C20:decode:short-reads:load-error:{}", name), format!("{} loads when read whole but fails when the reader returns at most {} byte(s) per call: {}", name, chunk, e))),
            Err(p) => return Err((format!("C20:decode:short-reads:panic:{}", panic_shape(&p)), format!("Vtx::load panicked on {} read {} byte(s) at a time", name, chunk))),
        }
    }
    Ok(fnv(&v.frame_data))
}

/// `Read + Seek` that never returns more than `chunk` bytes per call
struct ShortReader {
    inner: std::io::Cursor<Vec<u8>>,
    chunk: usize,
}
impl std::io::Read for ShortReader {
    fn read(&mut self, buf: &mut [u8]) -> std::io::Result<usize> {
        let n = buf.len().min(self.chunk);
        self.inner.read(&mut buf[..n])
    }
}
impl std::io::Seek for ShortReader {
    fn seek(&mut self, pos: std::io::SeekFrom) -> std::io::Result<u64> {
        self.inner.seek(pos)
    }
}

const SAMPLE_FILES: [&str; 4] = [
    "/repo/vtx/src/test/csoon.vtx",
    "/repo/vtx/src/test/secret.vtx",
    "/repo/vtx/src/test/sil00.vtx",
    "/repo/vtx/src/test/spf21_00.vtx",
];

// ------------------------------------------------------------------ entry

pub fn run(tier: Tier, seed: u64, replay: Option<String>) -> i32 {
    let ctx = Ctx::new("C20", tier, seed, "model_checking");
    if let Some(path) = replay {
        return replay_case(&path);
    }
    match validate_writer() {
        Ok(n) => ctx.note("lh5_writer_round_trips_through_delharc", json!(n)),
        Err(e) => {
            eprintln!("MACHINERY: LH5 writer validation failed: {}", e);
            return 2;
        }
    }
    let col = Collector::new();
    sched_enumeration(&ctx, &col);
    real_enumeration(&ctx, &col);
    decode_enumeration(&ctx, &col);
    for (i, p) in SAMPLE_FILES.iter().enumerate() {
        match sample_file_case(p, false) {
            Ok(h) => ctx.outcome(h),
            Err(f) => col.fail((3000, i as u64, 0), &f.0, &f.1, || json!({"kind":"sample-file","path":p})),
        }
        ctx.add_eval(1);
    }
    col.flush(&ctx);
    ctx.finish(
        "E-PROD. (1) recording AymBackend: frames 0..=3 x spf {1,2,3,5} x 2 (rate, player frequency) pairs per spf x register logs (R13 over {00,01,0F,FF}^F x 2 patterns; 2 logs where partitions x logs exceeds the budget) x mono/stereo x ALL compositions of the requested output (F*spf+3 mono elements; 2*F*spf+3 stereo elements incl. length 1 and odd lengths; F=3,spf=5 stereo: all capacity compositions x 4 parity patterns) followed by three past-the-end calls; long logs of 255..257 and 65535..65537 frames (thorough: also 70001 and 131073) at 1 and 2 samples per frame, mono/stereo, in whole-track, 4096-element and 7-element buffers; oracle = reference model of the statement (return counts, concatenated stream, register-write schedule). (2) real AymPrecise: every subset of the cut-point set around the frame boundaries, mono/stereo/stereo-odd, 2 register logs (R13=FF vs retrigger), bit-exact against a direct rendering. (3) Vtx::load on files from the harness writer (frame counts 0..=4 and up to two LH5 blocks, all 7 stereo codes, both chips, 2 LH5 header styles) and on the 4 shipped files. distinct = outcome digests (produced/short/zero-call profile, stream digests, decoded payload digests)",
        true,
        &[
            "Vtx values for playback are constructed directly (all fields public); Player is generic over the backend",
            "LH5 encoder of the harness is literal-only; it is validated by exhaustive round trip through delharc (the decoder the vtx crate uses) before any decode verdict",
            "player frequency 0 and sample rate < player frequency are not judged (formula undefined)",
            "order of the fourteen writes inside one sample index is not judged",
        ],
    )
}

fn frames_from(v: &Value) -> Vec<Frame> {
    v.as_array()
        .map(|a| {
            a.iter()
                .map(|f| {
                    let mut fr = [0u8; 14];
                    for (i, x) in f.as_array().unwrap().iter().enumerate().take(14) {
                        fr[i] = x.as_u64().unwrap() as u8;
                    }
                    fr
                })
                .collect()
        })
        .unwrap_or_default()
}

fn replay_case(path: &str) -> i32 {
    let v: Value = serde_json::from_slice(&rig::read_file(path)).expect("replay json");
    let case = &v["case"];
    let kind = case["kind"].as_str().unwrap_or("");
    let lens: Vec<usize> = case["lens"].as_array().map(|a| a.iter().map(|x| x.as_u64().unwrap() as usize).collect()).unwrap_or_default();
    let res: Result<(), Fail> = match kind {
        "sched" => {
            let frames = frames_from(&case["frames"]);
            let rate = case["rate"].as_u64().unwrap() as usize;
            let pf = case["pf"].as_u64().unwrap() as u8;
            let stereo = case["stereo"].as_bool().unwrap();
            println!("replay: recording backend, {} frames, rate {} / player frequency {} = {} samples per frame, stereo {}, buffer lengths {:?}", frames.len(), rate, pf, rate / pf as usize, stereo, lens);
            let m = model(&frames, rate / pf as usize);
            sched_case_tail(&frames, case["tail"].as_u64().unwrap_or(0) as usize, rate, pf, stereo, &lens, &m, &mut Vec::new(), true).map(|_| ())
        }
        "sched-long" => {
            let f = case["frames"].as_u64().unwrap() as usize;
            let spf = case["spf"].as_u64().unwrap() as usize;
            let stereo = case["stereo"].as_bool().unwrap();
            let frames = long_log(f);
            let lens = vec![case["buffer_len"].as_u64().unwrap() as usize; case["buffers"].as_u64().unwrap() as usize];
            println!("replay: recording backend, long log of {} frames, {} sample(s) per frame, stereo {}, {} buffers of {}", f, spf, stereo, lens.len(), lens[0]);
            let m = model(&frames, spf);
            sched_case(&frames, spf * 50, 50, stereo, &lens, &m, &mut Vec::new(), false).map(|_| ())
        }
        "real" => {
            let frames = frames_from(&case["frames"]);
            let c = RealCfg {
                ym: case["ym"].as_bool().unwrap(),
                stereo_code: case["stereo_code"].as_u64().unwrap() as u8,
                freq: case["freq"].as_u64().unwrap() as u32,
                rate: case["rate"].as_u64().unwrap() as usize,
                pf: case["pf"].as_u64().unwrap() as u8,
                stereo: case["stereo"].as_bool().unwrap(),
            };
            println!("replay: AymPrecise, {:?}, buffer lengths {:?}", c, lens);
            let reference = render_direct(&frames, &c);
            real_case(&frames, &c, &lens, &reference, true).map(|_| ())
        }
        "decode" => {
            let flat = crate::vcore::unhex(case["frames_hex"].as_str().unwrap_or(""));
            let frames: Vec<Frame> = flat
                .chunks(14)
                .map(|c| {
                    let mut f = [0u8; 14];
                    f.copy_from_slice(c);
                    f
                })
                .collect();
            let s: Vec<String> = case["strings"].as_array().unwrap().iter().map(|x| x.as_str().unwrap().to_string()).collect();
            let spec = VtxSpec {
                ym: case["ym"].as_bool().unwrap(),
                stereo: case["stereo"].as_u64().unwrap() as u8,
                loop_start: case["loop_start"].as_u64().unwrap() as u16,
                frequency: case["frequency"].as_u64().unwrap() as u32,
                player_freq: case["player_freq"].as_u64().unwrap() as u8,
                year: case["year"].as_u64().unwrap() as u16,
                strings: [s[0].clone(), s[1].clone(), s[2].clone(), s[3].clone(), s[4].clone()],
                frames,
            };
            let style = if case["style"] == "flat" { Lh5Style::Flat } else { Lh5Style::Explicit };
            println!("replay: Vtx::load of a written file, {} frames, stereo code {}, ym {}", spec.frames.len(), spec.stereo, spec.ym);
            decode_case(&spec, case["block"].as_u64().unwrap() as usize, style, true).map(|_| ())
        }
        "sample-file" => sample_file_case(case["path"].as_str().unwrap(), true).map(|_| ()),
        _ => {
            eprintln!("MACHINERY: unknown replay kind {:?}", kind);
            return 2;
        }
    };
    match res {
        Ok(()) => {
            println!("replay: case passes now");
            0
        }
        Err((key, what)) => {
            println!("replay: still failing: {} — {}", key, what);
            1
        }
    }
}
