//! C18 — the AY chip turns any register history into the sound its registers define.
//!
//! A  core, tick exact (hooks verif_tick / verif_levels on the real AymPrecise):
//!    all tone periods x 3 channels, all noise periods, 16 shapes x 7 envelope periods,
//!    all R7 values x 3 channels (gating truth table against measured tone-only / noise-only
//!    waveforms), all volume register values x 3 channels x 2 chips, 7 stereo modes x 3 channels.
//! B  public API, analog path: 12 sample rates x 4 programmes: finite and |s| <= 4; single-tone
//!    frequency from threshold crossings within 1 % of f_clk/(16 TP).
//! C  E-BFS over histories of register writes and sample generation (every history replayed on a
//!    fresh chip): no panic, bounded samples, and after the history the generators run at the
//!    periods of the final register file, the raw output is the gated sum the final register file
//!    defines, and write-only histories are order independent (R13 excluded).
//! D  Spectrum ports on the real Emulator (48K+AY, 128K): all 256 select values x data alphabet;
//!    port->chip forwarding: the machine's audio for scripted port writes equals a chip fed the same writes.

#[path = "../ay_common.rs"]
mod ay_common;

use crate::rig::{self, Opts};
use crate::vcore::{fnv, fnv_mix, par_for, par_for_with, Ctx, Tier};
use ay_common::{panic_shape, Collector};
use aym::{AyMode, AymBackend, AymPrecise, SoundChip};
use serde_json::{json, Value};
use std::collections::HashSet;
use std::panic::{catch_unwind, AssertUnwindSafe};
use std::sync::Mutex;

const FCLK: usize = 1_773_400;
const BOUND: f64 = 4.0;
type Fail = (String, String);

const MODE_NAMES: [&str; 7] = ["Mono", "ABC", "ACB", "BAC", "BCA", "CAB", "CBA"];
const CH: [&str; 3] = ["A", "B", "C"];

fn mode_from(code: u8) -> AyMode {
    match code {
        0 => AyMode::Mono,
        1 => AyMode::ABC,
        2 => AyMode::ACB,
        3 => AyMode::BAC,
        4 => AyMode::BCA,
        5 => AyMode::CAB,
        _ => AyMode::CBA,
    }
}

fn chip(ym: bool, mode: u8, rate: usize) -> AymPrecise {
    <AymPrecise as AymBackend>::new(if ym { SoundChip::YM } else { SoundChip::AY }, mode_from(mode), FCLK, rate)
}

fn guarded<T>(entry: &str, f: impl FnOnce() -> Result<T, Fail>) -> Result<T, Fail> {
    match catch_unwind(AssertUnwindSafe(f)) {
        Ok(r) => r,
        Err(p) => Err((
            format!("C18:panic:{}:{}", entry, panic_shape(&p)),
            format!("{} panicked: {}", entry, panic_shape(&p)),
        )),
    }
}

// =================================================================== A. core, tick level

/// Tone channel `ch` alone at volume 15, period written as `tp` (R coarse also carries `high`
/// in its unimplemented upper nibble). Judged on the raw output only.
fn tone_case(ch: usize, tp: u16, high: u8, verbose: bool) -> Result<u64, Fail> {
    guarded("tone:write_register/tick", || {
        let mut ay = chip(false, 0, 44100);
        ay.write_register(7, 0x3F & !(1u8 << ch));
        ay.write_register(8 + ch as u8, 15);
        ay.write_register(2 * ch as u8, tp as u8);
        ay.write_register(2 * ch as u8 + 1, ((tp >> 8) as u8 & 0x0F) | (high & 0xF0));
        let eff = (tp & 0xFFF).max(1) as usize;
        let w = (8 * eff).max(4096);
        let mut toggles: Vec<usize> = Vec::new();
        let mut amp = 0.0f64;
        let mut prev: Option<bool> = None;
        for t in 0..w {
            let (l, r) = ay.verif_tick();
            if !(l.is_finite() && r.is_finite()) || l != r || l < 0.0 {
                return Err((
                    format!("C18:tone:raw-output-shape:ch{}", CH[ch]),
                    format!("tone {} TP={} tick {}: raw mono output ({}, {}) is not a finite equal non-negative pair", CH[ch], tp, t, l, r),
                ));
            }
            if l > 0.0 {
                if amp == 0.0 {
                    amp = l;
                } else if l != amp {
                    return Err((
                        format!("C18:tone:not-two-level:ch{}", CH[ch]),
                        format!("tone {} TP={} tick {}: third output level {} besides 0 and {}", CH[ch], tp, t, l, amp),
                    ));
                }
            }
            let hi = l > 0.0;
            if let Some(p) = prev {
                if p != hi {
                    toggles.push(t);
                }
            }
            prev = Some(hi);
        }
        let want = w / eff;
        let cls = if tp & 0xFFF == 0 { "tp0-acts-as-1" } else { "general" };
        if verbose {
            println!("  channel {} TP written {} (effective {}), window {} ticks: {} output toggles, expected {} +-1; first toggles at {:?}", CH[ch], tp, eff, w, toggles.len(), want, &toggles[..toggles.len().min(6)]);
        }
        if (toggles.len() as i64 - want as i64).abs() > 1 {
            return Err((
                format!("C18:tone:toggle-count:{}:ch{}", cls, CH[ch]),
                format!(
                    "tone {} with TP={} (R{}={:02x} R{}={:02x}): {} output toggles in {} chip ticks (f_clk/8), f_clk/(16 TP) means {} +-1",
                    CH[ch], tp, 2 * ch, tp as u8, 2 * ch + 1, ((tp >> 8) as u8 & 0x0F) | (high & 0xF0), toggles.len(), w, want
                ),
            ));
        }
        for p in toggles.windows(2) {
            if p[1] - p[0] != eff {
                return Err((
                    format!("C18:tone:half-period:{}:ch{}", cls, CH[ch]),
                    format!("tone {} with TP={}: half period of {} chip ticks between toggles at {} and {}, expected {}", CH[ch], tp, p[1] - p[0], p[0], p[1], eff),
                ));
            }
        }
        Ok(fnv_mix(fnv(&[1, ch as u8]), (toggles.len() as u64) << 16 | eff as u64))
    })
}

/// Noise alone on channel A at volume 15. `np` is the byte written to R6.
fn noise_case(np: u8, verbose: bool) -> Result<Option<u64>, Fail> {
    guarded("noise:write_register/tick", || {
        let eff = (np & 0x1F) as usize;
        let mut ay = chip(false, 0, 44100);
        ay.write_register(7, 0x37);
        ay.write_register(8, 15);
        ay.write_register(6, np);
        let w = (512 * eff.max(1)).max(4096);
        let mut shifts: Vec<usize> = Vec::new();
        let mut out_changes: Vec<usize> = Vec::new();
        let mut lfsr = ay.verif_levels().3;
        let mut prev_out: Option<bool> = None;
        let (mut seen_hi, mut seen_lo) = (false, false);
        for t in 0..w {
            let (l, _) = ay.verif_tick();
            if !l.is_finite() {
                return Err(("C18:noise:non-finite".into(), format!("R6={:02x} tick {}: raw output {}", np, t, l)));
            }
            let now = ay.verif_levels().3;
            if now != lfsr {
                shifts.push(t);
                lfsr = now;
            }
            let hi = l > 0.0;
            if hi {
                seen_hi = true
            } else {
                seen_lo = true
            }
            if let Some(p) = prev_out {
                if p != hi {
                    out_changes.push(t);
                }
            }
            prev_out = Some(hi);
        }
        if verbose {
            println!("  R6={:02x} (NP {}): {} LFSR shifts in {} ticks, expected {} +-1; output changes {}", np, eff, shifts.len(), w, if eff > 0 { w / (2 * eff) } else { 0 }, out_changes.len());
        }
        if eff == 0 {
            return Ok(None); // NP = 0 is not judged
        }
        let cls = if np & 0xE0 != 0 { "upper-bits-set" } else { "general" };
        let want = w / (2 * eff);
        if (shifts.len() as i64 - want as i64).abs() > 1 {
            return Err((
                format!("C18:noise:shift-count:{}", cls),
                format!("R6={:02x} (NP={}): noise generator clocked {} times in {} chip ticks, f_clk/(16 NP) means {} +-1", np, eff, shifts.len(), w, want),
            ));
        }
        for p in shifts.windows(2) {
            if p[1] - p[0] != 2 * eff {
                return Err((
                    format!("C18:noise:shift-interval:{}", cls),
                    format!("R6={:02x} (NP={}): {} chip ticks between two noise clocks, expected {}", np, eff, p[1] - p[0], 2 * eff),
                ));
            }
        }
        for c in out_changes.iter() {
            if shifts.binary_search(c).is_err() {
                return Err(("C18:noise:output-changes-between-clocks".into(), format!("R6={:02x}: output changes at tick {} without a noise clock", np, c)));
            }
        }
        if !(seen_hi && seen_lo) || out_changes.len() < 8 {
            return Err(("C18:noise:output-not-noisy".into(), format!("R6={:02x}: only {} output changes in {} noise clocks", np, out_changes.len(), shifts.len())));
        }
        Ok(Some(fnv_mix(fnv(&[2]), (shifts.len() as u64) << 8 | eff as u64)))
    })
}

/// Documented level of envelope step `s` (0 = first step after the R13 write), 32 steps per ramp.
fn env_pattern(shape: u8, s: usize) -> u8 {
    let ramp = s / 32;
    let i = (s % 32) as u8;
    let decay = 31 - i;
    let attack = i;
    match shape & 0x0F {
        0..=3 | 9 => {
            if ramp == 0 {
                decay
            } else {
                0
            }
        }
        4..=7 | 15 => {
            if ramp == 0 {
                attack
            } else {
                0
            }
        }
        8 => decay,
        10 => {
            if ramp % 2 == 0 {
                decay
            } else {
                attack
            }
        }
        11 => {
            if ramp == 0 {
                decay
            } else {
                31
            }
        }
        12 => attack,
        13 => {
            if ramp == 0 {
                attack
            } else {
                31
            }
        }
        _ => {
            if ramp % 2 == 0 {
                attack
            } else {
                decay
            }
        }
    }
}

/// A write to R13 restarts the envelope with the shape in its low four bits, whatever byte is written
/// and whatever the generator was doing: parked at the top or the bottom of a finished one-shot shape,
/// or in the middle of a ramp of a repeating one.
fn env_restart_case(ym: bool, prev: u8, wait: usize, value: u8) -> Result<u64, Fail> {
    guarded("envelope-restart:write_register/tick", || {
        let epu = 3usize;
        let mut ay = chip(ym, 0, 44100);
        ay.write_register(7, 0x3F);
        ay.write_register(8, 0x10);
        ay.write_register(11, epu as u8);
        ay.write_register(12, 0);
        ay.write_register(13, prev);
        for _ in 0..wait {
            ay.verif_tick();
        }
        let before = ay.verif_levels().2;
        ay.write_register(13, value);
        let n = 80 * epu;
        let mut levels: Vec<u8> = Vec::with_capacity(n);
        for _ in 0..n {
            ay.verif_tick();
            levels.push(ay.verif_levels().2 as u8);
        }
        // the phase of the step grid relative to the write is not judged (0..=EP)
        let ok = (0..=epu).any(|ph| (0..n).all(|t| levels[t] == env_pattern(value, (t + ph) / epu)));
        if !ok {
            let seq: Vec<u8> = (0..40).map(|s| levels[s * epu + epu / 2]).collect();
            return Err((
                format!("C18:env:restart-on-r13-write:{}", if value & 0xF0 == 0 { "plain-shape-byte" } else { "byte-with-high-bits" }),
                format!(
                    "envelope at level {} (R13={:02x} written {} ticks earlier, EP=3), then R13={:02x} written: the levels at mid-step are {:?}, shape {} restarted gives {:?}",
                    before,
                    prev,
                    wait,
                    value,
                    seq,
                    value & 0x0F,
                    (0..40).map(|s| env_pattern(value, s)).collect::<Vec<_>>()
                ),
            ));
        }
        Ok(fnv_mix(fnv(&[0xE5]), (value as u64) << 8 | before as u64))
    })
}

const ENV_STEPS: usize = 100;

fn env_case(ym: bool, shape: u8, ep: u16, verbose: bool) -> Result<u64, Fail> {
    guarded("envelope:write_register/tick", || {
        let mut ay = chip(ym, 0, 44100);
        ay.write_register(7, 0x3F);
        ay.write_register(8, 0x10);
        ay.write_register(11, ep as u8);
        ay.write_register(12, (ep >> 8) as u8);
        ay.write_register(13, shape);
        let epu = ep as usize;
        let n = ENV_STEPS * epu;
        let mut levels: Vec<u8> = Vec::with_capacity(n);
        let mut amp_of: [Option<f64>; 32] = [None; 32];
        for t in 0..n {
            let (l, _) = ay.verif_tick();
            let lv = ay.verif_levels().2;
            if lv > 31 || !l.is_finite() {
                return Err(("C18:env:level-out-of-range".into(), format!("shape {} EP {} tick {}: level {} output {}", shape, ep, t, lv, l)));
            }
            match amp_of[lv] {
                None => amp_of[lv] = Some(l),
                Some(a) if a == l => {}
                Some(a) => {
                    return Err((
                        "C18:env:amplitude-follows-level".into(),
                        format!("shape {} EP {} tick {}: envelope level {} gives output {} here and {} earlier", shape, ep, t, lv, l, a),
                    ))
                }
            }
            levels.push(lv as u8);
        }
        // constant phase of the step grid is not judged: accept any offset 0..=EP
        let first_change = levels.iter().position(|x| *x != levels[0]);
        let mut cands = vec![0usize, 1, 2, epu];
        if let Some(tc) = first_change {
            cands.push((epu - tc % epu) % epu);
        }
        cands.retain(|c| *c <= epu);
        cands.sort();
        cands.dedup();
        let mut best: Option<(usize, usize)> = None; // (phase, first mismatch)
        let mut ok = false;
        for ph in cands.iter() {
            let mm = (0..n).find(|t| levels[*t] != env_pattern(shape, (t + ph) / epu));
            match mm {
                None => {
                    ok = true;
                    best = Some((*ph, n));
                    break;
                }
                Some(t) => {
                    if best.map_or(true, |b| t > b.1) {
                        best = Some((*ph, t));
                    }
                }
            }
        }
        // per-step read-out for humans
        let seq: Vec<u8> = (0..ENV_STEPS.min(72)).map(|s| levels[(s * epu + epu / 2).min(n - 1)]).collect();
        if verbose {
            println!("  shape {:2} EP {:5} chip {}: level at mid-step: {:?}", shape & 15, ep, if ym { "YM" } else { "AY" }, seq);
            println!("                              documented:        {:?}", (0..72).map(|s| env_pattern(shape, s)).collect::<Vec<_>>());
        }
        if !ok {
            let (ph, t) = best.unwrap();
            return Err((
                format!("C18:env:shape-pattern:shape{:02}", shape & 0x0F),
                format!(
                    "R13={:02x} EP={}: level at chip tick {} (step {}) is {}, documented pattern has {}; levels at mid-step {:?}",
                    shape,
                    ep,
                    t,
                    (t + ph) / epu,
                    levels[t],
                    env_pattern(shape, (t + ph) / epu),
                    &seq[..seq.len().min(70)]
                ),
            ));
        }
        // amplitude follows the level: non-decreasing, and the ends differ
        let mut last = -1.0f64;
        for lv in 0..32 {
            if let Some(a) = amp_of[lv] {
                if a < last {
                    return Err(("C18:env:amplitude-follows-level".into(), format!("shape {} EP {}: output at level {} ({}) is below the output of a lower level ({})", shape, ep, lv, a, last)));
                }
                last = a;
            }
        }
        if let (Some(lo), Some(hi)) = (amp_of[0], amp_of[31]) {
            if !(hi > lo) {
                return Err(("C18:env:amplitude-follows-level".into(), format!("shape {} EP {}: level 31 output {} not above level 0 output {}", shape, ep, hi, lo)));
            }
        }
        Ok(fnv_mix(fnv(&levels[..(64 * epu).min(n)].iter().step_by(epu).copied().collect::<Vec<u8>>()), ym as u64))
    })
}

const MIX_TICKS: usize = 3000;

fn mixer_wave(ch: usize, r7: u8) -> Vec<bool> {
    let mut ay = chip(false, 0, 44100);
    ay.write_register(2 * ch as u8, 5);
    ay.write_register(6, 3);
    ay.write_register(8 + ch as u8, 15);
    ay.write_register(7, r7);
    (0..MIX_TICKS).map(|_| ay.verif_tick().0 > 0.0).collect()
}

/// All R7 values for channel `ch`; expectation built from the measured tone-only and noise-only
/// waveforms of the same channel (same write sequence, so identical generator phases).
fn mixer_case(ch: usize, r7: u8, verbose: bool) -> Result<u64, Fail> {
    guarded("mixer:write_register/tick", || {
        let tone_only = mixer_wave(ch, 0x3F & !(1 << ch));
        let noise_only = mixer_wave(ch, 0x3F & !(8 << ch));
        let mut combos = [false; 4];
        for t in 0..MIX_TICKS {
            combos[(tone_only[t] as usize) | (noise_only[t] as usize) << 1] = true;
        }
        if combos.iter().any(|c| !*c) {
            return Err(("C18:mixer:vacuous-window".into(), format!("channel {}: tone/noise level combinations seen {:?}", CH[ch], combos)));
        }
        let toff = (r7 >> ch) & 1 == 1;
        let noff = (r7 >> (3 + ch)) & 1 == 1;
        let got = mixer_wave(ch, r7);
        let mut h = fnv(&[3, ch as u8, toff as u8, noff as u8]);
        for t in 0..MIX_TICKS {
            let want = (tone_only[t] | toff) & (noise_only[t] | noff);
            if got[t] != want {
                return Err((
                    format!("C18:mixer:gating:ch{}", CH[ch]),
                    format!(
                        "R7={:02x}, channel {} (tone {}, noise {}): output {} at tick {} while tone={} noise={}; a disabled source counts as high",
                        r7,
                        CH[ch],
                        if toff { "off" } else { "on" },
                        if noff { "off" } else { "on" },
                        got[t] as u8,
                        t,
                        tone_only[t] as u8,
                        noise_only[t] as u8
                    ),
                ));
            }
            if t < 64 {
                h = fnv_mix(h, got[t] as u64);
            }
        }
        if verbose {
            println!("  R7={:02x} channel {}: first 48 ticks {:?}", r7, CH[ch], got[..48].iter().map(|b| *b as u8).collect::<Vec<_>>());
        }
        Ok(h)
    })
}

fn dc_level(ym: bool, mode: u8, ch: usize, vol_reg: u8, env: Option<u8>) -> (f64, f64) {
    let mut ay = chip(ym, mode, 44100);
    ay.write_register(7, 0x3F);
    ay.write_register(11, 1);
    ay.write_register(12, 0);
    ay.write_register(8 + ch as u8, vol_reg);
    if let Some(s) = env {
        ay.write_register(13, s);
    }
    let mut last = (0.0, 0.0);
    for _ in 0..80 {
        last = ay.verif_tick();
    }
    last
}

fn volume_case(ym: bool, ch: usize, verbose: bool) -> Result<u64, Fail> {
    guarded("volume:write_register/tick", || {
        let chipn = if ym { "ym" } else { "ay" };
        let fixed: Vec<f64> = (0..16u8).map(|v| dc_level(ym, 0, ch, v, None).0).collect();
        if verbose {
            println!("  chip {} channel {}: amplitude per volume 0..15 = {:?}", chipn, CH[ch], fixed);
        }
        for v in 1..16 {
            if !(fixed[v] > fixed[v - 1]) || !fixed[v].is_finite() {
                return Err((
                    format!("C18:volume:not-strictly-increasing:{}", chipn),
                    format!("channel {}: amplitude at volume {} is {}, at volume {} it is {}", CH[ch], v - 1, fixed[v - 1], v, fixed[v]),
                ));
            }
        }
        let mut h = fnv(&[4, ym as u8, ch as u8]);
        for reg in 0..=255u8 {
            if reg & 0x10 == 0 {
                let a = dc_level(ym, 0, ch, reg, Some(0x0D)).0;
                if a != fixed[(reg & 0x0F) as usize] {
                    return Err((
                        format!("C18:volume:fixed-level:{}:{}", chipn, if reg & 0xE0 != 0 { "upper-bits-set" } else { "general" }),
                        format!("channel {} R{}={:02x}: amplitude {} differs from the volume-{} amplitude {}", CH[ch], 8 + ch, reg, a, reg & 15, fixed[(reg & 15) as usize]),
                    ));
                }
            } else {
                // envelope mode: held high (shape 13) = full amplitude, held low (shape 9) = lowest
                let hi = dc_level(ym, 0, ch, reg, Some(0x0D)).0;
                let lo = dc_level(ym, 0, ch, reg, Some(0x09)).0;
                if hi != fixed[15] || lo > fixed[0] {
                    return Err((
                        format!("C18:volume:bit4-envelope:{}:{}", chipn, if reg & 0xE0 != 0 { "upper-bits-set" } else { "general" }),
                        format!(
                            "channel {} R{}={:02x}: with the envelope held high the amplitude is {} (volume 15 = {}), held low {} (volume 0 = {})",
                            CH[ch], 8 + ch, reg, hi, fixed[15], lo, fixed[0]
                        ),
                    ));
                }
            }
            h = fnv_mix(h, reg as u64);
        }
        Ok(fnv_mix(h, fixed[7].to_bits()))
    })
}

/// Position of channel `ch` in stereo mode `mode`: -1 left, 0 centre, 1 right (first letter of
/// the mode name is the left channel, the middle letter the centre, the last the right one).
fn placement(mode: u8, ch: usize) -> i32 {
    if mode == 0 {
        return 0;
    }
    let name = MODE_NAMES[mode as usize].as_bytes();
    let pos = name.iter().position(|c| *c == b'A' + ch as u8).unwrap();
    pos as i32 - 1
}

fn pan_case(ym: bool, mode: u8, ch: usize, verbose: bool) -> Result<u64, Fail> {
    guarded("pan:new/tick", || {
        let (l, r) = dc_level(ym, mode, ch, 15, None);
        let want = placement(mode, ch);
        let got = if l > r {
            -1
        } else if l < r {
            1
        } else {
            0
        };
        if verbose {
            println!("  mode {} channel {}: left gain {}, right gain {} (placement wanted {})", MODE_NAMES[mode as usize], CH[ch], l, r, want);
        }
        let sane = l.is_finite() && r.is_finite() && l >= 0.0 && r >= 0.0 && l + r > 0.0;
        if got != want || !sane {
            return Err((
                format!("C18:pan:{}:ch{}", MODE_NAMES[mode as usize], CH[ch]),
                format!(
                    "stereo mode {}: channel {} has left gain {} and right gain {}, the mode places it {}",
                    MODE_NAMES[mode as usize],
                    CH[ch],
                    l,
                    r,
                    ["left", "centre", "right"][(want + 1) as usize]
                ),
            ));
        }
        Ok(fnv_mix(fnv(&[5, mode, ch as u8]), l.to_bits() ^ r.to_bits().rotate_left(7)))
    })
}

fn core_checks(ctx: &Ctx, col: &Collector) {
    // tones
    let mut tone_jobs: Vec<(usize, u16, u8)> = Vec::new();
    for ch in 0..3 {
        for tp in 0..=4095u16 {
            // all periods in both tiers (the whole sweep costs well under a second)
            tone_jobs.push((ch, tp, 0));
        }
        for tp in [0u16, 1, 0x0FF, 0x100, 0x5A5] {
            for high in [0x10u8, 0xF0] {
                tone_jobs.push((ch, tp, high));
            }
        }
    }
    par_for(tone_jobs.len(), 8, |i| {
        let (ch, tp, high) = tone_jobs[i];
        match tone_case(ch, tp, high, false) {
            Ok(h) => ctx.outcome(h),
            Err(f) => col.fail((10, tp as u64, (ch as u64) << 8 | high as u64), &f.0, &f.1, || json!({"kind":"tone","ch":ch,"tp":tp,"high":high})),
        }
        ctx.add_eval(1);
    });
    ctx.note("core_tone_cases", json!(tone_jobs.len()));
    // noise
    let noise_vals: Vec<u8> = if ctx.thorough() { (0..=255u8).collect() } else { (0..=31u8).chain(0xE0..=0xFF).collect() };
    par_for(noise_vals.len(), 1, |i| {
        let np = noise_vals[i];
        match noise_case(np, false) {
            Ok(Some(h)) => ctx.outcome(h),
            Ok(None) => ctx.note_add("noise_np0_not_judged", 1),
            Err(f) => col.fail((11, np as u64, 0), &f.0, &f.1, || json!({"kind":"noise","np":np})),
        }
        ctx.add_eval(1);
    });
    // envelope
    let mut env_jobs: Vec<(bool, u8, u16)> = Vec::new();
    for ym in [false, true] {
        for shape in 0..16u8 {
            for ep in [1u16, 2, 3, 255, 256, 4095, 65535] {
                if ym && !ctx.thorough() && ep > 4095 {
                    continue;
                }
                env_jobs.push((ym, shape, ep));
            }
        }
    }
    if ctx.thorough() {
        for shape in 16..=255u8 {
            env_jobs.push((false, shape, 3));
        }
    }
    env_jobs.sort_by_key(|j| std::cmp::Reverse(j.2));
    par_for(env_jobs.len(), 1, |i| {
        let (ym, shape, ep) = env_jobs[i];
        match env_case(ym, shape, ep, false) {
            Ok(h) => ctx.outcome(h),
            Err(f) => col.fail((12, ep as u64, (shape as u64) << 1 | ym as u64), &f.0, &f.1, || json!({"kind":"env","ym":ym,"shape":shape,"ep":ep})),
        }
        ctx.add_eval(1);
    });
    ctx.note("core_envelope_cases", json!(env_jobs.len()));
    // restart: every byte written to R13 over four earlier envelope states x two chip types
    let mut rjobs: Vec<(bool, u8, usize, u8)> = Vec::new();
    for ym in [false, true] {
        for (prev, wait) in [(0x0Du8, 400usize), (0x09, 400), (0x08, 50), (0x0E, 131)] {
            for v in 0..=255u8 {
                rjobs.push((ym, prev, wait, v));
            }
        }
    }
    par_for(rjobs.len(), 16, |i| {
        let (ym, prev, wait, v) = rjobs[i];
        match env_restart_case(ym, prev, wait, v) {
            Ok(h) => ctx.outcome(h),
            Err(f) => col.fail((14, v as u64, (prev as u64) << 1 | ym as u64), &f.0, &f.1, || json!({"kind":"env-restart","ym":ym,"prev":prev,"wait":wait,"value":v})),
        }
        ctx.add_eval(1);
    });
    ctx.note("core_envelope_restart_cases", json!(rjobs.len()));
    // mixer
    par_for(3 * 256, 4, |i| {
        let (ch, r7) = (i / 256, (i % 256) as u8);
        match mixer_case(ch, r7, false) {
            Ok(h) => ctx.outcome(h),
            Err(f) => col.fail((13, r7 as u64, ch as u64), &f.0, &f.1, || json!({"kind":"mixer","ch":ch,"r7":r7})),
        }
        ctx.add_eval(1);
    });
    // volume, pan
    par_for(6, 1, |i| {
        let (ym, ch) = (i / 3 == 1, i % 3);
        match volume_case(ym, ch, false) {
            Ok(h) => ctx.outcome(h),
            Err(f) => col.fail((14, i as u64, 0), &f.0, &f.1, || json!({"kind":"volume","ym":ym,"ch":ch})),
        }
        ctx.add_eval(256 + 16);
    });
    for ym in [false, true] {
        for mode in 0..7u8 {
            for ch in 0..3 {
                match pan_case(ym, mode, ch, false) {
                    Ok(h) => ctx.outcome(h),
                    Err(f) => col.fail((15, mode as u64, ch as u64), &f.0, &f.1, || json!({"kind":"pan","ym":ym,"mode":mode,"ch":ch})),
                }
                ctx.add_eval(1);
            }
        }
    }
    ctx.sample(json!({"part":"core","example":"documented level per step, shape 10","levels": (0..70).map(|s| env_pattern(10, s)).collect::<Vec<_>>() }));
}

// =================================================================== B. public API, analog path

const RATES: [usize; 12] = [8000, 11025, 16000, 22050, 27709, 27710, 32000, 44100, 48000, 96000, 192000, 384000];
const PROGRAMMES: [&str; 4] = ["silence", "one-tone", "three-tones+noise+envelope", "dc-volume-15"];

fn programme(ay: &mut AymPrecise, p: usize) {
    let w: &[(u8, u8)] = match p {
        0 => &[(7, 0x3F), (8, 0), (9, 0), (10, 0)],
        1 => &[(0, 100), (1, 0), (7, 0x3E), (8, 15)],
        2 => &[(0, 100), (1, 0), (2, 251), (3, 0), (4, 0xE8), (5, 3), (6, 5), (7, 0), (8, 0x10), (9, 0x0F), (10, 0x0A), (11, 0x2C), (12, 1), (13, 0x0E)],
        _ => &[(7, 0x3F), (8, 15), (9, 15), (10, 15)],
    };
    for (r, v) in w {
        ay.write_register(*r, *v);
    }
}

fn rate_class(rate: usize) -> &'static str {
    // the chip core runs at f_clk/8 and the resampler produces 8 sub-samples per output sample
    if rate * 64 < FCLK {
        "rate-below-fclk/64"
    } else {
        "rate-at-least-fclk/64"
    }
}

fn api_bounded_case(rate: usize, p: usize, millis: usize, verbose: bool) -> Result<u64, Fail> {
    guarded("api:next_sample", || {
        let mut ay = chip(false, 1, rate);
        programme(&mut ay, p);
        let n = rate * millis / 1000;
        let mut maxabs = 0.0f64;
        let mut first_bad: Option<(usize, f64, f64)> = None;
        let mut h = fnv(&[6, p as u8]);
        for i in 0..n {
            let s = ay.next_sample();
            if !(s.left.is_finite() && s.right.is_finite()) {
                return Err((
                    format!("C18:api:non-finite:{}", rate_class(rate)),
                    format!("sample rate {}, programme {}: sample {} is ({}, {})", rate, PROGRAMMES[p], i, s.left, s.right),
                ));
            }
            let m = s.left.abs().max(s.right.abs());
            if m > maxabs {
                maxabs = m;
            }
            if m > BOUND && first_bad.is_none() {
                first_bad = Some((i, s.left, s.right));
            }
            if i % 997 == 0 {
                h = fnv_mix(h, (s.left * 1024.0) as i64 as u64);
            }
        }
        if verbose {
            println!("  rate {} programme {}: {} samples, max |s| = {:e}", rate, PROGRAMMES[p], n, maxabs);
        }
        if let Some((i, l, r)) = first_bad {
            return Err((
                format!("C18:api:unbounded:{}", rate_class(rate)),
                format!(
                    "sample rate {} Hz (f_clk/64 = {:.1}), programme {}: sample {} is ({:e}, {:e}); largest magnitude in {} ms is {:e} (bound {})",
                    rate,
                    FCLK as f64 / 64.0,
                    PROGRAMMES[p],
                    i,
                    l,
                    r,
                    millis,
                    maxabs,
                    BOUND
                ),
            ));
        }
        Ok(fnv_mix(h, rate as u64))
    })
}

/// Frequency of a single tone from hysteresis threshold crossings of the left channel.
fn api_tone_case(rate: usize, tp: u16, millis: usize, verbose: bool) -> Result<Option<(u64, f64)>, Fail> {
    guarded("api:next_sample", || {
        let f = FCLK as f64 / (16.0 * tp as f64);
        // judged only where the tone is representable with 10 % margin in both sampling stages:
        // the output rate and the chip model's own tick rate f_clk/8 (TP=1 sits exactly on the
        // tick-rate Nyquist and is rendered as its mean level by the band-limiting interpolator)
        if f >= 0.45 * rate as f64 || f >= 0.45 * FCLK as f64 / 8.0 {
            return Ok(None);
        }
        let mut ay = chip(false, 0, rate);
        ay.write_register(0, tp as u8);
        ay.write_register(1, (tp >> 8) as u8);
        ay.write_register(7, 0x3E);
        ay.write_register(8, 15);
        let n = rate * millis / 1000;
        let skip = 256.min(n / 4); // filter start-up
        let mut v: Vec<f64> = Vec::with_capacity(n);
        for _ in 0..n {
            v.push(ay.next_sample().left);
        }
        let body = &v[skip..];
        if body.iter().any(|x| !x.is_finite()) {
            return Err((format!("C18:api:non-finite:{}", rate_class(rate)), format!("rate {} TP {}: non-finite sample", rate, tp)));
        }
        let (mn, mx) = body.iter().fold((f64::MAX, f64::MIN), |a, x| (a.0.min(*x), a.1.max(*x)));
        let mid = (mn + mx) / 2.0;
        let hyst = (mx - mn) * 0.1;
        let mut state: Option<bool> = None;
        let mut crossings: Vec<usize> = Vec::new();
        for (i, x) in body.iter().enumerate() {
            let s = if *x > mid + hyst {
                Some(true)
            } else if *x < mid - hyst {
                Some(false)
            } else {
                None
            };
            if let Some(s) = s {
                if let Some(p) = state {
                    if p != s {
                        crossings.push(i);
                    }
                }
                state = Some(s);
            }
        }
        let est = if crossings.len() >= 3 {
            (crossings.len() - 1) as f64 / 2.0 / ((crossings[crossings.len() - 1] - crossings[0]) as f64 / rate as f64)
        } else {
            0.0
        };
        if verbose {
            println!("  rate {} TP {}: {} crossings in {} samples, measured {:.3} Hz, f_clk/(16 TP) = {:.3} Hz, swing {:e}..{:e}", rate, tp, crossings.len(), body.len(), est, f, mn, mx);
        }
        if crossings.len() < 3 || ((est - f) / f).abs() > 0.01 {
            return Err((
                format!("C18:api:tone-frequency:{}", rate_class(rate)),
                format!(
                    "sample rate {} Hz, tone A TP={}: measured {:.2} Hz from {} threshold crossings over {} ms, f_clk/(16 TP) = {:.2} Hz",
                    rate,
                    tp,
                    est,
                    crossings.len(),
                    millis,
                    f
                ),
            ));
        }
        Ok(Some((fnv_mix(fnv(&[7]), (rate as u64) << 16 | tp as u64), est)))
    })
}

const API_TPS: [u16; 7] = [1, 2, 3, 10, 100, 1000, 4095];

fn api_checks(ctx: &Ctx, col: &Collector) {
    let millis = if ctx.thorough() { 2000 } else { 250 };
    let skipped = std::sync::atomic::AtomicU64::new(0);
    let jobs: Vec<(usize, usize)> = (0..RATES.len()).flat_map(|r| (0..PROGRAMMES.len() + API_TPS.len()).map(move |p| (r, p))).collect();
    par_for(jobs.len(), 1, |i| {
        let (ri, p) = jobs[i];
        let rate = RATES[ri];
        if p < PROGRAMMES.len() {
            match api_bounded_case(rate, p, millis, false) {
                Ok(h) => ctx.outcome(h),
                Err(f) => col.fail((20, ri as u64, p as u64), &f.0, &f.1, || json!({"kind":"api-bounded","rate":rate,"programme":p,"millis":millis})),
            }
        } else {
            let tp = API_TPS[p - PROGRAMMES.len()];
            match api_tone_case(rate, tp, millis, false) {
                Ok(Some((h, est))) => {
                    ctx.outcome(h);
                    if rate == 44100 && tp == 100 {
                        ctx.sample(json!({"part":"api","rate":rate,"tone_period":tp,"measured_hz":est,"fclk_over_16tp_hz":FCLK as f64 / 1600.0}));
                    }
                }
                Ok(None) => {
                    skipped.fetch_add(1, std::sync::atomic::Ordering::Relaxed);
                }
                Err(f) => col.fail((21, ri as u64, tp as u64), &f.0, &f.1, || json!({"kind":"api-tone","rate":rate,"tp":tp,"millis":millis})),
            }
        }
        ctx.add_eval(1);
    });
    ctx.note("api_tone_cases_not_judged_at_or_above_0.45_of_output_rate_or_chip_tick_rate", json!(skipped.into_inner()));
    ctx.note("api_milliseconds_per_case", json!(millis));
}

// =================================================================== C. histories

#[derive(Clone, Copy, Debug, PartialEq, Eq)]
enum Op {
    W(u8, u8),
    G(u16),
}

const VALS: [u8; 6] = [0x00, 0x01, 0x0F, 0x10, 0x1F, 0xFF];

fn full_alphabet() -> Vec<Op> {
    let mut v = Vec::new();
    for r in 0..16u8 {
        for x in VALS {
            v.push(Op::W(r, x));
        }
    }
    v.extend([Op::G(1), Op::G(7), Op::G(1000)]);
    v
}

/// One or two representatives per register role, all three generate lengths.
fn reduced_alphabet() -> Vec<Op> {
    vec![
        Op::W(0, 0x00),
        Op::W(0, 0x1F),
        Op::W(1, 0x01),
        Op::W(2, 0x01),
        Op::W(6, 0x00),
        Op::W(6, 0x1F),
        Op::W(7, 0x00),
        Op::W(7, 0xFF),
        Op::W(7, 0x0F),
        Op::W(8, 0x0F),
        Op::W(8, 0x10),
        Op::W(9, 0x1F),
        Op::W(11, 0x00),
        Op::W(11, 0x0F),
        Op::W(12, 0x01),
        Op::W(13, 0x00),
        Op::W(13, 0x0F),
        Op::W(13, 0xFF),
        Op::W(13, 0x10),
        Op::W(14, 0xFF),
        Op::W(15, 0x01),
        Op::G(1),
        Op::G(7),
        Op::G(1000),
    ]
}

fn ops_json(ops: &[Op]) -> Value {
    Value::Array(
        ops.iter()
            .map(|o| match o {
                Op::W(r, v) => json!({"w":[r, v]}),
                Op::G(n) => json!({"g": n}),
            })
            .collect(),
    )
}

fn ops_from(v: &Value) -> Vec<Op> {
    v.as_array()
        .map(|a| {
            a.iter()
                .map(|o| {
                    if let Some(w) = o.get("w") {
                        Op::W(w[0].as_u64().unwrap() as u8, w[1].as_u64().unwrap() as u8)
                    } else {
                        Op::G(o["g"].as_u64().unwrap() as u16)
                    }
                })
                .collect()
        })
        .unwrap_or_default()
}

/// Amplitudes and gains measured once on fresh chips (mode ABC, chip AY).
struct Tables {
    fixed: [f64; 16],
    env: [f64; 32],
    gl: [f64; 3],
    gr: [f64; 3],
}

fn measure_tables() -> Tables {
    let mut t = Tables { fixed: [0.0; 16], env: [0.0; 32], gl: [0.0; 3], gr: [0.0; 3] };
    // channel B is the centre in ABC: both gains equal, relative amplitudes come from there
    let full = dc_level(false, 1, 1, 15, None).0;
    for v in 0..16u8 {
        t.fixed[v as usize] = dc_level(false, 1, 1, v, None).0 / full;
    }
    // envelope levels: attack ramp, EP=1
    let mut ay = chip(false, 1, 44100);
    ay.write_register(7, 0x3F);
    ay.write_register(9, 0x10);
    ay.write_register(11, 1);
    for shape in [0x0Du8, 0x09] {
        ay.write_register(13, shape);
        for _ in 0..40 {
            let (l, _) = ay.verif_tick();
            t.env[ay.verif_levels().2] = l / full;
        }
    }
    for ch in 0..3 {
        let (l, r) = dc_level(false, 1, ch, 15, None);
        t.gl[ch] = l;
        t.gr[ch] = r;
    }
    t
}


struct HistOut {
    digest: u64,
    nontrivial: bool,
}

fn hist_case(ops: &[Op], tb: &Tables, post_ticks: usize, verbose: bool) -> Result<HistOut, Fail> {
    let res = catch_unwind(AssertUnwindSafe(|| -> Result<HistOut, Fail> {
        let mut ay = chip(false, 1, 44100);
        let mut regs = [0u8; 16];
        let mut written = [false; 16];
        let mut gens = 0usize;
        for (i, op) in ops.iter().enumerate() {
            match *op {
                Op::W(r, v) => {
                    ay.write_register(r, v);
                    regs[r as usize] = v;
                    written[r as usize] = true;
                }
                Op::G(n) => {
                    gens += 1;
                    for k in 0..n {
                        let s = ay.next_sample();
                        if !(s.left.is_finite() && s.right.is_finite()) || s.left.abs() > BOUND || s.right.abs() > BOUND {
                            return Err((
                                "C18:hist:sample-unbounded".into(),
                                format!("history {:?}: sample {} of operation {} is ({:e}, {:e})", ops, k, i, s.left, s.right),
                            ));
                        }
                    }
                }
            }
        }
        // ---- observe the chip core after the history
        let tp: [usize; 3] = [0, 1, 2].map(|c| ((regs[2 * c] as usize) | ((regs[2 * c + 1] & 0x0F) as usize) << 8).max(1));
        let np = (regs[6] & 0x1F) as usize;
        let ep = regs[11] as usize | (regs[12] as usize) << 8;
        let lv0 = ay.verif_levels();
        let mut last_tone = lv0.0;
        let mut last_lfsr = lv0.3;
        let mut last_env = lv0.2;
        let mut tone_t: [Option<usize>; 3] = [None; 3];
        let mut noise_t: Option<usize> = None;
        let mut env_t: Option<usize> = None;
        let mut digest = fnv(&[8]);
        let mut first64: Vec<u64> = Vec::with_capacity(130);
        let mut judged = 0u32;
        for t in 0..post_ticks {
            let (l, r) = ay.verif_tick();
            let lv = ay.verif_levels();
            if t < 64 {
                first64.push(l.to_bits());
                first64.push(r.to_bits());
            }
            // (d) output = gated sum defined by the final register file
            let (mut el, mut er) = (0.0f64, 0.0f64);
            for c in 0..3 {
                let toff = (regs[7] >> c) & 1 == 1;
                let noff = (regs[7] >> (3 + c)) & 1 == 1;
                let gate = ((lv.0[c] == 1) | toff) & ((lv.1 == 1) | noff);
                if gate {
                    let a = if regs[8 + c] & 0x10 != 0 { tb.env[lv.2] } else { tb.fixed[(regs[8 + c] & 0x0F) as usize] };
                    el += a * tb.gl[c];
                    er += a * tb.gr[c];
                }
            }
            if (l - el).abs() > 1e-9 || (r - er).abs() > 1e-9 || !l.is_finite() || !r.is_finite() {
                return Err((
                    "C18:hist:output-vs-final-registers".into(),
                    format!(
                        "history {:?}: {} ticks later the raw output is ({}, {}), the final register file {:02x?} with tone bits {:?}, noise bit {}, envelope level {} defines ({}, {})",
                        ops, t + 1, l, r, &regs[..14], lv.0, lv.1, lv.2, el, er
                    ),
                ));
            }
            // (a) tone half periods
            for c in 0..3 {
                if lv.0[c] != last_tone[c] {
                    if let Some(p) = tone_t[c] {
                        judged += 1;
                        if t - p != tp[c] {
                            return Err((
                                format!("C18:hist:tone-period-after-history:ch{}", CH[c]),
                                format!("history {:?}: tone {} toggles {} ticks apart, final registers give TP={}", ops, CH[c], t - p, tp[c]),
                            ));
                        }
                    }
                    tone_t[c] = Some(t);
                    last_tone[c] = lv.0[c];
                }
            }
            // (b) noise clock
            if lv.3 != last_lfsr {
                if let Some(p) = noise_t {
                    if written[6] && np >= 1 {
                        judged += 1;
                        if t - p != 2 * np {
                            return Err((
                                "C18:hist:noise-period-after-history".into(),
                                format!("history {:?}: noise clocks {} ticks apart, final R6 gives NP={}", ops, t - p, np),
                            ));
                        }
                    }
                }
                noise_t = Some(t);
                last_lfsr = lv.3;
            }
            // (c) envelope step grid
            if lv.2 != last_env {
                if let Some(p) = env_t {
                    if ep >= 1 {
                        judged += 1;
                        if (t - p) % ep != 0 {
                            return Err((
                                "C18:hist:envelope-period-after-history".into(),
                                format!("history {:?}: envelope level changes {} ticks apart, final R11/R12 give EP={}", ops, t - p, ep),
                            ));
                        }
                    }
                }
                env_t = Some(t);
                last_env = lv.2;
            }
        }
        for x in first64.iter() {
            digest = fnv_mix(digest, *x);
        }
        digest = fnv_mix(digest, lv0.3 as u64 ^ (lv0.2 as u64) << 20);
        // ---- write-order independence (no samples generated, R13 untouched)
        let writes: Vec<(u8, u8)> = ops.iter().filter_map(|o| if let Op::W(r, v) = o { Some((*r, *v)) } else { None }).collect();
        if gens == 0 && !written[13] && writes.len() >= 2 {
            let mut canon = chip(false, 1, 44100);
            for r in 0..16u8 {
                if written[r as usize] {
                    canon.write_register(r, regs[r as usize]);
                }
            }
            let c0 = canon.verif_levels();
            let mut same = c0 == lv0;
            for i in 0..64 {
                let (l, r) = canon.verif_tick();
                if l.to_bits() != first64[2 * i] || r.to_bits() != first64[2 * i + 1] {
                    same = false;
                }
            }
            if !same {
                return Err((
                    "C18:hist:write-order-dependence".into(),
                    format!("history {:?} (writes only, no R13): the next 64 chip ticks differ from those after writing the same final values {:02x?} in register order", ops, &regs[..14]),
                ));
            }
        }
        if verbose {
            println!("  history {:?}", ops);
            println!("  final registers {:02x?}; TP {:?} NP {} EP {}; {} period judgements in {} ticks; digest {:016x}", &regs[..14], tp, np, ep, judged, post_ticks, digest);
        }
        Ok(HistOut { digest, nontrivial: judged > 0 })
    }));
    let entry = "write_register/next_sample";
    match res {
        Ok(r) => r,
        Err(p) => Err((
            format!("C18:hist:panic:{}:{}", entry, panic_shape(&p)),
            format!("history {:?}: AymPrecise panicked: {}", ops, panic_shape(&p)),
        )),
    }
}

struct Worker<'a> {
    set: HashSet<u64>,
    sink: &'a Mutex<HashSet<u64>>,
}
impl<'a> Drop for Worker<'a> {
    fn drop(&mut self) {
        let mut g = self.sink.lock().unwrap();
        for h in self.set.drain() {
            if g.len() < 4_000_000 {
                g.insert(h);
            }
        }
    }
}

fn decode_history(mut idx: u64, len: usize, alpha: &[Op], out: &mut Vec<Op>) {
    out.clear();
    for _ in 0..len {
        out.push(alpha[(idx % alpha.len() as u64) as usize]);
        idx /= alpha.len() as u64;
    }
    out.reverse();
}

fn history_search(ctx: &Ctx, col: &Collector, name: &str, alpha: &[Op], depth: usize, order_base: u64) {
    let tb = match guarded("tables:write_register/tick", || Ok(measure_tables())) {
        Ok(t) => t,
        Err(f) => {
            col.fail((order_base, 0, 0), &f.0, &f.1, || json!({"kind":"tables"}));
            ctx.note(&format!("hist_{}_skipped_chip_panics_on_plain_dc_levels", name), json!(true));
            return;
        }
    };
    let post_ticks = if ctx.thorough() { 2048 } else { 1024 };
    let sink: Mutex<HashSet<u64>> = Mutex::new(HashSet::new());
    let n = alpha.len() as u64;
    let judged_total = std::sync::atomic::AtomicU64::new(0);
    let mut total = 0u64;
    for len in 0..=depth {
        let count = n.pow(len as u32);
        total += count;
        let chunk = 256usize;
        let jobs = ((count + chunk as u64 - 1) / chunk as u64) as usize;
        par_for_with(
            jobs,
            1,
            || (Worker { set: HashSet::new(), sink: &sink }, Vec::<Op>::new()),
            |st, j| {
                let (w, ops) = st;
                let s = j as u64 * chunk as u64;
                let e = (s + chunk as u64).min(count);
                let mut nontrivial = 0;
                for idx in s..e {
                    decode_history(idx, len, alpha, ops);
                    match hist_case(ops, &tb, post_ticks, false) {
                        Ok(o) => {
                            w.set.insert(o.digest);
                            nontrivial += o.nontrivial as u64;
                        }
                        Err(f) => col.fail((order_base + len as u64, idx, 0), &f.0, &f.1, || json!({"kind":"hist","ops":ops_json(ops),"post_ticks":post_ticks})),
                    }
                }
                ctx.add_transitions(e - s);
                ctx.add_traces(e - s);
                judged_total.fetch_add(nontrivial, std::sync::atomic::Ordering::Relaxed);
            },
        );
    }
    let states = sink.into_inner().unwrap();
    ctx.add_states(states.len() as u64);
    let mut k = 0;
    for h in states.iter() {
        ctx.outcome(*h);
        k += 1;
        if k > 200_000 {
            break;
        }
    }
    ctx.note(&format!("hist_{}_alphabet_size", name), json!(alpha.len()));
    ctx.note(&format!("hist_{}_depth", name), json!(depth));
    ctx.note(&format!("hist_{}_histories", name), json!(total));
    ctx.note(&format!("hist_{}_histories_with_period_judgements", name), json!(judged_total.into_inner()));
    ctx.note(&format!("hist_{}_distinct_core_behaviours", name), json!(states.len()));
}

// =================================================================== D. ports

const CODE: u16 = 0x8100;

fn reg_mask(r: u8) -> u8 {
    match r & 0x0F {
        1 | 3 | 5 | 13 => 0x0F,
        6 | 8 | 9 | 10 => 0x1F,
        _ => 0xFF,
    }
}

fn port_emu(m128: bool) -> rig::Emu {
    let o = if m128 { Opts::k128() } else { Opts { ay: true, ..Opts::k48() } };
    rig::emu_stepping(&o)
}

fn port_case(e: &mut rig::Emu, m128: bool, sel: u8, data: u8, verbose: bool) -> Result<u64, Fail> {
    let mach = if m128 { "128k" } else { "48k" };
    guarded("ports:OUT/IN", || {
        let ok = |got: u8, written: u8, reg: u8| got == written || got == written & reg_mask(reg);
        rig::cpu_out(e, CODE, 0xFFFD, sel);
        rig::cpu_out(e, CODE, 0xBFFD, data);
        let a = rig::cpu_in(e, CODE, 0xFFFD);
        // another register gets the complement, then the first one is re-selected through an alias
        let other = sel ^ 1;
        rig::cpu_out(e, CODE, 0xFFFD, other);
        rig::cpu_out(e, CODE, 0xBFFD, !data);
        rig::cpu_out(e, CODE, 0xFFFD, sel ^ 0xF0);
        let b = rig::cpu_in(e, CODE, 0xFFFD);
        rig::cpu_out(e, CODE, 0xFFFD, other ^ 0x50);
        let c = rig::cpu_in(e, CODE, 0xFFFD);
        if verbose {
            println!("  {}: select {:02x}, write {:02x}: read {:02x}; after writing {:02x} to register {:02x} and selecting {:02x}: read {:02x}; selecting {:02x}: read {:02x}", mach, sel, data, a, !data, other, sel ^ 0xF0, b, other ^ 0x50, c);
        }
        if !ok(a, data, sel) {
            return Err((
                format!("C18:ports:readback:{}", mach),
                format!("{}: OUT (FFFD),{:02x}; OUT (BFFD),{:02x}; IN (FFFD) = {:02x}, expected {:02x} or {:02x}", mach, sel, data, a, data, data & reg_mask(sel)),
            ));
        }
        if !ok(b, data, sel) {
            return Err((
                format!("C18:ports:select-wrap:{}", mach),
                format!(
                    "{}: register {:02x} holds {:02x}; after writing {:02x} to register {:02x}, selecting {:02x} (same register modulo 16) reads {:02x}",
                    mach, sel, data, !data, other, sel ^ 0xF0, b
                ),
            ));
        }
        if !ok(c, !data, other) {
            return Err((
                format!("C18:ports:select-wrap:{}", mach),
                format!("{}: register {:02x} was written {:02x}; selecting {:02x} reads {:02x}", mach, other, !data, other ^ 0x50, c),
            ));
        }
        Ok(fnv(&[9, sel & 15, a, b, c]))
    })
}

fn port_checks(ctx: &Ctx, col: &Collector) {
    let data: Vec<u8> = if ctx.thorough() { (0..=255u8).collect() } else { vec![0x00, 0x01, 0x0F, 0x10, 0x1F, 0x7F, 0x80, 0xFF] };
    let outs: Mutex<HashSet<u64>> = Mutex::new(HashSet::new());
    par_for(512, 1, |i| {
        let m128 = i >= 256;
        let sel = (i & 0xFF) as u8;
        let mut e = port_emu(m128);
        let mut local = HashSet::new();
        for d in data.iter() {
            match port_case(&mut e, m128, sel, *d, false) {
                Ok(h) => {
                    local.insert(h);
                }
                Err(f) => col.fail((40 + m128 as u64, sel as u64, *d as u64), &f.0, &f.1, || json!({"kind":"port","m128":m128,"sel":sel,"data":d})),
            }
            ctx.add_eval(1);
        }
        let _ = rig::drain_audio(&mut e);
        outs.lock().unwrap().extend(local);
    });
    let outs = outs.into_inner().unwrap();
    ctx.note("port_distinct_readback_triples", json!(outs.len()));
    for h in outs.iter().take(50_000) {
        ctx.outcome(*h);
    }
    ctx.sample(json!({"part":"ports","sequence":"OUT FFFD sel; OUT BFFD d; IN FFFD; OUT FFFD sel^1; OUT BFFD !d; OUT FFFD sel^F0; IN FFFD; OUT FFFD sel^1^50; IN FFFD","data_alphabet_size":data.len()}));
}

// =================================================================== E. port -> chip forwarding

/// A script is a list of frames; each frame a list of (select value, data) written through the
/// ports by CPU-executed OUTs right at the frame start (before the first sample of that frame is
/// generated), at most 5 per frame.
type Script = Vec<Vec<(u8, u8)>>;

fn forwarding_scripts() -> Vec<(String, Script)> {
    let mut v: Vec<(String, Script)> = Vec::new();
    let idle = |n: usize| -> Script { vec![vec![]; n] };
    // envelope restart by re-writing the SAME shape value, for every shape
    for shape in 0..16u8 {
        let mut sc: Script = vec![vec![(7, 0x3E), (0, 0x00), (1, 0x01), (8, 0x10)], vec![(11, 0x00), (12, 0x03), (13, shape)]];
        sc.extend(idle(9));
        sc.push(vec![(13, shape)]);
        sc.extend(idle(7));
        sc.push(vec![(13, shape), (13, shape)]);
        sc.extend(idle(5));
        v.push((format!("same-shape-again:{}", shape), sc));
    }
    // every register re-written with the value it already holds, selects through aliases
    {
        let tune: Vec<(u8, u8)> = vec![(0, 0x34), (1, 0x02), (2, 0x80), (3, 0x01), (4, 0xC0), (5, 0x00), (6, 0x07), (7, 0x28), (8, 0x0F), (9, 0x0B), (10, 0x10), (11, 0x80), (12, 0x01), (13, 0x0E)];
        let mut sc: Script = tune.chunks(5).map(|c| c.to_vec()).collect();
        sc.extend(idle(4));
        sc.extend(tune.chunks(5).map(|c| c.iter().map(|(r, d)| (r | 0xA0, *d)).collect::<Vec<_>>()));
        sc.extend(idle(6));
        v.push(("rewrite-all-through-aliases".into(), sc));
    }
    // one change per frame: volume staircase up and down, then period glide, mixer walk
    {
        let mut sc: Script = vec![vec![(7, 0x3E), (0, 0x7F), (1, 0x00), (8, 0x00)]];
        for k in 0..16u8 {
            sc.push(vec![(8, k)]);
        }
        for k in (0..16u8).rev() {
            sc.push(vec![(0x18, k)]);
        }
        for k in 0..8u8 {
            sc.push(vec![(8, 0x0F), (0, 0x40 + k * 9), (1, k & 3)]);
        }
        for m in [0x3Fu8, 0x3E, 0x36, 0x37, 0x00, 0x09, 0x3F] {
            sc.push(vec![(6, 0x05), (7, m)]);
        }
        v.push(("one-change-per-frame".into(), sc));
    }
    // registers 14/15 and data for unselected registers must not disturb the sound
    {
        let mut sc: Script = vec![vec![(7, 0x3E), (0, 0x55), (1, 0x01), (8, 0x0D)]];
        sc.extend(idle(2));
        sc.push(vec![(14, 0xFF), (15, 0x00), (0x1E, 0x55)]);
        sc.extend(idle(3));
        v.push(("io-port-registers".into(), sc));
    }
    v
}

fn forwarding_case(m128: bool, rate: usize, ay_mode: u8, name: &str, script: &Script, verbose: bool) -> Result<u64, Fail> {
    use rustzx_core::zx::sound::ay::ZXAYMode;
    let mach = if m128 { "128k" } else { "48k" };
    guarded("ports:audio", || {
        let mut o = if m128 { Opts::k128() } else { Opts { ay: true, ..Opts::k48() } };
        o.beeper = false;
        o.rate = rate;
        o.ay_mode = match ay_mode {
            0 => ZXAYMode::Mono,
            1 => ZXAYMode::ABC,
            _ => ZXAYMode::ACB,
        };
        let mut e = rig::emu_stepping(&o);
        rig::poke(&mut e, 0x8000, &[0xF3, 0x18, 0xFE]);
        e.verif_cpu().regs.set_pc(0x8000);
        let spf = rate / 50;
        // the four chips the machine may legitimately contain
        let mut refs: Vec<(String, AymPrecise, bool)> = Vec::new();
        for ym in [false, true] {
            for dc in [true, false] {
                let mut c = chip(ym, ay_mode, rate);
                if dc {
                    c.enable_dc_filter();
                }
                refs.push((format!("{}{}", if ym { "YM" } else { "AY" }, if dc { "+dc-filter" } else { "" }), c, true));
            }
        }
        let vol = o.volume as f64 / 200.0;
        let mut h = fnv(name.as_bytes());
        let mut first_bad: Option<(usize, usize, f32, f32)> = None;
        for (fi, frame) in script.iter().enumerate() {
            if frame.len() > 5 {
                return Err(("C18:harness".into(), "more than 5 writes in a frame".into()));
            }
            let pc = e.verif_cpu().regs.get_pc();
            for (sel, data) in frame.iter() {
                rig::cpu_out(&mut e, CODE, 0xFFFD, *sel);
                rig::cpu_out(&mut e, CODE, 0xBFFD, *data);
            }
            e.verif_cpu().regs.set_pc(pc);
            let f0 = e.verif_total_frames();
            let mut guard = 0;
            while e.verif_total_frames() == f0 {
                rig::step(&mut e);
                guard += 1;
                if guard > 100_000 {
                    return Err(("C18:harness".into(), "frame never ends".into()));
                }
            }
            let got = rig::drain_audio(&mut e);
            if got.len() != spf {
                return Err((format!("C18:ports:audio:sample-count:{}", mach), format!("{}: frame {} delivered {} samples at {} Hz (see C19)", mach, fi, got.len(), rate)));
            }
            for (_, c, alive) in refs.iter_mut() {
                for (sel, data) in frame.iter() {
                    c.write_register(sel & 0x0F, *data);
                }
                for (k, g) in got.iter().enumerate() {
                    let sm = c.next_sample();
                    let want = (((0.0f64 + sm.left) * vol) as f32, ((0.0f64 + sm.right) * vol) as f32);
                    if *alive && ((g.0 - want.0).abs() > 1e-5 || (g.1 - want.1).abs() > 1e-5) {
                        *alive = false;
                        if first_bad.map_or(true, |b| (fi, k) > (b.0, b.1)) {
                            first_bad = Some((fi, k, g.0, want.0));
                        }
                    }
                }
            }
            for g in got.iter() {
                h = fnv_mix(h, g.0.to_bits() as u64 ^ (g.1.to_bits() as u64) << 32);
            }
            if refs.iter().all(|r| !r.2) {
                let (bf, bk, g, w) = first_bad.unwrap();
                let last_writes: Vec<String> = script[..=fi].iter().enumerate().filter(|(_, f)| !f.is_empty()).map(|(i, f)| format!("frame {}: {:02x?}", i, f)).collect();
                return Err((
                    format!("C18:ports:audio-is-not-the-chip-fed-these-writes:{}", name.split(':').next().unwrap_or(name)),
                    format!(
                        "{} at {} Hz, script {}: up to frame {} sample {} the machine's audio equalled an AY/YM chip fed exactly the port writes (select value mod 16, data) at the frame starts; there it gives {} where the longest-matching chip gives {} (|d| > 1e-5). Writes so far: {}",
                        mach, rate, name, bf, bk, g, w, last_writes.join("; ")
                    ),
                ));
            }
        }
        if verbose {
            println!("  {} {} Hz {}: matching chips {:?}", mach, rate, name, refs.iter().filter(|r| r.2).map(|r| r.0.clone()).collect::<Vec<_>>());
        }
        Ok(h)
    })
}

fn forwarding_checks(ctx: &Ctx, col: &Collector) {
    let scripts = forwarding_scripts();
    let mut jobs: Vec<(bool, usize, u8, usize)> = Vec::new();
    for (si, _) in scripts.iter().enumerate() {
        for m128 in [false, true] {
            for (rate, mode) in [(8000usize, 0u8), (22050, 1)] {
                if !ctx.thorough() && (si + m128 as usize) % 2 == 1 && rate == 22050 {
                    continue;
                }
                jobs.push((m128, rate, if m128 { mode } else { 2 - mode }, si));
            }
        }
    }
    let outs: Mutex<HashSet<u64>> = Mutex::new(HashSet::new());
    par_for(jobs.len(), 1, |j| {
        let (m128, rate, mode, si) = jobs[j];
        match forwarding_case(m128, rate, mode, &scripts[si].0, &scripts[si].1, false) {
            Ok(h) => {
                outs.lock().unwrap().insert(h);
            }
            Err(f) => col.fail((60 + m128 as u64, si as u64, rate as u64), &f.0, &f.1, || json!({"kind":"port-audio","m128":m128,"rate":rate,"mode":mode,"script":scripts[si].0})),
        }
        ctx.add_eval(1);
    });
    for h in outs.into_inner().unwrap() {
        ctx.outcome(h);
    }
    ctx.note("port_audio_scripts", json!(scripts.iter().map(|s| s.0.clone()).collect::<Vec<_>>()));
}

// =================================================================== entry

pub fn run(tier: Tier, seed: u64, replay: Option<String>) -> i32 {
    let ctx = Ctx::new("C18", tier, seed, "model_checking");
    if let Some(path) = replay {
        return replay_case(&path);
    }
    let col = Collector::new();
    // debugging aid: VERIF_C18_PARTS=AB... runs a subset of the sections (evidence then says so)
    let parts = std::env::var("VERIF_C18_PARTS").unwrap_or_else(|_| "ABCD".to_string());
    let all_parts = ["A", "B", "C", "D"].iter().all(|p| parts.contains(p));
    if !all_parts {
        ctx.note("sections_run_subset", json!(parts));
    }
    let t0 = std::time::Instant::now();
    if parts.contains('A') {
        core_checks(&ctx, &col);
    }
    let t1 = std::time::Instant::now();
    if parts.contains('B') {
        api_checks(&ctx, &col);
    }
    let t2 = std::time::Instant::now();
    if parts.contains('C') {
        history_search(&ctx, &col, "full", &full_alphabet(), 3, 100);
        history_search(&ctx, &col, "reduced", &reduced_alphabet(), if ctx.thorough() { 5 } else { 4 }, 200);
    }
    let t3 = std::time::Instant::now();
    if parts.contains('D') {
        port_checks(&ctx, &col);
        forwarding_checks(&ctx, &col);
    }
    if std::env::var("VERIF_TIMING").is_ok() {
        eprintln!("timing: core {:.1}s api {:.1}s histories {:.1}s ports {:.1}s", (t1 - t0).as_secs_f64(), (t2 - t1).as_secs_f64(), (t3 - t2).as_secs_f64(), t3.elapsed().as_secs_f64());
    }
    ctx.sample(json!({"part":"hist","example": ops_json(&[Op::W(7, 0x0F), Op::G(7), Op::W(13, 0x0F), Op::G(1000)])}));
    col.flush(&ctx);
    ctx.finish(
        "E-PROD + E-BFS. Core (chip tick = f_clk/8, hooks verif_tick/verif_levels): all 4096 tone period values (incl. 0) x 3 channels: toggle count and exact half period on the raw output; R6 values: noise clock count and interval; 16 shapes x EP {1,2,3,255,256,4095,65535} x 100 steps against the documented ramp pattern (constant phase free), amplitude monotone in level; all 256 byte values written to R13 over four earlier envelope states (parked high, parked low, mid-sawtooth, mid-triangle) x AY/YM: the shape in the low four bits restarts; all 256 R7 values x 3 channels against (tone|off)&(noise|off) built from measured tone-only/noise-only waves; all 256 volume register values x 3 channels x AY/YM; 7 stereo modes x 3 channels x AY/YM. API: 12 sample rates x 4 programmes finite and |s|<=4; tone frequency from threshold crossings within 1 %. Histories: every sequence of <=3 operations over 99 ops (16 registers x {00,01,0F,10,1F,FF}, generate 1/7/1000) and of <=4 (quick) / <=5 (thorough) over a 24-op reduced alphabet, each replayed on a fresh chip: no panic, samples bounded, then 1024 (quick) / 2048 (thorough) chip ticks judged against the final register file (half periods, noise clock, envelope grid, gated output sum) and write-only R13-free histories against register-order writing. Ports: 256 select values x data alphabet x {48K+AY,128K} through CPU-executed OUT/IN; port-to-chip forwarding: scripts of register writes made through the ports at frame starts (the same shape value re-written for all 16 shapes, every register re-written with its own value through select aliases, one change per frame, registers 14/15) x {48K+AY,128K} x {8000, 22050 Hz}: every audio sample of every frame must equal (1e-5) that of an AY or YM AymPrecise, with or without DC filter, fed exactly those writes. states = distinct post-history core behaviours; distinct = outcome digests",
        all_parts,
        &[
            "tone/noise phase, exact analog sample values and the +-1 counting convention are not judged",
            "NP = 0 and EP = 0 are not judged; on the analog path tone frequencies at or above 0.45 x sample rate or 0.45 x chip tick rate (f_clk/8; this excludes TP=1, which AymPrecise renders as a constant mean level at every rate) are not judged",
            "a sample with |s| > 4 counts as unbounded",
            "hooks: AymPrecise::verif_tick (one update_mixer), verif_levels (read-only)",
            "history checks replay every history from a fresh AymPrecise (the type is not Clone)",
        ],
    )
}

fn replay_case(path: &str) -> i32 {
    let v: Value = serde_json::from_slice(&rig::read_file(path)).expect("replay json");
    let c = &v["case"];
    let u = |k: &str| c[k].as_u64().unwrap_or(0);
    let b = |k: &str| c[k].as_bool().unwrap_or(false);
    let kind = c["kind"].as_str().unwrap_or("");
    println!("replay: {} {}", kind, c);
    let res: Result<(), Fail> = match kind {
        "tone" => tone_case(u("ch") as usize, u("tp") as u16, u("high") as u8, true).map(|_| ()),
        "noise" => noise_case(u("np") as u8, true).map(|_| ()),
        "env" => env_case(b("ym"), u("shape") as u8, u("ep") as u16, true).map(|_| ()),
        "env-restart" => env_restart_case(b("ym"), u("prev") as u8, u("wait") as usize, u("value") as u8).map(|_| ()),
        "mixer" => mixer_case(u("ch") as usize, u("r7") as u8, true).map(|_| ()),
        "volume" => volume_case(b("ym"), u("ch") as usize, true).map(|_| ()),
        "pan" => pan_case(b("ym"), u("mode") as u8, u("ch") as usize, true).map(|_| ()),
        "api-bounded" => api_bounded_case(u("rate") as usize, u("programme") as usize, u("millis") as usize, true).map(|_| ()),
        "api-tone" => api_tone_case(u("rate") as usize, u("tp") as u16, u("millis") as usize, true).map(|_| ()),
        "hist" => guarded("tables:write_register/tick", || Ok(measure_tables())).and_then(|tb| hist_case(&ops_from(&c["ops"]), &tb, (u("post_ticks") as usize).max(64), true).map(|_| ())),
        "tables" => guarded("tables:write_register/tick", || Ok(measure_tables())).map(|_| ()),
        "port-audio" => {
            let name = c["script"].as_str().unwrap_or("");
            match forwarding_scripts().into_iter().find(|x| x.0 == name) {
                Some((n, sc)) => forwarding_case(b("m128"), u("rate") as usize, u("mode") as u8, &n, &sc, true).map(|_| ()),
                None => {
                    eprintln!("MACHINERY: unknown script {:?}", name);
                    return 2;
                }
            }
        }
        "port" => {
            let mut e = port_emu(b("m128"));
            port_case(&mut e, b("m128"), u("sel") as u8, u("data") as u8, true).map(|_| ())
        }
        _ => {
            eprintln!("MACHINERY: unknown replay kind {:?}", kind);
            return 2;
        }
    };
    match res {
        Ok(()) => {
            println!("replay: case passes now");
            0
        }
        Err((key, what)) => {
            println!("replay: still failing: {} — {}", key, what);
            1
        }
    }
}
