//! C10 — fast tape loading leaves the machine exactly as the ROM loader would.
//! E-PROD over tapes x requests (and request sequences incl. past the end of the tape) on the real
//! Emulator through the ROM trap, against RefLdBytes; RefLdBytes itself is validated against the
//! genuine ROM routine executed on RefZ80 against the ideal waveform. Also hosts C11's system
//! level (ROM loader in real time vs fast load).

use crate::refzx::*;
use crate::rig::{self, Emu, Opts, RegsView, VAsset, VDebug};
use crate::tapemodel::*;
use crate::vcore::{par_for, Ctx, Tier};
use refz80::{RefZ80, StepKind};
use rustzx_core::host::Tape;
use serde_json::json;
use std::time::Duration;

const RET_ADDR: u16 = 0x8F00;
const STACK: u16 = 0xFF40;

#[derive(Clone, Debug)]
pub struct Case {
    pub m128: bool,
    pub blocks: Vec<Vec<u8>>,
    pub requests: Vec<LdRequest>,
    /// bytes poked before the first request (VERIFY images)
    pub pokes: Vec<(u16, Vec<u8>)>,
    /// stray bytes after the last complete block (fewer than a block header needs)
    pub tail: Vec<u8>,
}

fn image_of(c: &Case) -> Vec<u8> {
    let mut v = tap_image(&c.blocks);
    v.extend_from_slice(&c.tail);
    v
}

fn case_json(c: &Case, kind: &str) -> serde_json::Value {
    json!({"kind":kind,"m128":c.m128,"blocks":c.blocks.iter().map(|b| crate::vcore::hex(b)).collect::<Vec<_>>(),
        "requests":c.requests.iter().map(|r| json!([r.a, r.load, r.ix, r.de])).collect::<Vec<_>>(),
        "pokes":c.pokes.iter().map(|(a, b)| json!([a, crate::vcore::hex(b)])).collect::<Vec<_>>(), "tail": crate::vcore::hex(&c.tail)})
}

fn case_from_json(v: &serde_json::Value) -> Case {
    Case {
        m128: v["m128"].as_bool().unwrap_or(false),
        blocks: v["blocks"].as_array().map(|a| a.iter().map(|x| crate::vcore::unhex(x.as_str().unwrap_or(""))).collect()).unwrap_or_default(),
        requests: v["requests"]
            .as_array()
            .map(|a| {
                a.iter()
                    .map(|r| LdRequest { a: r[0].as_u64().unwrap() as u8, load: r[1].as_bool().unwrap(), ix: r[2].as_u64().unwrap() as u16, de: r[3].as_u64().unwrap() as u16 })
                    .collect()
            })
            .unwrap_or_default(),
        pokes: v["pokes"].as_array().map(|a| a.iter().map(|p| (p[0].as_u64().unwrap() as u16, crate::vcore::unhex(p[1].as_str().unwrap_or("")))).collect()).unwrap_or_default(),
        tail: crate::vcore::unhex(v["tail"].as_str().unwrap_or("")),
    }
}

fn machine(m128: bool, fastload: bool) -> Emu {
    let mut o = Opts::machine(m128);
    o.fastload = fastload;
    o.sound = false;
    let mut e = rig::emu(&o);
    e.set_debug_interface(VDebug::at(&[RET_ADDR]));
    if m128 {
        // page in ROM 1 (48 BASIC, where the loader lives): OUT (7FFD),10h by the emulated CPU
        let code = [0x01u8, 0xFD, 0x7F, 0x3E, 0x10, 0xED, 0x79, 0xC3, RET_ADDR as u8, (RET_ADDR >> 8) as u8];
        rig::poke(&mut e, 0x8000, &code);
        e.verif_cpu().regs.set_pc(0x8000);
        e.verif_cpu().regs.set_sp(STACK);
        run_to_ret(&mut e, 2);
    }
    e
}

/// run until the breakpoint at RET_ADDR or `frames` frames elapsed; true = returned
fn run_to_ret(e: &mut Emu, frames: usize) -> bool {
    for _ in 0..frames {
        match e.emulate_frames(Duration::from_secs(1000)) {
            Ok(info) => {
                if info.stop_reason == rustzx_core::EmulationStopReason::Breakpoint {
                    return true;
                }
            }
            Err(_) => return false,
        }
    }
    false
}

fn issue_request(e: &mut Emu, r: &LdRequest) {
    let mut v = RegsView::default();
    v.pc = 0x0556;
    v.sp = STACK;
    v.af = (r.a as u16) << 8 | if r.load { 0x01 } else { 0x00 };
    v.ix = r.ix;
    v.de = r.de;
    v.bc = 0x1234;
    v.hl = 0x5678;
    v.af_ = 0xA5A4;
    v.im = 1;
    v.i = 0x3F;
    rig::set_regs(e.verif_cpu(), &v);
    rig::poke(e, STACK, &[RET_ADDR as u8, (RET_ADDR >> 8) as u8]);
    rig::poke(e, RET_ADDR, &[0x76]);
}

fn ram_image(e: &Emu) -> Vec<u8> {
    (0..=0xFFFFu16).map(|a| e.peek(a)).collect()
}

fn near_stack(a: usize) -> bool {
    a + 24 >= STACK as usize && a < STACK as usize + 2
}

/// Execute a case on the real emulator with fast loading, compare every request with RefLdBytes.
pub fn run_fast_case(ctx: &Ctx, c: &Case, verbose: bool) -> u64 {
    let mut e = machine(c.m128, true);
    for (a, b) in c.pokes.iter() {
        rig::poke(&mut e, *a, b);
    }
    let image = image_of(c);
    // the tape file arrives through an asset returning short reads of a size that rotates with the case
    let chunk = [0usize, 1, 2, 3, 7, 127, 128, 129][(image.len() + c.requests.len() + c.requests.first().map_or(0, |r| r.de as usize + r.ix as usize)) % 8];
    if e.load_tape(Tape::Tap(VAsset::new(image).chunked(chunk).eof_as_zero(c.requests.len() % 2 == 0))).is_err() {
        ctx.violation("C10:load_tape-error", "load_tape failed for a well-formed TAP", case_json(c, "fast"));
        return 0;
    }
    let mut digest = 0u64;
    for (k, req) in c.requests.iter().enumerate() {
        issue_request(&mut e, req);
        let before = ram_image(&e);
        let returned = run_to_ret(&mut e, 12);
        let after = ram_image(&e);
        let v = rig::regs_view(e.verif_cpu());
        let carry = v.af & 1 != 0;
        let rq = format!("request #{} (A={:02x} {} IX={:04x} DE={:04x})", k, req.a, if req.load { "LOAD" } else { "VERIFY" }, req.ix, req.de);
        if k < c.blocks.len() {
            let blk = &c.blocks[k];
            let exp = ref_ld_bytes(blk, req, &|a| before[a as usize]);
            if verbose {
                println!("  {}: block {} -> expected ix={:04x} de={:04x} carry={} writes={} | got returned={} ix={:04x} de={:04x} carry={}", rq, crate::vcore::hex(blk), exp.ix, exp.de, exp.carry, exp.writes.len(), returned, v.ix, v.de, carry);
            }
            if !returned {
                ctx.violation(
                    &format!("C10:no-return:{}", if req.load { "load" } else { "verify" }),
                    &format!("{} on block {}: the routine did not return within 12 frames", rq, crate::vcore::hex(&blk[..blk.len().min(8)])),
                    case_json(c, "fast"),
                );
                return 0;
            }
            let exit = if exp.carry {
                "success"
            } else if exp.de == 0 {
                "parity-error"
            } else {
                "early-exit"
            };
            if carry != exp.carry {
                ctx.violation(
                    &format!("C10:carry:{}:{}", if req.load { "load" } else { "verify" }, exit),
                    &format!("{} on block of {} bytes (flag {:02x}): carry={} but the ROM loader gives carry={} ({})", rq, blk.len(), blk.first().copied().unwrap_or(0), carry, exp.carry, exit),
                    case_json(c, "fast"),
                );
                return 0;
            }
            if v.ix != exp.ix || v.de != exp.de {
                ctx.violation(
                    &format!("C10:ix-de:{}:{}", if req.load { "load" } else { "verify" }, exit),
                    &format!("{} on block of {} bytes: IX={:04x} DE={:04x}, the ROM loader gives IX={:04x} DE={:04x}", rq, blk.len(), v.ix, v.de, exp.ix, exp.de),
                    case_json(c, "fast"),
                );
                return 0;
            }
            let mut want = before.clone();
            for (a, b) in exp.writes.iter() {
                want[*a as usize] = *b;
            }
            for a in 0..65536usize {
                if after[a] != want[a] && !near_stack(a) {
                    ctx.violation(
                        &format!("C10:memory:{}:{}", if req.load { "load" } else { "verify" }, exit),
                        &format!("{} on block of {} bytes: memory[{:04x}]={:02x}, the ROM loader leaves {:02x}", rq, blk.len(), a, after[a], want[a]),
                        case_json(c, "fast"),
                    );
                    return 0;
                }
            }
            digest = crate::vcore::fnv_mix(digest, (exp.ix as u64) << 24 | (exp.de as u64) << 8 | exp.carry as u64);
        } else {
            // past the end of the tape: must not complete; state as with a silent tape
            if returned {
                ctx.violation(
                    &format!("C10:past-end:returns:{}", if carry { "success" } else { "failure" }),
                    &format!("{} with no block left on the tape: the routine returned to its caller with carry={} (a silent tape never returns)", rq, carry),
                    case_json(c, "fast"),
                );
                return 0;
            }
            // compare with the ROM alone polling a silent EAR (lock step on time)
            let img: Vec<u8> = before.clone();
            let sp = spec(c.m128);
            let dummy = |_a: u16| 0u8;
            let io = |p: u16, _t: u64| if p & 1 == 0 { 0xBFu8 } else { 0xFF };
            let mut bus = RefMachine::new(sp, Contended::new(c.m128, 0), 0, &dummy, &io);
            bus.mem64 = Some(img);
            let mut rc = RefZ80::new();
            rc.pc = 0x0556;
            rc.sp = STACK;
            rc.a = req.a;
            rc.f = if req.load { 1 } else { 0 };
            rc.ix = req.ix;
            rc.set_de(req.de);
            rc.set_bc(0x1234);
            rc.set_hl(0x5678);
            rc.a_alt = 0xA5;
            rc.f_alt = 0xA4;
            rc.im = 1;
            rc.i = 0x3F;
            // run the reference until it reaches the implementation's PC at a comparable time: 12 frames
            let horizon = 12 * sp.frame;
            while bus.t < horizon {
                if rc.step(&mut bus) != StepKind::Instruction {
                    continue;
                }
            }
            // architectural registers the ROM loop keeps: A' F' (request), IX, DE, SP
            let ok = v.ix == rc.ix && v.de == rc.de() && v.sp == rc.sp && (v.af_ >> 8) as u8 == rc.a_alt && (v.af_ & 0xFF) as u8 == rc.f_alt;
            if !ok {
                ctx.violation(
                    "C10:past-end:state-disturbed",
                    &format!(
                        "{} with no block left: after 12 frames IX={:04x} DE={:04x} SP={:04x} AF'={:04x}; the ROM polling a silent tape has IX={:04x} DE={:04x} SP={:04x} AF'={:02x}{:02x}",
                        rq, v.ix, v.de, v.sp, v.af_, rc.ix, rc.de(), rc.sp, rc.a_alt, rc.f_alt
                    ),
                    case_json(c, "fast"),
                );
                return 0;
            }
            for a in 0x4000..65536usize {
                if after[a] != bus.mem64.as_ref().unwrap()[a] && !near_stack(a) {
                    ctx.violation("C10:past-end:memory-disturbed", &format!("{} with no block left: memory[{:04x}] changed", rq, a), case_json(c, "fast"));
                    return 0;
                }
            }
            digest = crate::vcore::fnv_mix(digest, 0xEEEE);
        }
    }
    digest
}

// ---------------------------------------------------------------- RefLdBytes vs the genuine ROM

/// Run the ROM routine on RefZ80 against the ideal waveform of `blocks[0]`.
pub fn rom_on_ref(block: &[u8], req: &LdRequest, pokes: &[(u16, Vec<u8>)]) -> Option<(LdResult, Vec<u8>)> {
    let rom = rig::read_file("/repo/rustzx-core/src/zx/roms/48.rom");
    let mut img = vec![0u8; 65536];
    img[..16384].copy_from_slice(&rom);
    for (a, b) in pokes {
        for (i, x) in b.iter().enumerate() {
            img[*a as usize + i] = *x;
        }
    }
    img[STACK as usize] = RET_ADDR as u8;
    img[STACK as usize + 1] = (RET_ADDR >> 8) as u8;
    let edges = ideal_edges(&[block.to_vec()], 50_000);
    let dummy = |_a: u16| 0u8;
    let io = |p: u16, t: u64| {
        if p & 1 == 0 {
            0xBFu8 | if level_at(&edges, t) { 0x40 } else { 0 }
        } else {
            0xFF
        }
    };
    let before = img.clone();
    let mut bus = RefMachine::new(ULA48, Contended::new(false, 0), 0, &dummy, &io);
    bus.mem64 = Some(img);
    let mut rc = RefZ80::new();
    rc.pc = 0x0556;
    rc.sp = STACK;
    rc.a = req.a;
    rc.f = if req.load { 1 } else { 0 };
    rc.ix = req.ix;
    rc.set_de(req.de);
    rc.im = 1;
    let limit = edges.last().copied().unwrap_or(0) + 7_000_000;
    while bus.t < limit {
        rc.step(&mut bus);
        if rc.pc == RET_ADDR {
            let mem = bus.mem64.take().unwrap();
            let mut writes = Vec::new();
            for a in 0x4000..65536usize {
                if mem[a] != before[a] && !near_stack(a) {
                    writes.push((a as u16, mem[a]));
                }
            }
            return Some((LdResult { ix: rc.ix, de: rc.de(), carry: rc.f & 1 != 0, writes }, before));
        }
    }
    None
}

/// Loading over the loader's own stack frame (the classic auto-start trick): the two data bytes
/// land on the word LD-BYTES pushed for its exit path (0x053F at SP-2 of the caller's frame), so
/// the routine leaves through the loaded address. What the ROM does is taken from the genuine ROM
/// routine executed on RefZ80 with the ideal waveform; the fast loader must leave the machine at
/// the same place (PC, SP) with the same bytes in the frame.
fn load_over_stack(ctx: &Ctx) {
    const X: u16 = 0x9000;
    for m128 in [false, true] {
        for (name, ix, data) in [("exit-word", STACK.wrapping_sub(2), vec![X as u8, (X >> 8) as u8]), ("exit-word+return-address", STACK.wrapping_sub(2), vec![X as u8, (X >> 8) as u8, 0x00, 0x91]), ("return-address-only", STACK, vec![0x00, 0x91])] {
            let block = std_block(0xFF, &data);
            let req = LdRequest { a: 0xFF, load: true, ix, de: data.len() as u16 };
            // reference: the ROM itself
            let rom = rig::read_file("/repo/rustzx-core/src/zx/roms/48.rom");
            let mut img = vec![0u8; 65536];
            img[..16384].copy_from_slice(&rom);
            img[STACK as usize] = RET_ADDR as u8;
            img[STACK as usize + 1] = (RET_ADDR >> 8) as u8;
            let edges = ideal_edges(&[block.clone()], 50_000);
            let dummy = |_a: u16| 0u8;
            let io = |p: u16, t: u64| if p & 1 == 0 { 0xBFu8 | if level_at(&edges, t) { 0x40 } else { 0 } } else { 0xFF };
            let mut bus = RefMachine::new(ULA48, Contended::new(false, 0), 0, &dummy, &io);
            bus.mem64 = Some(img);
            let mut rc = RefZ80::new();
            rc.pc = 0x0556;
            rc.sp = STACK;
            rc.a = req.a;
            rc.f = 1;
            rc.ix = req.ix;
            rc.set_de(req.de);
            rc.im = 1;
            let limit = edges.last().copied().unwrap_or(0) + 7_000_000;
            let stops = [RET_ADDR, X, 0x9100];
            let mut want: Option<(u16, u16)> = None;
            while bus.t < limit {
                rc.step(&mut bus);
                if stops.contains(&rc.pc) {
                    want = Some((rc.pc, rc.sp));
                    break;
                }
            }
            let want = match want {
                Some(w) => w,
                None => {
                    eprintln!("MACHINERY: the ROM on RefZ80 did not leave LD-BYTES for the {} case", name);
                    std::process::exit(2);
                }
            };
            // implementation: fast load
            let mut e = machine(m128, true);
            e.set_debug_interface(VDebug::at(&stops));
            if e.load_tape(Tape::Tap(VAsset::new(tap_image(&[block.clone()])))).is_err() {
                continue;
            }
            issue_request(&mut e, &req);
            rig::poke(&mut e, X, &[0x76]);
            rig::poke(&mut e, 0x9100, &[0x76]);
            let returned = run_to_ret(&mut e, 12);
            let v = rig::regs_view(e.verif_cpu());
            ctx.add_eval(1);
            let case = json!({"kind":"load-over-stack","m128":m128,"variant":name});
            if !returned || (v.pc, v.sp) != want {
                ctx.violation(
                    &format!("C10:load-over-stack:{}", name),
                    &format!(
                        "{} machine, LOAD of {} bytes to {:04x} (over the loader's own stack frame, caller's SP={:04x}): the fast loader {} PC={:04x} SP={:04x}; the ROM loader leaves through PC={:04x} SP={:04x}",
                        if m128 { "128K" } else { "48K" }, data.len(), ix, STACK, if returned { "left at" } else { "did not reach a stop address, last" }, v.pc, v.sp, want.0, want.1
                    ),
                    case,
                );
            }
            ctx.outcome(0x57AC ^ (want.0 as u64) << 8 ^ m128 as u64);
        }
    }
}

fn validate_ref_ld_bytes(ctx: &Ctx, quick: bool) -> bool {
    let mut cases: Vec<(Vec<u8>, LdRequest, Vec<(u16, Vec<u8>)>)> = Vec::new();
    let lens: &[usize] = if quick { &[1, 2, 4] } else { &[1, 2, 3, 4, 21] };
    for &n in lens {
        for flag in [0x00u8, 0xFF] {
            for good in [true, false] {
                let payload: Vec<u8> = (0..n.saturating_sub(2)).map(|i| (i * 37 + 5) as u8).collect();
                let mut b = if n == 1 { vec![flag] } else { std_block(flag, &payload) };
                if !good && n >= 2 {
                    let l = b.len() - 1;
                    b[l] ^= 0x10;
                }
                let dlen = n.saturating_sub(2) as u16;
                for a in [flag, flag ^ 0x55] {
                    for load in [true, false] {
                        let mut des = vec![dlen, dlen.wrapping_sub(1), dlen + 1, 0];
                        des.push(0xFF02);
                        des.dedup();
                        for de in des {
                            for ix in [0x9000u16, 0x3FFF] {
                                let mut pokes = vec![];
                                if !load {
                                    // memory equal to the payload, and a variant differing in the last byte
                                    pokes.push((0x9000u16, payload.clone()));
                                }
                                cases.push((b.clone(), LdRequest { a, load, ix, de }, pokes));
                            }
                        }
                    }
                }
            }
        }
    }
    let ok = std::sync::atomic::AtomicBool::new(true);
    let n = cases.len();
    par_for(n, 1, |i| {
        let (b, r, p) = &cases[i];
        match rom_on_ref(b, r, p) {
            Some((rom, before)) => {
                let mut exp = ref_ld_bytes(b, r, &|a| before[a as usize]);
                // writes of unchanged values are invisible in a memory diff
                exp.writes.retain(|(a, v)| before[*a as usize] != *v);
                let mut final_writes: Vec<(u16, u8)> = Vec::new();
                for (a, v) in exp.writes.iter() {
                    final_writes.retain(|(x, _)| x != a);
                    final_writes.push((*a, *v));
                }
                final_writes.sort();
                if rom.ix != exp.ix || rom.de != exp.de || rom.carry != exp.carry || rom.writes != final_writes {
                    eprintln!(
                        "MACHINERY: RefLdBytes disagrees with the ROM: block {} request {:?}: ROM ix={:04x} de={:04x} c={} w={:?} | model ix={:04x} de={:04x} c={} w={:?}",
                        crate::vcore::hex(b), r, rom.ix, rom.de, rom.carry, rom.writes, exp.ix, exp.de, exp.carry, final_writes
                    );
                    ok.store(false, std::sync::atomic::Ordering::Relaxed);
                }
            }
            None => {
                eprintln!("MACHINERY: the ROM never returned on the ideal waveform: block {} request {:?}", crate::vcore::hex(b), r);
                ok.store(false, std::sync::atomic::Ordering::Relaxed);
            }
        }
    });
    ctx.note("refldbytes_validated_against_rom_cases", json!(n));
    ok.load(std::sync::atomic::Ordering::Relaxed)
}

// ---------------------------------------------------------------- alphabets

fn block_of(len: usize, flag: u8, good: bool) -> Vec<u8> {
    // len = total bytes in the block (flag + data + checksum); position-coded data
    if len == 0 {
        return vec![];
    }
    if len == 1 {
        return vec![flag];
    }
    let payload: Vec<u8> = (0..len - 2).map(|i| ((i * 7 + 3) ^ (i >> 5)) as u8).collect();
    let mut b = std_block(flag, &payload);
    if !good {
        let l = b.len() - 1;
        b[l] ^= 0x81;
    }
    b
}

fn build_cases(quick: bool) -> Vec<Case> {
    let lens: Vec<usize> = if quick { vec![1, 2, 3, 19, 129, 130, 131, 258] } else { vec![1, 2, 3, 4, 5, 19, 127, 128, 129, 130, 131, 132, 255, 256, 257, 258, 259, 260, 302] };
    let sentinel = std_block(0xFF, &[0xC3, 0x3C]);
    let mut v = Vec::new();
    for m128 in [false, true] {
        for &len in lens.iter() {
            for flag in [0x00u8, 0xFF, 0x55] {
                if quick && m128 && flag == 0x55 {
                    continue;
                }
                for good in [true, false] {
                    let b = block_of(len, flag, good);
                    let dlen = len.saturating_sub(2) as u16;
                    let mut des: Vec<u16> = vec![0, 1, dlen.wrapping_sub(1), dlen, dlen + 1, dlen + 2, 0xFF00 | (dlen & 0xFF)];
                    des.sort();
                    des.dedup();
                    for a in [0x00u8, 0xFF, 0x55] {
                        for &de in des.iter() {
                            // quick: the wrap over the top of memory only with the short blocks
                            let ixs: &[u16] = if !quick { &[0x9000, 0x3FFE, 0xFFFE, 0x5AFF] } else if len <= 19 { &[0x9000, 0x3FFE, 0xFFFE] } else { &[0x9000, 0x3FFE] };
                            for &ix in ixs {
                                // LOAD
                                v.push(Case {
                                    m128,
                                    blocks: vec![b.clone(), sentinel.clone()],
                                    requests: vec![LdRequest { a, load: true, ix, de }, LdRequest { a: 0xFF, load: true, ix: 0xA000, de: 2 }],
                                    pokes: vec![],
                                    tail: vec![],
                                });
                                // VERIFY against equal memory and memory differing at first / middle / last byte
                                let data: Vec<u8> = if b.len() > 1 { b[1..].to_vec() } else { vec![] };
                                let variants: Vec<Option<usize>> = if data.is_empty() { vec![None] } else { vec![None, Some(0), Some(data.len() / 2), Some(data.len() - 1)] };
                                for var in variants {
                                    if quick && matches!(var, Some(k) if k != 0 && k != data.len() - 1) {
                                        continue;
                                    }
                                    let mut img = data.clone();
                                    if let Some(k) = var {
                                        img[k] ^= 0x40;
                                    }
                                    if ix == 0xFFFE && img.len() > 2 {
                                        img.truncate(2);
                                    }
                                    v.push(Case {
                                        m128,
                                        blocks: vec![b.clone(), sentinel.clone()],
                                        requests: vec![LdRequest { a, load: false, ix, de }, LdRequest { a: 0xFF, load: true, ix: 0xA000, de: 2 }],
                                        pokes: if ix >= 0x4000 { vec![(ix, img)] } else { vec![] },
                                        tail: vec![],
                                    });
                                }
                            }
                        }
                    }
                }
            }
        }
        // sequences incl. past the end
        let b1 = block_of(19, 0x00, true);
        let b2 = block_of(130, 0xFF, true);
        let b3 = block_of(3, 0xFF, false);
        let reqs = |n: usize| -> Vec<LdRequest> {
            let all = vec![
                LdRequest { a: 0x00, load: true, ix: 0x9000, de: 17 },
                LdRequest { a: 0xFF, load: true, ix: 0x9100, de: 128 },
                LdRequest { a: 0xFF, load: false, ix: 0x9200, de: 1 },
                LdRequest { a: 0xFF, load: true, ix: 0x9300, de: 10 },
                LdRequest { a: 0x00, load: false, ix: 0x9400, de: 0 },
            ];
            all[..n].to_vec()
        };
        v.push(Case { m128, blocks: vec![b1.clone(), b2.clone(), b3.clone()], requests: reqs(4), pokes: vec![], tail: vec![] });
        v.push(Case { m128, blocks: vec![b1.clone(), b2.clone()], requests: reqs(4), pokes: vec![], tail: vec![] });
        v.push(Case { m128, blocks: vec![b1.clone()], requests: reqs(2), pokes: vec![], tail: vec![] });
        v.push(Case { m128, blocks: vec![], requests: reqs(1), pokes: vec![], tail: vec![] });
        v.push(Case { m128, blocks: vec![], requests: vec![LdRequest { a: 0xFF, load: false, ix: 0x9000, de: 5 }], pokes: vec![], tail: vec![] });
        // short blocks after a block longer than the 128-byte read buffer
        let long = block_of(302, 0xFF, true);
        let short1 = block_of(12, 0xFF, true);
        let long2 = block_of(204, 0xFF, true);
        let short2 = block_of(5, 0xFF, true);
        v.push(Case {
            m128,
            blocks: vec![long.clone(), short1.clone(), long2.clone(), short2.clone()],
            requests: vec![
                LdRequest { a: 0xFF, load: true, ix: 0x9000, de: 300 },
                LdRequest { a: 0xFF, load: true, ix: 0x9200, de: 10 },
                LdRequest { a: 0xFF, load: true, ix: 0x9300, de: 202 },
                LdRequest { a: 0xFF, load: true, ix: 0x9500, de: 3 },
            ],
            pokes: vec![],
            tail: vec![],
        });
        // a stray byte after the last block is not a block: the tape is over after b1 (the second
        // request waits like on a silent tape), whatever the byte is
        for stray in [vec![0x00u8], vec![0x13], vec![0xFF]] {
            v.push(Case { m128, blocks: vec![b1.clone()], requests: reqs(2), pokes: vec![], tail: stray.clone() });
            v.push(Case { m128, blocks: vec![], requests: reqs(1), pokes: vec![], tail: stray });
        }
        // wrong flag first, then retry: the mismatching block is consumed
        v.push(Case { m128, blocks: vec![b1.clone(), b2.clone()], requests: vec![LdRequest { a: 0xFF, load: true, ix: 0x9000, de: 17 }, LdRequest { a: 0xFF, load: true, ix: 0x9100, de: 128 }, LdRequest { a: 0xFF, load: true, ix: 0x9100, de: 128 }], pokes: vec![], tail: vec![] });
    }
    v
}

// ---------------------------------------------------------------- C11 system level

/// Real ROM loader in real time (tape playing, fast load off) must give the same memory, IX, DE
/// and carry as fast loading and as RefLdBytes.
pub fn realtime_case(ctx: &Ctx, c: &Case, verbose: bool) -> u64 {
    let mut e = machine(c.m128, false);
    for (a, b) in c.pokes.iter() {
        rig::poke(&mut e, *a, b);
    }
    if e.load_tape(Tape::Tap(VAsset::new(image_of(c)))).is_err() {
        return 0;
    }
    e.play_tape();
    let mut digest = 0u64;
    for (k, req) in c.requests.iter().enumerate() {
        if k >= c.blocks.len() {
            break;
        }
        issue_request(&mut e, req);
        let before = ram_image(&e);
        // a header block takes 8063*2168 T = 5 s; allow 12 s of emulated time
        let returned = run_to_ret(&mut e, 600);
        let v = rig::regs_view(e.verif_cpu());
        let after = ram_image(&e);
        let exp = ref_ld_bytes(&c.blocks[k], req, &|a| before[a as usize]);
        let carry = v.af & 1 != 0;
        if verbose {
            println!("  realtime request #{}: returned={} ix={:04x} de={:04x} carry={} | expected ix={:04x} de={:04x} carry={}", k, returned, v.ix, v.de, carry, exp.ix, exp.de, exp.carry);
        }
        let mut want = before.clone();
        for (a, b) in exp.writes.iter() {
            want[*a as usize] = *b;
        }
        let mem_ok = (0x4000..65536usize).all(|a| after[a] == want[a] || near_stack(a));
        if !returned || carry != exp.carry || v.ix != exp.ix || v.de != exp.de || !mem_ok {
            ctx.violation(
                &format!("C11:realtime-load:{}", if !returned { "no-return" } else if carry != exp.carry { "carry" } else if !mem_ok { "memory" } else { "ix-de" }),
                &format!(
                    "ROM loader in real time, request #{} (A={:02x} {} IX={:04x} DE={:04x}) on block of {} bytes: returned={} IX={:04x} DE={:04x} carry={}; fast load / ROM semantics give IX={:04x} DE={:04x} carry={}",
                    k, req.a, if req.load { "LOAD" } else { "VERIFY" }, req.ix, req.de, c.blocks[k].len(), returned, v.ix, v.de, carry, exp.ix, exp.de, exp.carry
                ),
                case_json(c, "realtime"),
            );
            return 0;
        }
        digest = crate::vcore::fnv_mix(digest, (v.ix as u64) << 24 | (v.de as u64) << 8 | carry as u64);
    }
    digest
}

/// Both loading paths on ONE tape: a fast-load request gives up inside a block (wrong flag byte,
/// deck stopped, fast load on), then the deck is started and the NEXT block is loaded by the ROM in
/// real time. Each path must leave the tape where the other expects it: the second request gets
/// exactly the second block. First-block lengths on both sides of the 128-byte read window.
pub fn fast_then_realtime(ctx: &Ctx) {
    for m128 in [false, true] {
        for len1 in [100usize, 129, 300] {
            let b1 = block_of(len1, 0xFF, true);
            let b2 = std_block(0xFF, &[0xDE, 0xAD, 0xBE, 0xEF]);
            let c = Case {
                m128,
                blocks: vec![b1.clone(), b2.clone()],
                requests: vec![LdRequest { a: 0x00, load: true, ix: 0x9000, de: 17 }, LdRequest { a: 0xFF, load: true, ix: 0xA000, de: 4 }],
                pokes: vec![],
                tail: vec![],
            };
            let mut e = machine(m128, true);
            if e.load_tape(Tape::Tap(VAsset::new(image_of(&c)))).is_err() {
                continue;
            }
            // request 1: served by the fast loader (deck stopped), rejected on the flag byte
            issue_request(&mut e, &c.requests[0]);
            let before1 = ram_image(&e);
            let ret1 = run_to_ret(&mut e, 12);
            let exp1 = ref_ld_bytes(&b1, &c.requests[0], &|a| before1[a as usize]);
            let v1 = rig::regs_view(e.verif_cpu());
            ctx.add_eval(1);
            if !ret1 || (v1.af & 1 != 0) != exp1.carry {
                ctx.violation("C10:fast-then-realtime:first-request", &format!("first (fast) request on a block of {} bytes: returned={} carry={} expected carry={}", len1, ret1, v1.af & 1, exp1.carry), case_json(&c, "fast-then-realtime"));
                continue;
            }
            // request 2: deck running -> the ROM loads in real time
            e.play_tape();
            issue_request(&mut e, &c.requests[1]);
            let before = ram_image(&e);
            let returned = run_to_ret(&mut e, 700);
            let v = rig::regs_view(e.verif_cpu());
            let after = ram_image(&e);
            let exp = ref_ld_bytes(&b2, &c.requests[1], &|a| before[a as usize]);
            let mut want = before.clone();
            for (a, b) in exp.writes.iter() {
                want[*a as usize] = *b;
            }
            let carry = v.af & 1 != 0;
            let mem_ok = (0x4000..65536usize).all(|a| after[a] == want[a] || near_stack(a));
            if !returned || carry != exp.carry || v.ix != exp.ix || v.de != exp.de || !mem_ok {
                ctx.violation(
                    &format!("C10:fast-then-realtime:{}", if !returned { "no-return" } else if carry != exp.carry { "carry" } else if !mem_ok { "memory" } else { "ix-de" }),
                    &format!(
                        "{} machine: a fast-load request gave up inside a block of {} bytes, then the deck was started and the next block (4 data bytes) requested from the ROM loader in real time: returned={} IX={:04x} DE={:04x} carry={}; the second block gives IX={:04x} DE={:04x} carry={}",
                        if m128 { "128K" } else { "48K" }, len1, returned, v.ix, v.de, carry, exp.ix, exp.de, exp.carry
                    ),
                    case_json(&c, "fast-then-realtime"),
                );
            }
            ctx.outcome(0xFA57 ^ (len1 as u64) << 1 ^ m128 as u64);
        }
    }
}

pub fn realtime_vs_fast(ctx: &Ctx) {
    let quick = !ctx.thorough();
    let mut cases: Vec<Case> = Vec::new();
    let lens: &[usize] = if quick { &[3, 131] } else { &[1, 2, 3, 19, 130, 131, 258] };
    for m128 in [false, true] {
        for &len in lens {
            for (flag, good) in [(0xFFu8, true), (0xFF, false), (0x00, true)] {
                if quick && (flag == 0 || (m128 && !good)) {
                    continue;
                }
                let b = block_of(len, flag, good);
                let dlen = len.saturating_sub(2) as u16;
                let b2 = block_of(4, 0xFF, true);
                for (a, load, de) in [(flag, true, dlen), (flag, true, dlen + 1), (flag ^ 1, true, dlen), (flag, false, dlen), (flag, true, dlen.saturating_sub(1))] {
                    if quick && !(load && de == dlen) && len != 3 {
                        continue;
                    }
                    let data: Vec<u8> = if b.len() > 2 { b[1..b.len() - 1].to_vec() } else { vec![] };
                    cases.push(Case {
                        m128,
                        blocks: vec![b.clone(), b2.clone()],
                        requests: vec![LdRequest { a, load, ix: 0x9000, de }, LdRequest { a: 0xFF, load: true, ix: 0x6000, de: 2 }],
                        pokes: if load { vec![] } else { vec![(0x9000, data)] },
                        tail: vec![],
                    });
                }
            }
        }
    }
    for m128 in [false, true] {
        // a short block after a block longer than the 128-byte read buffer, played straight through
        let long = block_of(140, 0xFF, true);
        let short = block_of(6, 0xFF, true);
        cases.push(Case {
            m128,
            blocks: vec![long, short],
            requests: vec![LdRequest { a: 0xFF, load: true, ix: 0x9000, de: 138 }, LdRequest { a: 0xFF, load: true, ix: 0x9200, de: 4 }],
            pokes: vec![],
            tail: vec![],
        });
    }
    let n = cases.len();
    par_for(n, 1, |i| {
        let d = ctx.guard("real-time load", case_json(&cases[i], "realtime"), || realtime_case(ctx, &cases[i], false)).unwrap_or(0);
        let f = ctx.guard("fast load", case_json(&cases[i], "realtime"), || run_fast_case(ctx, &cases[i], false)).unwrap_or(0);
        if d != 0 && f != 0 && d != f {
            ctx.violation("C11:realtime-vs-fast:differ", "real-time load and fast load of the same requests give different IX/DE/carry", case_json(&cases[i], "realtime"));
        }
        ctx.outcome(d);
        ctx.add_traces(1);
    });
    ctx.note("realtime_rom_loads", json!(n));
}

pub fn replay_realtime(ctx: &Ctx, case: &serde_json::Value) -> i32 {
    let c = case_from_json(case);
    realtime_case(ctx, &c, true);
    let n = ctx.violation_classes();
    println!("replay: {} violation class(es) reproduced", n);
    (n > 0) as i32
}

pub fn run(tier: Tier, seed: u64, replay: Option<String>) -> i32 {
    let ctx = Ctx::new("C10", tier, seed, "model_checking");
    if let Some(path) = replay {
        let v: serde_json::Value = serde_json::from_slice(&rig::read_file(&path)).expect("replay json");
        if v["case"]["kind"] == "fast-then-realtime" {
            fast_then_realtime(&ctx);
            let n = ctx.violation_classes();
            println!("replay: {} violation class(es) reproduced", n);
            return (n > 0) as i32;
        }
        if v["case"]["kind"] == "load-over-stack" {
            load_over_stack(&ctx);
            let n = ctx.violation_classes();
            println!("replay: {} violation class(es) reproduced", n);
            return (n > 0) as i32;
        }
        let c = case_from_json(&v["case"]);
        println!("replay: {:?}", c);
        run_fast_case(&ctx, &c, true);
        let n = ctx.violation_classes();
        println!("replay: {} violation class(es) reproduced", n);
        return (n > 0) as i32;
    }
    if let Err(e) = crate::oracle::require_valid() {
        eprintln!("MACHINERY: reference model not validated: {}", e);
        return 2;
    }
    let quick = !tier.is_thorough();
    if !validate_ref_ld_bytes(&ctx, quick) {
        eprintln!("MACHINERY: RefLdBytes is not the ROM's behaviour; refusing to judge");
        return 2;
    }
    let cases = build_cases(quick);
    let n = cases.len();
    par_for(n, 4, |i| {
        let d = ctx.guard("fast-load case", case_json(&cases[i], "fast"), || run_fast_case(&ctx, &cases[i], false)).unwrap_or(0);
        ctx.outcome(d);
        ctx.add_eval(1);
        ctx.add_transitions(cases[i].requests.len() as u64);
        ctx.add_traces(1);
    });
    ctx.add_states(n as u64);
    load_over_stack(&ctx);
    fast_then_realtime(&ctx);
    ctx.sample(json!(case_json(&cases[n / 3], "fast")));
    ctx.note("cases", json!(n));
    ctx.note("not_judged", json!("bytes in the 24 bytes below the caller's stack pointer (ROM call frames); TAP files truncated inside a block (C15)"));
    ctx.finish(
        "tapes: block lengths around the 128-byte buffer boundaries x flag {00,FF,55} x checksum right/wrong, followed by a sentinel block; requests: A {00,FF,55} x LOAD/VERIFY x DE {0,1,n-1,n,n+1,n+2,FFxx (flag test skipped)} x IX {RAM, ROM/RAM edge, (thorough) wrap, screen}, VERIFY against equal memory and memory differing at the first/middle/last byte; request sequences of up to 4 incl. past the end of the tape and on an empty tape; loads over the loader's own stack frame (exit word, return address) with the exit PC/SP taken from the genuine ROM on RefZ80; a fast request that gives up inside a block followed by a real-time load of the next block; both machines. Each request is issued to the real ROM entry 0556h on the real Emulator with fast loading and compared (all 64K of memory, IX, DE, carry) with RefLdBytes, which is validated every run against the genuine ROM executed on RefZ80 against the ideal waveform. states = cases, transitions = requests",
        true,
        &["RefLdBytes validated against the 48K ROM on RefZ80 + ideal waveform", "the second request of every case loads a sentinel block, which checks that exactly one block was consumed"],
    )
}
