//! C10 — not built yet
use crate::vcore::Tier;

pub fn run(_tier: Tier, _seed: u64, _replay: Option<String>) -> i32 {
    eprintln!("MACHINERY: check C10 is not built yet");
    2
}

/// System level of C11 (real-time ROM load vs fast load); filled in with the C10 machinery.
pub fn realtime_vs_fast(_ctx: &crate::vcore::Ctx) {}

pub fn replay_realtime(_ctx: &crate::vcore::Ctx, _case: &serde_json::Value) -> i32 {
    2
}
