//! C12 — not built yet
use crate::vcore::Tier;

pub fn run(_tier: Tier, _seed: u64, _replay: Option<String>) -> i32 {
    eprintln!("MACHINERY: check C12 is not built yet");
    2
}
