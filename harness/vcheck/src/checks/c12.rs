//! C12 — play / stop / rewind behave like a cassette deck for every command history.
//!
//! Explicit-state BFS over (real Tap, RefDeck) with a refinement mapping checked after every
//! action: while playing, the real tape state (every field except `prev_state`, which
//! `process_clocks` never reads) must equal the state of the uninterrupted tape (the C11 chain)
//! at RefDeck's position; while stopped, time must change nothing at all. Commands are tried at
//! EVERY T-state position inside the listed windows of the waveform; between windows the deck is
//! fast-forwarded deterministically.

use crate::rig::{self, AssetData};
use crate::tapemodel::*;
use crate::vcore::{Ctx, Tier};
use rustzx_core::verif::TapeImpl;
use serde_json::json;
use std::collections::{BTreeMap, HashSet, VecDeque};

static PROBES: std::sync::atomic::AtomicU64 = std::sync::atomic::AtomicU64::new(0);
const PROBE_CAP: u64 = 48;

#[derive(Clone, Copy, Debug, PartialEq, Eq, Hash)]
enum Pos {
    /// nothing consumed yet: the next clock starts the first block
    Start,
    /// after reload `seg`, `delay` T of the current pulse still pending
    At { seg: usize, delay: usize },
}

#[derive(Clone, Copy, Debug, PartialEq, Eq, Hash)]
struct Deck {
    playing: bool,
    /// current position when playing, resume position when stopped
    pos: Pos,
}

#[derive(Clone, Copy, Debug, PartialEq, Eq, Hash)]
enum Act {
    Adv1,
    FastForward,
    AdvStopped,
    Stop,
    Play,
    Rewind,
}

#[derive(Clone)]
struct Node {
    tap: RTap,
    deck: Deck,
    budget: u8,
    /// commands issued so far with the position class they were issued at
    trace: Vec<(Act, String)>,
}

struct Model<'a> {
    chain: &'a Chain,
    /// per segment: (delay_lo, delay_hi) of positions inside a command window
    windows: BTreeMap<usize, (usize, usize)>,
    name: String,
    blocks_json: serde_json::Value,
    blocks: Vec<Vec<u8>>,
    /// T-states within which a tape played from its start is certainly over
    horizon: u64,
}

impl<'a> Model<'a> {
    fn last_seg(&self) -> usize {
        self.chain.reloads.len() - 1
    }

    fn in_window(&self, p: Pos) -> bool {
        match p {
            Pos::Start => true,
            Pos::At { seg, delay } => match self.windows.get(&seg) {
                Some((lo, hi)) => delay >= *lo && delay <= *hi,
                None => false,
            },
        }
    }

    /// RefDeck: advance a playing deck by `s` T. Returns false when the tape ran out (deck stops).
    fn advance(&self, d: &mut Deck, s: usize) {
        match d.pos {
            Pos::Start => {
                // first clock call: reload 0
                if self.last_seg() == 0 {
                    d.playing = false;
                    d.pos = Pos::Start;
                } else {
                    d.pos = Pos::At { seg: 0, delay: self.chain.reloads[0].delay };
                }
            }
            Pos::At { seg, delay } => {
                if delay > 0 {
                    d.pos = Pos::At { seg, delay: delay.saturating_sub(s) };
                } else if seg + 1 >= self.last_seg() {
                    // the reload after the last pause finds no block: the deck stops, position = start
                    d.playing = false;
                    d.pos = Pos::Start;
                } else {
                    d.pos = Pos::At { seg: seg + 1, delay: self.chain.reloads[seg + 1].delay };
                }
            }
        }
    }

    fn expected_key(&self, seg: usize, delay: usize) -> TapKey {
        let mut k = tap_key_noprev(&self.chain.reloads[seg].entry);
        k.st.delay = delay;
        k
    }

    fn pos_class(&self, p: Pos) -> String {
        match p {
            Pos::Start => "start".into(),
            Pos::At { seg, .. } => {
                let tag = self.chain.reloads[seg].entry.verif_state().state.0;
                match tag {
                    1 => "pause".into(), // state Play with the pause delay pending
                    2 => "pilot".into(),
                    3 => "sync1".into(),
                    5 => {
                        // NextBit pending: we are in sync2 (first) or second half of a bit
                        "sync2-or-bit-second-half".into()
                    }
                    6 => "bit-first-half".into(),
                    4 => "last-bit-of-byte-second-half".into(),
                    7 => "pause".into(),
                    _ => format!("tag{}", tag),
                }
            }
        }
    }
}

fn trace_str(t: &[(Act, String)]) -> String {
    t.iter()
        .map(|(a, c)| format!("{}@{}", match a {
            Act::Stop => "stop",
            Act::Play => "play",
            Act::Rewind => "rewind",
            _ => "?",
        }, c))
        .collect::<Vec<_>>()
        .join(".")
}

fn trace_cmds(t: &[(Act, String)]) -> String {
    t.iter()
        .map(|(a, _)| match a {
            Act::Stop => "stop",
            Act::Play => "play",
            Act::Rewind => "rewind",
            _ => "?",
        })
        .collect::<Vec<_>>()
        .join(".")
}

/// Check the refinement mapping of a node; returns false (and reports) when broken.
fn check_mapping(ctx: &Ctx, m: &Model, n: &Node, what: &str, hist: &serde_json::Value) -> bool {
    let st = n.tap.verif_state();
    if n.deck.playing {
        match n.deck.pos {
            Pos::Start => {
                // behavioural: the very next clock must start block 1 exactly like a fresh tape
                let mut c = n.tap.clone();
                let bit0 = c.current_bit();
                let r = c.process_clocks(0);
                let fresh = &m.chain.reloads[0];
                let ok = r.is_ok()
                    && tap_key_noprev(&c) == tap_key_noprev(&fresh.entry)
                    && (c.current_bit() != bit0) == fresh.flipped;
                if !ok {
                    ctx.violation(
                        &format!("C12:{}:not-at-start:{}", what, trace_cmds(&n.trace)),
                        &format!(
                            "tape {}: after [{}] the deck should play the whole tape from its first block with a clean pilot, but the next clock gives state {:?} (fresh tape: {:?})",
                            m.name, trace_str(&n.trace), c.verif_state().state, fresh.entry.verif_state().state
                        ),
                        hist.clone(),
                    );
                    return false;
                }
            }
            Pos::At { seg, delay } => {
                if tap_key_noprev(&n.tap) != m.expected_key(seg, delay) {
                    let e = m.expected_key(seg, delay);
                    ctx.violation(
                        &format!("C12:{}:position-lost:{}", what, trace_cmds(&n.trace)),
                        &format!(
                            "tape {}: after [{}] the tape is not where the uninterrupted tape would be: state {:?} delay {} bit {} block_read {} asset_pos {} — expected state {:?} delay {} bit {} block_read {} asset_pos {}",
                            m.name, trace_str(&n.trace), st.state, st.delay, st.curr_bit, st.block_bytes_read, n.tap.verif_asset().pos,
                            e.st.state, e.st.delay, e.st.curr_bit, e.st.block_bytes_read, e.asset_pos
                        ),
                        hist.clone(),
                    );
                    return false;
                }
            }
        }
    } else if st.state.0 != TAG_STOP {
        ctx.violation(
            &format!("C12:{}:deck-not-stopped:{}", what, trace_cmds(&n.trace)),
            &format!("tape {}: after [{}] the deck should be stopped but is in state {:?}", m.name, trace_str(&n.trace), st.state),
            hist.clone(),
        );
        return false;
    }
    true
}

/// What a playing tape sounds like from now until it stops by itself (or `horizon` T pass): pulse
/// durations between EAR edges in steps of 16 T, closed by an open-ended silence.
fn listen(t: &RTap, horizon: u64) -> (Vec<u64>, bool) {
    let mut c = t.clone();
    let mut level = c.current_bit();
    let mut pulses = Vec::new();
    let (mut now, mut last) = (0u64, 0u64);
    let mut ended = false;
    while now < horizon {
        if c.process_clocks(16).is_err() {
            break;
        }
        now += 16;
        if c.current_bit() != level {
            level = c.current_bit();
            pulses.push(now - last);
            last = now;
        }
        if c.verif_state().state.0 == TAG_STOP {
            ended = true;
            break;
        }
    }
    pulses.push(now - last + 2 * SECOND);
    (pulses, ended)
}

fn hist_json(m: &Model, n: &Node, act: Act) -> serde_json::Value {
    json!({"kind":"deck","tape":m.name,"blocks":m.blocks_json,
        "commands": trace_str(&n.trace), "next_action": format!("{:?}", act),
        "deck": format!("{:?}", n.deck), "budget": n.budget})
}

fn actions(m: &Model, n: &Node) -> Vec<Act> {
    let mut v = Vec::new();
    if n.deck.playing {
        if m.in_window(n.deck.pos) {
            v.push(Act::Adv1);
            if n.budget > 0 {
                v.push(Act::Stop);
                v.push(Act::Play);
                v.push(Act::Rewind);
            }
        } else if n.budget > 0 {
            // with no command left nothing can read prev_state any more: the future is the
            // uninterrupted tape's, which C11 covers
            v.push(Act::FastForward);
        }
    } else {
        v.push(Act::AdvStopped);
        if n.budget > 0 {
            v.push(Act::Play);
            v.push(Act::Stop);
            v.push(Act::Rewind);
        }
    }
    v
}

fn apply(ctx: &Ctx, m: &Model, n: &Node, act: Act) -> Option<Node> {
    let mut x = n.clone();
    let hist = hist_json(m, n, act);
    let before_full = tap_key(&n.tap);
    match act {
        Act::Adv1 => {
            if x.tap.process_clocks(1).is_err() {
                ctx.violation("C12:process_clocks-error", "process_clocks failed", hist);
                return None;
            }
            m.advance(&mut x.deck, 1);
            if !check_mapping(ctx, m, &x, "advance", &hist) {
                return None;
            }
        }
        Act::FastForward => {
            let mut guard = 0u64;
            loop {
                let step = match x.deck.pos {
                    Pos::At { seg, delay } => match m.windows.get(&seg) {
                        Some((_, hi)) if delay > *hi => (delay - *hi).min(16),
                        _ => 16,
                    },
                    Pos::Start => 16,
                };
                let was_reload = matches!(x.deck.pos, Pos::At { delay: 0, .. } | Pos::Start);
                if x.tap.process_clocks(step).is_err() {
                    ctx.violation("C12:process_clocks-error", "process_clocks failed", hist);
                    return None;
                }
                m.advance(&mut x.deck, step);
                if was_reload && !check_mapping(ctx, m, &x, "advance", &hist) {
                    return None;
                }
                guard += 1;
                if !x.deck.playing || m.in_window(x.deck.pos) {
                    break;
                }
                if guard > 50_000_000 {
                    eprintln!("MACHINERY: fast-forward did not terminate");
                    std::process::exit(2);
                }
            }
            ctx.add_transitions(guard);
            if !check_mapping(ctx, m, &x, "advance", &hist) {
                return None;
            }
        }
        Act::AdvStopped => {
            if x.tap.process_clocks(16).is_err() {
                ctx.violation("C12:process_clocks-error", "process_clocks failed", hist);
                return None;
            }
            if tap_key(&x.tap) != before_full {
                ctx.violation(
                    &format!("C12:stopped-not-frozen:{}", trace_cmds(&n.trace)),
                    &format!("tape {}: while stopped after [{}], 16 T of emulated time changed the tape state / EAR level", m.name, trace_str(&n.trace)),
                    hist,
                );
                return None;
            }
        }
        Act::Stop => {
            x.budget -= 1;
            x.trace.push((Act::Stop, m.pos_class(n.deck.pos) + if n.deck.playing { "" } else { "(stopped)" }));
            let bit0 = x.tap.current_bit();
            x.tap.stop();
            x.deck.playing = false;
            let hist = hist_json(m, &x, act);
            if x.tap.current_bit() != bit0 || x.tap.verif_asset().pos != before_full.asset_pos {
                ctx.violation(
                    &format!("C12:stop-disturbs-tape:{}", trace_cmds(&x.trace)),
                    &format!("tape {}: stop changed the EAR level or consumed tape after [{}]", m.name, trace_str(&x.trace)),
                    hist,
                );
                return None;
            }
            if !check_mapping(ctx, m, &x, "stop", &hist) {
                return None;
            }
        }
        Act::Play => {
            x.budget -= 1;
            x.trace.push((Act::Play, m.pos_class(n.deck.pos) + if n.deck.playing { "(playing)" } else { "" }));
            x.tap.play();
            let hist = hist_json(m, &x, act);
            if n.deck.playing {
                if tap_key(&x.tap) != before_full {
                    ctx.violation(
                        &format!("C12:redundant-play-disturbs:{}", trace_cmds(&x.trace)),
                        &format!("tape {}: play while already playing changed the tape state after [{}]", m.name, trace_str(&x.trace)),
                        hist,
                    );
                    return None;
                }
            } else {
                x.deck.playing = true;
                if !check_mapping(ctx, m, &x, "resume", &hist) {
                    return None;
                }
            }
        }
        Act::Rewind => {
            x.budget -= 1;
            x.trace.push((Act::Rewind, m.pos_class(n.deck.pos) + if n.deck.playing { "(playing)" } else { "" }));
            if x.tap.rewind().is_err() {
                ctx.violation("C12:rewind-error", "rewind failed on an in-memory asset", hist);
                return None;
            }
            x.deck.pos = Pos::Start;
            let hist = hist_json(m, &x, act);
            if n.deck.playing {
                // rewind with the deck running: the deck keeps running and what it plays from here on
                // must be the whole tape from its first block and nothing else. If the tape is exactly
                // a fresh playing tape the search goes on from there; any other state is judged by
                // what it sounds like to the end of the tape (the first edge must come within one
                // pilot pulse, no material of the interrupted block or pause may be played) and the search stops there.
                let mut fresh = new_tap(&m.chain.image);
                fresh.play();
                if tap_key_noprev(&x.tap) != tap_key_noprev(&fresh) {
                    // cheap part first, for every such state: "returns the position to the start" — a
                    // running deck must reach the first pilot edge no later than one pilot pulse
                    // from now (a fresh playing tape flips at once); the rest of an interrupted pause
                    // or pulse is not the start
                    {
                        let (head, _) = listen(&x.tap, PILOT + TOL + 32);
                        if head.len() < 2 {
                            ctx.violation(
                                &format!("C12:rewind-while-playing:{}:silence-before-the-first-block", m.pos_class(n.deck.pos)),
                                &format!("tape {}: after [{}] (rewind issued while the deck is playing) no edge follows within one pilot pulse ({} T): the deck is not at the start of the tape but still inside the interrupted pause or pulse (state {:?}, {} T pending)", m.name, trace_str(&x.trace), PILOT + TOL + 32, x.tap.verif_state().state, x.tap.verif_state().delay),
                                hist,
                            );
                            return None;
                        }
                    }
                    // listening to a whole tape costs millions of steps: the first PROBE_CAP such states
                    // are judged, the rest is counted (on a tree where rewind restarts cleanly there are none)
                    if PROBES.fetch_add(1, std::sync::atomic::Ordering::Relaxed) >= PROBE_CAP {
                        ctx.note_add("rewind_while_playing_states_beyond_probe_cap", 1);
                        return None;
                    }
                    ctx.note_add("rewind_while_playing_probes", 1);
                    let (pulses, ended) = listen(&x.tap, m.horizon);
                    let d = decode(&pulses, false);
                    let verdict = match &d {
                        _ if !ended => Some("tape-never-ends".to_string()),
                        Ok(d) if d.blocks != m.blocks => Some(format!("decodes-to-{}-blocks-instead-of-{}", d.blocks.len(), m.blocks.len())),
                        Ok(d) if !d.blocks.iter().zip(d.pilot_counts.iter()).all(|(b, c)| pilot_ok(b[0], *c)) => Some("short-pilot".to_string()),
                        Ok(_) => None,
                        Err(_) => Some("undecodable".to_string()),
                    };
                    if let Some(v) = verdict {
                        ctx.violation(
                            &format!("C12:rewind-while-playing:{}:{}", m.pos_class(n.deck.pos), v.split("-instead").next().unwrap_or("")),
                            &format!(
                                "tape {}: after [{}] (rewind issued while the deck is playing) the deck goes on playing, but what it plays until the tape ends is not the tape's blocks from the first one: {} (decoded blocks {:?}, pilot pulses {:?}; tape blocks {:?})",
                                m.name, trace_str(&x.trace), v,
                                d.as_ref().map(|d| d.blocks.iter().map(|b| crate::vcore::hex(b)).collect::<Vec<_>>()).unwrap_or_default(),
                                d.as_ref().map(|d| d.pilot_counts.clone()).unwrap_or_default(),
                                m.blocks.iter().map(|b| crate::vcore::hex(b)).collect::<Vec<_>>()
                            ),
                            hist,
                        );
                    }
                    return None;
                }
            }
            if !check_mapping(ctx, m, &x, "rewind", &hist) {
                return None;
            }
        }
    }
    Some(x)
}

fn build_windows(chain: &Chain, quick: bool) -> BTreeMap<usize, (usize, usize)> {
    let mut w: BTreeMap<usize, (usize, usize)> = BTreeMap::new();
    let n = chain.reloads.len();
    let tag = |k: usize| chain.reloads[k].entry.verif_state().state.0;
    let span = if quick { 40 } else { 3000 };
    let mut add_full = |k: usize, w: &mut BTreeMap<usize, (usize, usize)>| {
        if k < n - 1 {
            let d = chain.reloads[k].delay;
            if quick && d > 2 * span {
                // head and tail of the pulse are different windows; keep the head, add the tail below
                w.insert(k, (d - span, d));
            } else {
                w.insert(k, (0, d));
            }
        }
    };
    // first two pilot pulses of the tape
    add_full(0, &mut w);
    add_full(1, &mut w);
    // every block: last pilot -> sync -> first bits; first data byte; last bit -> pause head; pause tail -> next pilot
    for k in 0..n - 1 {
        let t = tag(k);
        // entry state Sync (tag 3) means: this segment is the sync1 pulse; k-1 is the last pilot pulse
        if t == 3 {
            if k >= 1 {
                // tail of the last pilot pulse
                let d = chain.reloads[k - 1].delay;
                w.insert(k - 1, (0, if quick { span.min(d) } else { d }));
            }
            let bytes = if quick { 1 } else { 2 };
            for j in k..(k + 2 + 16 * bytes).min(n - 1) {
                let d = chain.reloads[j].delay;
                if quick && j > k + 3 {
                    // quick: first and last 40 T of each later pulse would need two ranges; take the tail
                    w.insert(j, (0, span.min(d)));
                } else {
                    w.insert(j, (0, d));
                }
            }
        }
        // pause segment: entry state Play (tag 1) with a long delay
        if t == 1 && chain.reloads[k].delay > 1_000_000 {
            let d = chain.reloads[k].delay;
            // last two half-bit pulses before the pause
            for j in k.saturating_sub(2)..k {
                let dj = chain.reloads[j].delay;
                w.insert(j, (0, if quick { span.min(dj) } else { dj }));
            }
            // pause: only one range per segment is supported -> tail of the pause (incl. delay 0);
            // the head of the pause is covered by a second model instance (see run)
            w.insert(k, (0, span.min(d)));
            // first pilot pulse of the next block
            if k + 1 < n - 1 {
                let d1 = chain.reloads[k + 1].delay;
                w.insert(k + 1, (if quick { d1 - span.min(d1) } else { 0 }, d1));
            }
        }
    }
    w
}

fn pause_head_windows(chain: &Chain, quick: bool) -> BTreeMap<usize, (usize, usize)> {
    let mut w = BTreeMap::new();
    let n = chain.reloads.len();
    let span = if quick { 40 } else { 3000 };
    for k in 0..n - 1 {
        let st = chain.reloads[k].entry.verif_state();
        if st.state.0 == 1 && chain.reloads[k].delay > 1_000_000 {
            let d = chain.reloads[k].delay;
            w.insert(k, (d - span, d));
        }
    }
    // a middle-of-pilot window too
    if n > 2000 {
        let d = chain.reloads[1500].delay;
        w.insert(1500, (d.saturating_sub(span), d));
    }
    w
}

fn explore(ctx: &Ctx, m: &Model, budget: u8) {
    let image = m.chain.image.clone();
    let mut t0 = new_tap(&image);
    t0.play();
    let root = Node {
        tap: t0,
        deck: Deck { playing: true, pos: Pos::Start },
        budget,
        trace: vec![],
    };
    // also a root that is stopped from the beginning (never played): stop/rewind/play from cold
    let cold = Node {
        tap: new_tap(&image),
        deck: Deck { playing: false, pos: Pos::Start },
        budget,
        trace: vec![],
    };
    type Key = (TapKey, Deck, u8);
    let keyf = |n: &Node| -> Key { (tap_key(&n.tap), n.deck, n.budget) };
    let mut seen: HashSet<Key> = HashSet::new();
    let mut q: VecDeque<Node> = VecDeque::new();
    for r in [root, cold] {
        seen.insert(keyf(&r));
        q.push_back(r);
    }
    let mut states = 2u64;
    let mut transitions = 0u64;
    let mut outcomes: HashSet<u64> = HashSet::new();
    let mut sampled = 0;
    while let Some(n) = q.pop_front() {
        for a in actions(m, &n) {
            transitions += 1;
            if let Some(x) = apply(ctx, m, &n, a) {
                let k = keyf(&x);
                if seen.insert(k) {
                    states += 1;
                    if matches!(a, Act::Play | Act::Stop | Act::Rewind) {
                        outcomes.insert(crate::vcore::fnv(format!("{:?}{:?}{}", x.tap.verif_state().prev_state, x.deck.playing, trace_cmds(&x.trace)).as_bytes()));
                        if sampled < 4 && x.trace.len() >= 2 {
                            ctx.sample(json!({"tape":m.name,"commands":trace_str(&x.trace),"deck":format!("{:?}", x.deck)}));
                            sampled += 1;
                        }
                    }
                    q.push_back(x);
                }
            }
        }
    }
    ctx.add_states(states);
    ctx.add_transitions(transitions);
    ctx.add_traces(transitions);
    ctx.outcomes_bulk(&outcomes);
}

pub fn check_tape(ctx: &Ctx, name: &str, blocks: &[Vec<u8>], budget: u8, quick: bool) {
    let image = AssetData::Static(Box::leak(tap_image(blocks).into_boxed_slice()));
    let blocks_json = json!(blocks.iter().map(|b| crate::vcore::hex(b)).collect::<Vec<_>>());
    let total_nominal: u64 = blocks.iter().map(|b| 8063 * PILOT + b.len() as u64 * 16 * ONE + 2 * SECOND).sum::<u64>() + SECOND;
    let chain = match build_chain(&image, 16, total_nominal * 2) {
        Ok(c) if c.ended && c.reloads.len() > 4 => c,
        _ => {
            ctx.violation("C12:baseline-tape-does-not-play", &format!("tape {} does not play to its end uninterrupted (see C11)", name), json!({"kind":"deck","tape":name,"blocks":blocks_json}));
            return;
        }
    };
    // the uninterrupted tape must itself decode to the blocks (C11's oracle, re-checked here so
    // the refinement target is known good)
    match decode(&chain.pulses, true) {
        Ok(d) if d.blocks == blocks => {}
        _ => {
            ctx.violation("C12:baseline-tape-does-not-decode", &format!("tape {}: uninterrupted waveform does not decode to the TAP blocks (see C11)", name), json!({"kind":"deck","tape":name,"blocks":blocks_json}));
            return;
        }
    }
    let positions = |w: &BTreeMap<usize, (usize, usize)>| -> u64 { w.values().map(|(lo, hi)| (hi - lo + 1) as u64).sum() };
    for (label, windows) in [("main", build_windows(&chain, quick)), ("pause-head", pause_head_windows(&chain, quick))] {
        let m = Model {
            chain: &chain,
            windows,
            name: format!("{}/{}", name, label),
            blocks_json: blocks_json.clone(),
            blocks: blocks.to_vec(),
            horizon: total_nominal * 2,
        };
        ctx.note_add("command_positions", positions(&m.windows));
        explore(ctx, &m, budget);
    }
}

/// The deck as the host drives it: every history of `depth` host commands from {play_tape,
/// stop_tape, rewind_tape, 30 frames, frames until the deck stops by itself} applied to a whole
/// Emulator (idle CPU, free-running frames) and, in lock step, to a bare Tap advanced by the same
/// amount of emulated time in 16-T steps. After every command both decks must agree on
/// stopped/running, a deck left running must stop by itself after the same number of frames on both
/// (+-3 frames: the drift different clock partitions allow over a whole tape), and so must the final
/// play that follows every history.
pub fn emulator_level_histories(ctx: &Ctx, depth: usize) {
    use crate::rig::{Opts, RegsView};
    #[derive(Clone, Copy, Debug, PartialEq)]
    enum Cmd {
        Play,
        Stop,
        Rewind,
        Run30,
        RunEnd,
    }
    const CMDS: [Cmd; 5] = [Cmd::Play, Cmd::Stop, Cmd::Rewind, Cmd::Run30, Cmd::RunEnd];
    let blocks = vec![std_block(0xFF, &[0xA5]), std_block(0xFF, &[0x3C, 0x81])];
    let image = AssetData::Static(Box::leak(tap_image(&blocks).into_boxed_slice()));
    let mut leaves: Vec<Vec<Cmd>> = vec![vec![]];
    for _ in 0..depth {
        let mut next = Vec::new();
        for h in leaves.iter() {
            for c in CMDS {
                let mut n = h.clone();
                n.push(c);
                next.push(n);
            }
        }
        leaves = next;
    }
    ctx.note("emulator_level_histories", json!(leaves.len()));
    crate::vcore::par_for(leaves.len(), 4, |i| {
        let h = &leaves[i];
        let m128 = i % 2 == 1;
        let mut o = Opts::machine(m128);
        o.sound = false;
        o.fastload = i % 3 == 0;
        let mut e = rig::emu(&o);
        rig::poke(&mut e, 0x9000, &[0xF3, 0x18, 0xFE]);
        let mut r = RegsView::default();
        r.pc = 0x9000;
        r.sp = 0xBF00;
        rig::set_regs(e.verif_cpu(), &r);
        if e.load_tape(rustzx_core::host::Tape::Tap(rig::VAsset::from_data(image.clone()))).is_err() {
            return;
        }
        let mut t = new_tap(&image);
        let frame_t: u64 = if m128 { 70908 } else { 69888 };
        let stopped_e = |e: &rig::Emu| e.verif_tape_state().map(|s| s.state.0 == TAG_STOP).unwrap_or(true);
        let stopped_t = |t: &RTap| t.verif_state().state.0 == TAG_STOP;
        // advance both by up to `frames` frames; returns the frame at which each deck was first seen stopped
        let run = |e: &mut rig::Emu, t: &mut RTap, frames: usize, until_stop: bool| -> (Option<usize>, Option<usize>) {
            let (mut fe, mut ft) = (None, None);
            for k in 0..frames {
                if stopped_e(e) && fe.is_none() {
                    fe = Some(k);
                }
                if stopped_t(t) && ft.is_none() {
                    ft = Some(k);
                }
                if until_stop && fe.is_some() && ft.is_some() {
                    break;
                }
                let _ = e.emulate_frames(std::time::Duration::from_secs(1000));
                let mut left = frame_t;
                while left > 0 {
                    let s = left.min(16);
                    let _ = t.process_clocks(s as usize);
                    left -= s;
                }
            }
            (fe, ft)
        };
        let mut trace = String::new();
        let report = |what: &str, trace: &str, detail: String| {
            ctx.violation(
                &format!("C12:emulator-level:{}", what),
                &format!("host commands [{}] applied to a {} Emulator (idle program) and to a bare Tap over the same emulated time: {}", trace.trim_end(), if m128 { "128K" } else { "48K" }, detail),
                json!({"kind":"emulator-level","history":trace,"m128":m128}),
            );
        };
        let agree = |a: Option<usize>, b: Option<usize>| match (a, b) {
            (Some(x), Some(y)) => x.abs_diff(y) <= 3,
            (None, None) => true,
            _ => false,
        };
        for c in h.iter() {
            trace.push_str(&format!("{:?} ", c));
            ctx.add_eval(1);
            match c {
                Cmd::Play => {
                    e.play_tape();
                    t.play();
                }
                Cmd::Stop => {
                    e.stop_tape();
                    t.stop();
                }
                Cmd::Rewind => {
                    let _ = e.rewind_tape();
                    let _ = t.rewind();
                }
                Cmd::Run30 => {
                    run(&mut e, &mut t, 30, false);
                }
                Cmd::RunEnd => {
                    let (fe, ft) = run(&mut e, &mut t, 700, true);
                    if !agree(fe, ft) {
                        report("time-to-end", &trace, format!("left running, the emulator's deck stopped by itself after {:?} frames, the bare deck after {:?}", fe, ft));
                        return;
                    }
                }
            }
            if stopped_e(&e) != stopped_t(&t) {
                report("deck-state", &trace, format!("after the last command the emulator's deck is {}, the bare deck is {}", if stopped_e(&e) { "stopped" } else { "running" }, if stopped_t(&t) { "stopped" } else { "running" }));
                return;
            }
        }
        // the next play must run, on both, through the same rest of the tape
        e.play_tape();
        t.play();
        let (fe, ft) = run(&mut e, &mut t, 700, true);
        trace.push_str("then Play, run to the end");
        if !agree(fe, ft) {
            report("final-play", &trace, format!("the final play ran for {:?} frames on the emulator and {:?} on the bare deck before the deck stopped", fe, ft));
            return;
        }
        ctx.outcome(crate::vcore::fnv(trace.as_bytes()) ^ ft.unwrap_or(9999) as u64);
    });
}

pub fn run(tier: Tier, seed: u64, replay: Option<String>) -> i32 {
    let ctx = Ctx::new("C12", tier, seed, "model_checking");
    if let Some(path) = replay {
        return replay_case(&ctx, &path);
    }
    let quick = !tier.is_thorough();
    let budget = if quick { 4 } else { 5 };
    let tapes: Vec<(&str, Vec<Vec<u8>>)> = if quick {
        vec![
            ("two-data-blocks", vec![std_block(0xFF, &[0xA5]), std_block(0xFF, &[0x3C, 0x81])]),
            // a block longer than the 128-byte read buffer first: commands inside its first data bytes
            // have a buffer refill still ahead
            ("long-block-first", vec![std_block(0xFF, &(0..200u32).map(|i| (i * 3 + 7) as u8).collect::<Vec<u8>>()), std_block(0xFF, &[0x5A])]),
        ]
    } else {
        vec![
            ("two-data-blocks", vec![std_block(0xFF, &[0xA5]), std_block(0xFF, &[0x3C, 0x81])]),
            ("hdr+data130", vec![std_block(0x00, &[1, 2, 3]), std_block(0xFF, &(0..128u32).map(|i| (i * 3 + 1) as u8).collect::<Vec<u8>>())]),
        ]
    };
    crate::vcore::par_for(tapes.len(), 1, |i| {
        let (name, blocks) = &tapes[i];
        let bj = json!({"kind":"deck","tape":name,"blocks":blocks.iter().map(|b| crate::vcore::hex(b)).collect::<Vec<_>>()});
        ctx.guard(&format!("tape {}", name), bj, || check_tape(&ctx, name, blocks, budget, quick));
    });
    emulator_level_histories(&ctx, if quick { 4 } else { 5 });
    ctx.note("command_budget", json!(budget));
    ctx.note("not_judged", json!("EAR level change caused by the rewind command itself"));
    ctx.finish(
        "BFS over (real Tap, RefDeck) from a playing and a cold deck: at every T position inside the command windows (first pilot pulses, pilot->sync->first byte, last bits->pause head, pause tail->next pilot / end of tape, after the end) every command of {stop, play, rewind} up to the command budget (rewind also while the deck is playing: the deck must go on as a fresh playing tape, or else what it plays to the end of the tape is decoded and must be exactly the tape's blocks with full pilots), advance(1) inside windows and deterministic fast-forward between them; refinement mapping checked after every action; dedup on (complete Tap state incl. prev_state, RefDeck, remaining budget); host level: every history of 4 (thorough 5) commands of {play_tape, stop_tape, rewind_tape, 30 frames, run until the deck stops} on a whole Emulator in lock step with a bare Tap over the same emulated time (stopped/running after every command, frames until the deck stops by itself, and the final play to the end of the tape must agree). distinct = distinct (prev_state, mode, command trace) outcomes",
        true,
        &["uninterrupted tape behaviour (the refinement target) is C11's verified chain", "prev_state is read only by play(): equality of all other fields implies equal futures until the next command"],
    )
}

fn replay_case(ctx: &Ctx, path: &str) -> i32 {
    let v: serde_json::Value = serde_json::from_slice(&rig::read_file(path)).expect("replay json");
    let case = &v["case"];
    let blocks: Vec<Vec<u8>> = case["blocks"]
        .as_array()
        .map(|a| a.iter().map(|x| crate::vcore::unhex(x.as_str().unwrap_or(""))).collect())
        .unwrap_or_default();
    if case["kind"] == "emulator-level" {
        println!("replay: host-level history [{}]", case["history"].as_str().unwrap_or(""));
        emulator_level_histories(ctx, 4);
        let n = ctx.violation_classes();
        println!("replay: {} violation class(es) reproduced", n);
        return (n > 0) as i32;
    }
    println!("replay: tape {:?}, failing history [{}] then {}", case["tape"], case["commands"].as_str().unwrap_or(""), case["next_action"]);
    check_tape(ctx, "replay", &blocks, 4, true);
    let n = ctx.violation_classes();
    println!("replay: {} violation class(es) reproduced", n);
    (n > 0) as i32
}
