//! C02 — interrupt, NMI, HALT and prefix sequencing follow the Z80 rules.
//! E-BFS with a lazily chosen program (an instruction token is chosen when PC reaches unassigned
//! memory) and scripted INT/NMI levels at every instruction boundary, in lock step with RefZ80.

use crate::rig;
use crate::vcore::{fnv, fnv_mix, par_for, Ctx, Tier};
use crate::z80lock::*;
use refz80::RefZ80;
use rustzx_z80::Z80;
use serde_json::json;
use std::collections::HashSet;
use std::sync::Mutex;

const TOKENS: &[(&str, &[u8])] = &[
    ("NOP", &[0x00]),
    ("EI", &[0xFB]),
    ("DI", &[0xF3]),
    ("HALT", &[0x76]),
    ("RET", &[0xC9]),
    ("RETI", &[0xED, 0x4D]),
    ("RETN", &[0xED, 0x45]),
    ("IM0", &[0xED, 0x46]),
    ("IM1", &[0xED, 0x56]),
    ("IM2", &[0xED, 0x5E]),
    ("LD A,I", &[0xED, 0x57]),
    ("DD NOP", &[0xDD, 0x00]),
    ("DD DD NOP", &[0xDD, 0xDD, 0x00]),
    ("DD FD LD IY,nn", &[0xDD, 0xFD, 0x21, 0x34, 0x12]),
    ("FD DD ED NEG", &[0xFD, 0xDD, 0xED, 0x44]),
    ("DD EI", &[0xDD, 0xFB]),
    ("FD DI", &[0xFD, 0xF3]),
    ("DD HALT", &[0xDD, 0x76]),
    ("RLC (IX+1)", &[0xDD, 0xCB, 0x01, 0x06]),
    ("LD IX,nn", &[0xDD, 0x21, 0x34, 0x12]),
    ("RETN alias ED 55", &[0xED, 0x55]),
    ("LD A,R", &[0xED, 0x5F]),
    // undocumented ED NOPs are ordinary 8-T instructions: an interrupt is accepted right behind them
    ("ED 00 (NOP)", &[0xED, 0x00]),
    ("ED FF (NOP)", &[0xED, 0xFF]),
];

/// Program memory: assigned cells + writes; everything else is the background function.
#[derive(Clone)]
struct Mem {
    cells: Vec<(u16, u8)>,
}

impl Mem {
    fn get(&self, a: u16) -> Option<u8> {
        self.cells.iter().rev().find(|(x, _)| *x == a).map(|(_, v)| *v)
    }
}

#[derive(Clone)]
struct Node {
    cpu: Z80,
    rc: RefZ80,
    mem: Mem,
    ack: u8,
    hist: Vec<String>,
}

fn env_of(n: &Node, int: bool, nmi: bool) -> Env {
    let mut e = Env::new(0x31);
    e.int_line = int;
    e.nmi_line = nmi;
    e.ack_byte = n.ack;
    e
}

/// Bus wrappers that serve `Mem` first
struct IBus {
    inner: ImplBus,
    mem: Mem,
    /// emulate() call number inside the macro-step (1 = the boundary itself)
    phase: u32,
    /// levels answered to any sample after the boundary (inside a prefix chain)
    late_int: bool,
    late_nmi: bool,
}
impl rustzx_z80::Z80Bus for IBus {
    fn read_internal(&mut self, addr: u16) -> u8 {
        if let Some(v) = self.mem.get(addr) {
            self.inner.env.preset[0] = (addr, v);
            self.inner.env.npreset = 1;
        } else {
            self.inner.env.npreset = 0;
        }
        // writes of this step shadow presets inside env.read
        self.inner.read_internal(addr)
    }
    fn write_internal(&mut self, addr: u16, data: u8) {
        self.inner.write_internal(addr, data);
        self.mem.cells.push((addr, data));
    }
    fn wait_mreq(&mut self, addr: u16, clk: usize) {
        self.inner.wait_mreq(addr, clk)
    }
    fn wait_no_mreq(&mut self, addr: u16, clk: usize) {
        self.inner.wait_no_mreq(addr, clk)
    }
    fn wait_internal(&mut self, clk: usize) {
        self.inner.wait_internal(clk)
    }
    fn read_io(&mut self, port: u16) -> u8 {
        self.inner.read_io(port)
    }
    fn write_io(&mut self, port: u16, data: u8) {
        self.inner.write_io(port, data)
    }
    fn read_interrupt(&mut self) -> u8 {
        self.inner.read_interrupt()
    }
    fn reti(&mut self) {}
    fn halt(&mut self, _h: bool) {}
    fn int_active(&self) -> bool {
        if self.phase <= 1 {
            self.inner.int_active()
        } else {
            self.late_int
        }
    }
    fn nmi_active(&self) -> bool {
        if self.phase <= 1 {
            self.inner.nmi_active()
        } else {
            self.late_nmi
        }
    }
    fn pc_callback(&mut self, _a: u16) {}
}

struct RB {
    inner: RBus,
    mem: Mem,
}
impl refz80::RefBus for RB {
    fn m1(&mut self, addr: u16) -> u8 {
        self.prep(addr);
        self.inner.m1(addr)
    }
    fn mem_read(&mut self, addr: u16) -> u8 {
        self.prep(addr);
        self.inner.mem_read(addr)
    }
    fn mem_write(&mut self, addr: u16, val: u8) {
        self.inner.mem_write(addr, val);
        self.mem.cells.push((addr, val));
    }
    fn delay(&mut self, addr: u16, n: u8) {
        self.inner.delay(addr, n)
    }
    fn io_read(&mut self, port: u16) -> u8 {
        self.inner.io_read(port)
    }
    fn io_write(&mut self, port: u16, val: u8) {
        self.inner.io_write(port, val)
    }
    fn int_ack(&mut self) -> u8 {
        self.inner.int_ack()
    }
    fn idle(&mut self, n: u8) {
        self.inner.idle(n)
    }
    fn int_line(&mut self) -> bool {
        self.inner.int_line()
    }
    fn nmi_line(&mut self) -> bool {
        self.inner.nmi_line()
    }
}
impl RB {
    fn prep(&mut self, addr: u16) {
        if let Some(v) = self.mem.get(addr) {
            self.inner.env.preset[0] = (addr, v);
            self.inner.env.npreset = 1;
        } else {
            self.inner.env.npreset = 0;
        }
    }
}

fn entry_split(l: &[Ev]) -> (Vec<Ev>, Vec<Ev>) {
    let p = l.iter().position(|e| matches!(e, Ev::M1(..))).unwrap_or(l.len());
    (l[..p].to_vec(), l[p..].to_vec())
}

fn tsum(l: &[Ev]) -> u32 {
    let mut g = Log::new();
    for e in l {
        g.push(*e);
    }
    g.t_states()
}

fn sorted_data(l: &[Ev]) -> Vec<Ev> {
    let mut v: Vec<Ev> = l.iter().filter(|e| matches!(e, Ev::Rd(..) | Ev::Wr(..) | Ev::Ack(..))).cloned().collect();
    v.sort_by_key(|e| match e {
        Ev::Rd(a, v) => (0, *a, *v),
        Ev::Wr(a, v) => (1, *a, *v),
        Ev::Ack(v) => (2, 0, *v),
        _ => (3, 0, 0),
    });
    v
}

/// One boundary: optional token placement, line levels, one aligned macro-step on both sides.
fn transition(ctx: &Ctx, n: &Node, token: Option<usize>, lines: u8, verbose: bool) -> Option<Node> {
    let (int, nmi, late_int, late_nmi) = decode_lines(lines);
    let mut x = n.clone();
    let pc = x.rc.pc;
    let mut label = String::new();
    if let Some(t) = token {
        for (i, b) in TOKENS[t].1.iter().enumerate() {
            let a = pc.wrapping_add(i as u16);
            if x.mem.get(a).is_none() {
                x.mem.cells.push((a, *b));
            }
        }
        label.push_str(TOKENS[t].0);
    } else {
        label.push_str("(assigned)");
    }
    label.push_str(&format!(" INT={} NMI={}", int as u8, nmi as u8));
    if late_int && !int {
        label.push_str(" INT-rises-inside-chain");
    }
    if late_nmi && !nmi {
        label.push_str(" NMI-rises-inside-chain");
    }
    x.hist.push(label);
    let env = env_of(&x, int, nmi);
    let mut ib = IBus { inner: ImplBus::new(env.clone()), mem: x.mem.clone(), phase: 0, late_int, late_nmi };
    let mut rb = RB { inner: RBus::new(env), mem: x.mem.clone() };
    let pre = x.rc.clone();
    // implementation macro-step
    let mut steps = 0;
    for k in 1..=6 {
        ib.phase = k;
        x.cpu.emulate(&mut ib);
        steps = k;
        if x.cpu.verif_active_prefix() == 0 {
            break;
        }
    }
    let _ = steps;
    // reference macro-step
    rb.inner.armed = true;
    let mut int_kind = 0u8;
    for _ in 0..8 {
        match x.rc.step(&mut rb) {
            refz80::StepKind::IntAccepted => int_kind = 1,
            refz80::StepKind::NmiAccepted => int_kind = 2,
            refz80::StepKind::Prefix => {}
            refz80::StepKind::Instruction => break,
        }
        rb.inner.armed = false;
    }
    let mut ist = from_impl(&x.cpu);
    let mut rst = x.rc.clone();
    normalize_q(pc, &mut ist, &mut rst);
    // not judged: the exact value of the hidden Q/MEMPTR latches is C01's subject
    ist.q = 0;
    rst.q = 0;
    let il = ib.inner.log.slice().to_vec();
    let rl = rb.inner.log.slice().to_vec();
    if verbose {
        println!("  boundary {:?}", x.hist.last());
        println!("    reference: {:x?}", x.rc);
        println!("    impl     : {:x?}", from_impl(&x.cpu));
        println!("    ref bus  : {}", fmt_log(&rl));
        println!("    impl bus : {}", fmt_log(&il));
    }
    let hist_json = json!({"kind":"history","ack":n.ack,"start":[pre_state_json(&n.rc)],"events":x.hist});
    let ctxs = format!(
        "iff1={} iff2={} im={} halted={} inhibit={} prefix-pending={}",
        pre.iff1 as u8, pre.iff2 as u8, pre.im, pre.halted as u8, pre.int_inhibit as u8, (pre.pending_prefix != 0) as u8
    );
    let what_tok = token.map(|t| TOKENS[t].0).unwrap_or("(assigned)");
    // (1) was an interrupt accepted on both sides alike?
    let (ie, irest) = entry_split(&il);
    let (re, rrest) = entry_split(&rl);
    let impl_int = !ie.is_empty();
    if impl_int != (int_kind != 0) {
        ctx.violation(
            &format!("C02:acceptance:{}:{}:INT{}NMI{}", what_tok_class(&pre, n), if impl_int { "accepted-but-must-not" } else { "not-accepted-but-must" }, int as u8, nmi as u8),
            &format!("boundary [{}] in state ({}): implementation {} an interrupt, the Z80 rules say {}; history {:?}", what_tok, ctxs, if impl_int { "accepted" } else { "did not accept" }, if int_kind != 0 { "accept" } else { "do not accept" }, x.hist),
            hist_json,
        );
        return None;
    }
    if impl_int && (tsum(&ie) != tsum(&re) || sorted_data(&ie) != sorted_data(&re)) {
        ctx.violation(
            &format!("C02:entry:{}", if int_kind == 2 { "nmi".to_string() } else { format!("im{}", pre.im) }),
            &format!("interrupt entry differs in state ({}): impl [{}] rules [{}]; history {:?}", ctxs, fmt_log(&ie), fmt_log(&re), x.hist),
            hist_json,
        );
        return None;
    }
    if irest != rrest {
        ctx.violation(
            &format!("C02:step:{}:bus", what_tok),
            &format!("after boundary [{}] ({}): impl bus [{}] rules [{}]; history {:?}", what_tok, ctxs, fmt_log(&irest), fmt_log(&rrest), x.hist),
            hist_json,
        );
        return None;
    }
    if let Some(d) = diff_states(&ist, &rst, false) {
        ctx.violation(
            &format!("C02:state:{}:{}", what_tok, diff_fields(&ist, &rst, false).join("+")),
            &format!("after boundary [{}] ({}): {}; history {:?}", what_tok, ctxs, d, x.hist),
            hist_json,
        );
        return None;
    }
    x.mem = rb.mem;
    Some(x)
}

/// 0..3: INT/NMI levels constant over the macro-step; 4: INT rises after the boundary; 5: NMI rises
fn decode_lines(l: u8) -> (bool, bool, bool, bool) {
    match l {
        0..=3 => (l & 1 != 0, l & 2 != 0, l & 1 != 0, l & 2 != 0),
        4 => (false, false, true, false),
        _ => (false, false, false, true),
    }
}

fn what_tok_class(pre: &RefZ80, n: &Node) -> String {
    // class of the boundary: what preceded it
    let last = n.hist.last().map(|s| s.split(" INT").next().unwrap_or("").to_string()).unwrap_or_else(|| "start".into());
    format!("after[{}]:iff1={}:halted={}", last, pre.iff1 as u8, pre.halted as u8)
}

fn pre_state_json(s: &RefZ80) -> serde_json::Value {
    json!({"iff1":s.iff1,"iff2":s.iff2,"im":s.im,"i":s.i,"sp":s.sp,"pc":s.pc})
}

fn root(iff1: bool, iff2: bool, im: u8, i: u8, ack: u8) -> Node {
    let mut s = crate::z80prod::background(0, 0x8000);
    s.iff1 = iff1;
    s.iff2 = iff2;
    s.im = im;
    s.i = i;
    s.sp = 0xC000;
    s.q = 0;
    Node {
        cpu: to_impl(&s),
        rc: s,
        mem: Mem { cells: Vec::new() },
        ack,
        hist: Vec::new(),
    }
}

fn key(n: &Node) -> u64 {
    let st = from_impl(&n.cpu);
    let mut h = fnv(format!("{:?}{:?}", st, n.rc).as_bytes());
    let mut cells = n.mem.cells.clone();
    // last write wins: canonical form = final value per address
    cells.reverse();
    let mut seen: Vec<u16> = Vec::new();
    let mut fin: Vec<(u16, u8)> = Vec::new();
    for (a, v) in cells {
        if !seen.contains(&a) {
            seen.push(a);
            fin.push((a, v));
        }
    }
    fin.sort();
    for (a, v) in fin {
        h = fnv_mix(h, (a as u64) << 8 | v as u64);
    }
    fnv_mix(h, n.ack as u64)
}

fn explore(ctx: &Ctx, r: Node, depth: usize, outcomes: &Mutex<HashSet<u64>>) -> (u64, u64) {
    let mut frontier = vec![r];
    let mut seen: HashSet<u64> = HashSet::new();
    let mut states = 1u64;
    let mut transitions = 0u64;
    for _d in 0..depth {
        let mut next = Vec::new();
        for n in frontier.iter() {
            let pc = n.rc.pc;
            let toks: Vec<Option<usize>> = if n.mem.get(pc).is_some() { vec![None] } else { (0..TOKENS.len()).map(Some).collect() };
            for t in toks {
                // levels rising inside the step only matter for tokens that are prefix chains
                let nlines = match t {
                    Some(i) if TOKENS[i].1.len() > 1 && matches!(TOKENS[i].1[0], 0xDD | 0xFD) => 6u8,
                    _ => 4u8,
                };
                for lines in 0..nlines {
                    transitions += 1;
                    if let Some(x) = transition(ctx, n, t, lines, false) {
                        if _d + 1 == depth {
                            continue;
                        }
                        let k = key(&x);
                        if seen.insert(k) {
                            states += 1;
                            next.push(x);
                        }
                    }
                }
            }
        }
        frontier = next;
    }
    let mut g = outcomes.lock().unwrap();
    for k in seen.iter().take(2000) {
        g.insert(*k);
    }
    (states, transitions)
}

pub fn run(tier: Tier, seed: u64, replay: Option<String>) -> i32 {
    let ctx = Ctx::new("C02", tier, seed, "model_checking");
    if let Some(path) = replay {
        return replay_case(&ctx, &path);
    }
    if let Err(e) = crate::oracle::require_valid() {
        eprintln!("MACHINERY: reference model not validated: {}", e);
        return 2;
    }
    let depth = if tier.is_thorough() { 4 } else { 3 };
    let mut roots = Vec::new();
    for iff in 0..4u8 {
        for im in 0..3u8 {
            for i in [0x3Fu8, 0xFF] {
                for ack in [0xFFu8, 0xFE, 0x00] {
                    if !tier.is_thorough() && (i == 0xFF && ack != 0xFF) {
                        continue;
                    }
                    roots.push((iff & 1 != 0, iff & 2 != 0, im, i, ack));
                }
            }
        }
    }
    let outcomes: Mutex<HashSet<u64>> = Mutex::new(HashSet::new());
    par_for(roots.len(), 1, |k| {
        let (a, b, im, i, ack) = roots[k];
        let (s, t) = explore(&ctx, root(a, b, im, i, ack), depth, &outcomes);
        ctx.add_states(s);
        ctx.add_transitions(t);
        ctx.add_traces(t);
    });
    ctx.outcomes_bulk(&outcomes.lock().unwrap());
    ctx.note("roots", json!(roots.len()));
    ctx.note("depth_instruction_boundaries", json!(depth));
    ctx.note("program_tokens", json!(TOKENS.iter().map(|t| t.0).collect::<Vec<_>>()));
    ctx.note("not_judged", json!("NMI on the boundary directly after EI/DI (model and code both hold it off); order of acknowledge/stack cycles inside interrupt entry; values of the hidden Q latch (C01)"));
    ctx.sample(json!({"history": ["EI INT=1 NMI=0", "NOP INT=1 NMI=0", "(handler) NOP"], "expected": "no acceptance at the boundary after EI, acceptance at the next one"}));
    ctx.finish(
        "BFS over instruction boundaries: at each boundary the environment chooses the instruction token at PC when that memory is still unassigned (24 tokens incl. EI/DI/HALT/RETI/RETN/IM x/prefix chains/undocumented ED NOPs) and the INT and NMI levels (4 combinations); roots: 4 IFF combinations x 3 interrupt modes x I in {3F,FF} x acknowledge byte; one aligned macro-step on Z80::emulate and on RefZ80 per transition; compared: acceptance or not, entry T-states and accesses, pushed address, PC, IFF1/IFF2, IM, halted, R and all other registers. Dedup on (complete implementation state, reference state, memory).",
        true,
        &["RefZ80 validated (see C01)", "NMI is modelled as a request sampled per boundary"],
    )
}

fn replay_case(ctx: &Ctx, path: &str) -> i32 {
    let v: serde_json::Value = serde_json::from_slice(&rig::read_file(path)).expect("replay json");
    let case = &v["case"];
    let st = &case["start"][0];
    let mut n = root(st["iff1"].as_bool().unwrap_or(false), st["iff2"].as_bool().unwrap_or(false), st["im"].as_u64().unwrap_or(0) as u8, st["i"].as_u64().unwrap_or(0x3f) as u8, case["ack"].as_u64().unwrap_or(255) as u8);
    for e in case["events"].as_array().cloned().unwrap_or_default() {
        let s = e.as_str().unwrap_or("");
        let name = s.split(" INT=").next().unwrap_or("");
        let int = s.contains("INT=1");
        let nmi = s.contains("NMI=1");
        let lines = if s.contains("INT-rises") { 4 } else if s.contains("NMI-rises") { 5 } else { int as u8 | (nmi as u8) << 1 };
        let tok = TOKENS.iter().position(|t| t.0 == name);
        match transition(ctx, &n, tok, lines, true) {
            Some(x) => n = x,
            None => break,
        }
    }
    let k = ctx.violation_classes();
    println!("replay: {} violation class(es) reproduced", k);
    (k > 0) as i32
}
