//! C05 — frames last 69888/70908 T with a 32-T INT pulse; no T-state is ever lost.
//! (a) INT window: every T of the frame; (b) programs over many frames in lock step with
//! RefSpectrum after every instruction, never placing the clock; (c) emulate_frames(FrameCount(n)).

use crate::refzx::*;
use crate::rig::{self, Emu, Opts, RegsView};
use crate::vcore::{par_for, par_for_with, Ctx, Tier};
use refz80::{RefZ80, StepKind};
use serde_json::json;
use std::time::Duration;

fn opts(m128: bool) -> Opts {
    let mut o = Opts::machine(m128);
    o.sound = false;
    o
}

/// (a) acceptance window: teleport to every T, IFF1=1, IM1, NOP at 0x8000
fn int_window(ctx: &Ctx, m128: bool) {
    let sp = spec(m128);
    let frame = sp.frame as usize;
    let chunks = 64;
    par_for_with(
        chunks,
        1,
        || rig::emu_stepping(&opts(m128)),
        |e, c| {
            rig::poke(e, 0x8000, &[0x00, 0x00]);
            for t in (c * frame / chunks)..((c + 1) * frame / chunks) {
                for halted in [false, true] {
                    let mut r = RegsView::default();
                    r.pc = 0x8000;
                    r.sp = 0x9000;
                    r.iff1 = true;
                    r.iff2 = true;
                    r.im = 1;
                    r.halted = halted;
                    if halted {
                        rig::poke(e, 0x8000, &[0x76]);
                    } else {
                        rig::poke(e, 0x8000, &[0x00]);
                    }
                    e.verif_set_frame_clocks(t);
                    rig::set_regs(e.verif_cpu(), &r);
                    rig::step(e);
                    let v = rig::regs_view(e.verif_cpu());
                    let accepted = !v.iff1;
                    let expect = t < 32;
                    ctx.add_eval(1);
                    if accepted != expect {
                        ctx.violation(
                            &format!("C05:int-window:{}:{}", if m128 { "128k" } else { "48k" }, if accepted { "accepted-outside-32T" } else { "missed-inside-32T" }),
                            &format!("{} machine: interrupt {} at an instruction boundary at T={} of the frame (halted={})", if m128 { "128K" } else { "48K" }, if accepted { "accepted" } else { "not accepted" }, t, halted),
                            json!({"kind":"int-window","m128":m128,"t":t,"halted":halted}),
                        );
                    }
                    if accepted {
                        // pushed address: 0x8000 running, 0x8001 from HALT
                        let lo = e.peek(0x8FFE) as u16 | (e.peek(0x8FFF) as u16) << 8;
                        let want = if halted { 0x8001 } else { 0x8000 };
                        if lo != want {
                            ctx.violation(
                                "C05:int-window:pushed-address",
                                &format!("interrupt at T={} pushed {:04x}, expected {:04x} (halted={})", t, lo, want, halted),
                                json!({"kind":"int-window","m128":m128,"t":t,"halted":halted}),
                            );
                        }
                    }
                }
            }
        },
    );
    ctx.outcome(m128 as u64);
    ctx.outcome(2 + m128 as u64);
}

/// (a') acceptance window after a frame end reached by REAL execution: a straddling instruction of
/// 4/13/23 T started d T before the frame end (every overrun 0..22), then filler instructions so
/// that the first interrupt-enabled boundary falls on every T from the overrun to about 60; lock
/// step with RefMachine for 24 instructions.
fn int_window_after_overrun(ctx: &Ctx, m128: bool) {
    let sp = spec(m128);
    let straddlers: [(&[u8], u64); 3] = [(&[0x00], 4), (&[0x3A, 0x00, 0xA0], 13), (&[0xDD, 0x34, 0x05], 23)];
    let fillers: [&[u8]; 4] = [&[], &[0x23], &[0x3E, 0x00], &[0x23, 0x3E, 0x00]];
    let mut jobs: Vec<(usize, u64, usize, usize)> = Vec::new();
    for (si, (_, len)) in straddlers.iter().enumerate() {
        for d in 1..=*len {
            for f in 0..4 {
                for n in 0..12 {
                    jobs.push((si, d, f, n));
                }
            }
        }
    }
    par_for_with(
        jobs.len(),
        8,
        || rig::emu_stepping(&opts(m128)),
        |e, j| {
            let (si, d, f, n) = jobs[j];
            let mut code: Vec<u8> = straddlers[si].0.to_vec();
            code.extend_from_slice(fillers[f]);
            code.extend(std::iter::repeat(0x00).take(n));
            code.push(0xFB); // EI
            code.extend(std::iter::repeat(0x00).take(24));
            rig::poke(e, 0x8000, &code);
            // IM 2 handler: INC A ; RET  (no EI: one acceptance at most)
            rig::poke(e, HANDLER, &[0x3C, 0xC9]);
            rig::poke(e, 0xFEFF, &[HANDLER as u8, (HANDLER >> 8) as u8]);
            let mut r = RegsView::default();
            r.pc = 0x8000;
            r.sp = 0xBFF0;
            r.ix = 0xA100;
            r.i = 0xFE;
            r.im = 2;
            e.verif_set_frame_clocks((sp.frame - d) as usize);
            rig::set_regs(e.verif_cpu(), &r);
            let img: Vec<u8> = (0..=0xFFFFu16).map(|a| e.peek(a)).collect();
            let dummy = |_a: u16| 0u8;
            let io = |_p: u16, _t: u64| 0xFFu8;
            let t0 = rig::abs_t(e, m128);
            let mut bus = RefMachine::new(sp, Contended::new(m128, 0), t0, &dummy, &io);
            bus.mem64 = Some(img);
            let mut rc = ref_from(&r);
            rc.ix = 0xA100;
            for k in 0..(n + 16) {
                rig::step(e);
                loop {
                    match rc.step(&mut bus) {
                        StepKind::Instruction => break,
                        _ => {}
                    }
                }
                let v = rig::regs_view(e.verif_cpu());
                let it = rig::abs_t(e, m128);
                if it != bus.t || v.pc != rc.pc || v.sp != rc.sp || v.iff1 != rc.iff1 {
                    let overrun = straddlers[si].1 - d;
                    ctx.violation(
                        &format!("C05:int-window-after-overrun:{}:{}", if m128 { "128k" } else { "48k" }, if v.pc != rc.pc || v.iff1 != rc.iff1 { "acceptance" } else { "time" }),
                        &format!(
                            "{} machine: a {}-T instruction started {} T before the frame end (overrun {}), then filler {} + {} NOPs + EI: at step {} implementation T={} pc={:04x} iff1={}, reference T={} pc={:04x} iff1={} (INT must be accepted at a boundary iff its in-frame T < 32)",
                            if m128 { "128K" } else { "48K" }, straddlers[si].1, d, overrun, f, n, k, it % sp.frame, v.pc, v.iff1, bus.t % sp.frame, rc.pc, rc.iff1
                        ),
                        json!({"kind":"int-window-overrun","m128":m128,"straddler":si,"d":d,"filler":f,"nops":n}),
                    );
                    break;
                }
            }
            ctx.add_eval(1);
            ctx.outcome(((bus.t - t0) << 4) ^ rc.a as u64);
        },
    );
}

/// (a'') the INT line is a level held for the whole 32 T, not a request dropped by the acknowledge:
/// an IM 2 (and IM 1 on the 48K, IM 0) handler that re-enables interrupts at once is re-entered as
/// long as the next interrupt-enabled boundary still falls inside the pulse. Handlers `EI; NOP*k;
/// RET`, k = 0..5, first acceptance placed on every T of 0..34, free running afterwards for 16
/// instructions in lock step with RefMachine (T, PC, SP, IFF1 after every instruction).
fn int_level_reentry(ctx: &Ctx, m128: bool) {
    let sp = spec(m128);
    let mut jobs: Vec<(u64, usize, u8)> = Vec::new();
    for t in 0..36u64 {
        for k in 0..6usize {
            for im in [0u8, 2] {
                jobs.push((t, k, im));
            }
        }
    }
    par_for_with(
        jobs.len(),
        8,
        || rig::emu_stepping(&opts(m128)),
        |e, j| {
            let (t, k, im) = jobs[j];
            // main program: NOP sled
            rig::poke(e, 0x8000, &[0x00; 64]);
            // IM 2 handler: EI; NOP*k; RET   (IM 0 with FF on the bus = RST 38: handler in ROM, so
            // IM 0 is only used as a second acknowledge path whose ROM handler is long: one acceptance)
            let mut h: Vec<u8> = vec![0xFB];
            h.extend(std::iter::repeat(0x00).take(k));
            h.push(0xC9);
            rig::poke(e, HANDLER, &h);
            rig::poke(e, 0xFEFF, &[HANDLER as u8, (HANDLER >> 8) as u8]);
            if im == 0 && m128 {
                // the 128K ROM's RST 38 handler pages memory, which RefMachine does not model
                return;
            }
            let mut r = RegsView::default();
            r.pc = 0x8000;
            r.sp = 0xBFF0;
            r.i = 0xFE;
            r.im = im;
            r.iff1 = true;
            r.iff2 = true;
            e.verif_set_frame_clocks(t as usize);
            rig::set_regs(e.verif_cpu(), &r);
            let img: Vec<u8> = (0..=0xFFFFu16).map(|a| e.peek(a)).collect();
            let dummy = |_a: u16| 0u8;
            let io = |_p: u16, _t: u64| 0xFFu8;
            let t0 = rig::abs_t(e, m128);
            let mut bus = RefMachine::new(sp, Contended::new(m128, 0), t0, &dummy, &io);
            bus.mem64 = Some(img);
            let mut rc = ref_from(&r);
            let mut accepts = 0u64;
            for step in 0..16 {
                rig::step(e);
                loop {
                    match rc.step(&mut bus) {
                        StepKind::Instruction => break,
                        StepKind::IntAccepted => accepts += 1,
                        _ => {}
                    }
                }
                let v = rig::regs_view(e.verif_cpu());
                let it = rig::abs_t(e, m128);
                if it != bus.t || v.pc != rc.pc || v.sp != rc.sp || v.iff1 != rc.iff1 {
                    ctx.violation(
                        &format!("C05:int-level-reentry:{}:im{}", if m128 { "128k" } else { "48k" }, im),
                        &format!(
                            "{} machine, IM {}: interrupts enabled at T={} of the frame with a handler `EI; {} NOPs; RET`: after {} instructions implementation T={} pc={:04x} sp={:04x} iff1={}, reference T={} pc={:04x} sp={:04x} iff1={} (INT stays asserted for all of T=0..31, so a handler that re-enables interrupts inside the pulse is re-entered)",
                            if m128 { "128K" } else { "48K" }, im, t, k, step + 1, it % sp.frame, v.pc, v.sp, v.iff1, bus.t % sp.frame, rc.pc, rc.sp, rc.iff1
                        ),
                        json!({"kind":"int-level-reentry","m128":m128,"t":t,"nops":k,"im":im}),
                    );
                    break;
                }
            }
            ctx.add_eval(1);
            ctx.outcome(0x5000 + accepts);
        },
    );
}

// ---------------------------------------------------------------- (b) programs

#[derive(Clone, Debug)]
pub enum Elem {
    Halt,
    Nops(u8),
    Ldir,
    Indexed,
    Ei,
    Di,
    OutBorder,
    /// n undocumented ED NOPs (ED 00): ordinary 8-T instructions, interruptible like any other
    EdNops(u8),
    /// n times DD ED 44: NEG behind a stray index prefix, 12 T, one instruction for the interrupt logic
    DdEdNegs(u8),
}

fn elem_code(e: &Elem, contended_data: bool) -> Vec<u8> {
    let dh = if contended_data { 0x60 } else { 0xA0 };
    match e {
        Elem::Halt => vec![0x76],
        Elem::Nops(n) => vec![0x00; *n as usize],
        // LD HL,src; LD DE,dst; LD BC,40; LDIR
        Elem::Ldir => vec![0x21, 0x00, dh, 0x11, 0x80, dh, 0x01, 40, 0x00, 0xED, 0xB0],
        // LD IX,dh00 ; INC (IX+5)  (23 T)
        Elem::Indexed => vec![0xDD, 0x21, 0x00, dh, 0xDD, 0x34, 0x05],
        Elem::Ei => vec![0xFB],
        Elem::Di => vec![0xF3],
        // OUT (FE),A : contended I/O every pass
        Elem::OutBorder => vec![0xD3, 0xFE],
        Elem::EdNops(n) => (0..*n).flat_map(|_| [0xEDu8, 0x00]).collect(),
        Elem::DdEdNegs(n) => (0..*n).flat_map(|_| [0xDDu8, 0xED, 0x44]).collect(),
    }
}

#[derive(Clone, Debug)]
pub struct Program {
    pub body: Vec<Elem>,
    pub code_contended: bool,
    pub data_contended: bool,
    /// handler busy-loop count (0 = short handler < 32 T is not used; durations ~ 40, 100, 5000 T)
    pub handler_loops: u8,
    pub im2: bool,
    pub start_ei: bool,
}

const HANDLER: u16 = 0x9000;
const COUNTER: u16 = 0x9100;

fn install(e: &mut Emu, p: &Program) -> u16 {
    let base: u16 = if p.code_contended { 0x6800 } else { 0x8000 };
    let mut code: Vec<u8> = Vec::new();
    for el in p.body.iter() {
        code.extend(elem_code(el, p.data_contended));
    }
    // JP base
    code.extend([0xC3, base as u8, (base >> 8) as u8]);
    rig::poke(e, base, &code);
    // handler: PUSH HL; LD HL,COUNTER; INC (HL); POP HL; PUSH BC; LD B,n; DJNZ $; POP BC; EI; RET
    let h: Vec<u8> = vec![
        0xE5, 0x21, COUNTER as u8, (COUNTER >> 8) as u8, 0x34, 0xE1, 0xC5, 0x06, p.handler_loops.max(1), 0x10, 0xFE, 0xC1, 0xFB, 0xC9,
    ];
    rig::poke(e, HANDLER, &h);
    rig::poke(e, COUNTER, &[0]);
    // IM 2 vector: I = 0xFE, bus byte FF -> table at FEFF/FF00
    rig::poke(e, 0xFEFF, &[HANDLER as u8, (HANDLER >> 8) as u8]);
    base
}

fn ref_from(v: &RegsView) -> RefZ80 {
    let mut s = RefZ80::new();
    s.pc = v.pc;
    s.sp = v.sp;
    s.i = v.i;
    s.r = v.r;
    s.im = v.im;
    s.iff1 = v.iff1;
    s.iff2 = v.iff2;
    s
}

/// Run one program for `frames` frames on both sides, comparing after every implementation step.
pub fn run_program(ctx: &Ctx, m128: bool, p: &Program, frames: u64, verbose: bool) -> u64 {
    let sp = spec(m128);
    let mut e = rig::emu_stepping(&opts(m128));
    let base = install(&mut e, p);
    let mut r = RegsView::default();
    r.pc = base;
    r.sp = 0xBFF0;
    r.i = 0xFE;
    r.im = if p.im2 { 2 } else { 1 };
    r.iff1 = p.start_ei;
    r.iff2 = p.start_ei;
    rig::set_regs(e.verif_cpu(), &r);
    // reference machine with an owned copy of the 64K image
    let img: Vec<u8> = (0..=0xFFFFu16).map(|a| e.peek(a)).collect();
    let dummy_read = |_a: u16| 0u8;
    let io = |_p: u16, _t: u64| 0xFFu8;
    let t_start = rig::abs_t(&e, m128);
    let mut bus = RefMachine::new(sp, Contended::new(m128, 0), t_start, &dummy_read, &io);
    bus.mem64 = Some(img);
    let mut rc = ref_from(&r);
    let pj = json!({"kind":"program","m128":m128,"body":format!("{:?}", p.body),"code_contended":p.code_contended,"data_contended":p.data_contended,"handler_loops":p.handler_loops,"im2":p.im2,"start_ei":p.start_ei,"frames":frames});
    let mut steps = 0u64;
    let mut ref_ints = 0u64;
    let mut last_int_frame: Option<u64> = None;
    let mut once_per_frame_broken = false;
    let end_t = t_start + frames * sp.frame;
    while rig::abs_t(&e, m128) < end_t {
        // implementation: one emulate()
        rig::step(&mut e);
        // DD/FD followed by ED: the implementation returns between the ED byte and the opcode, which
        // is not an instruction boundary of the reference; it is stepped on to the end of the instruction
        // (an interrupt accepted in between shows as a divergence)
        if e.verif_cpu().verif_active_prefix() == 0xED {
            rig::step(&mut e);
        }
        let it_now = rig::abs_t(&e, m128);
        // reference: aligned macro-step
        loop {
            match rc.step(&mut bus) {
                StepKind::IntAccepted => {
                    ref_ints += 1;
                    let f = bus.t / sp.frame;
                    if last_int_frame == Some(f) {
                        once_per_frame_broken = true;
                    }
                    last_int_frame = Some(f);
                }
                StepKind::NmiAccepted | StepKind::Prefix => {}
                StepKind::Instruction => {
                    if rc.pending_prefix == 0 {
                        break;
                    }
                }
            }
            // the implementation returns in the middle of a prefix chain (after DD FD, or DD ED): the
            // reference stops at the same point of the chain
            if e.verif_cpu().verif_active_prefix() != 0 && rc.pending_prefix != 0 && bus.t >= it_now {
                break;
            }
        }
        steps += 1;
        let it = rig::abs_t(&e, m128);
        let v = rig::regs_view(e.verif_cpu());
        if verbose && steps < 40 {
            println!("  step {}: impl T={} pc={:04x} sp={:04x} | ref T={} pc={:04x} sp={:04x}", steps, it, v.pc, v.sp, bus.t, rc.pc, rc.sp);
        }
        if it != bus.t || v.pc != rc.pc || v.sp != rc.sp {
            let frame_no = bus.t / sp.frame;
            let what = if it != bus.t {
                if v.pc == rc.pc {
                    "time"
                } else {
                    "interrupt-or-control-flow"
                }
            } else {
                "control-flow"
            };
            ctx.violation(
                &format!("C05:program:{}:{}", if m128 { "128k" } else { "48k" }, what),
                &format!(
                    "{} program {:?} (code contended {}, data contended {}, handler loops {}, im2 {}, ei {}): after {} instructions (frame {}) implementation is at T={} pc={:04x} sp={:04x}, reference at T={} pc={:04x} sp={:04x}",
                    if m128 { "128K" } else { "48K" }, p.body, p.code_contended, p.data_contended, p.handler_loops, p.im2, p.start_ei, steps, frame_no, it, v.pc, v.sp, bus.t, rc.pc, rc.sp
                ),
                pj.clone(),
            );
            return steps;
        }
    }
    // interrupt counter in RAM must equal the reference's count
    let cnt_impl = e.peek(COUNTER) as u64;
    let cnt_ref = bus.mem64.as_ref().unwrap()[COUNTER as usize] as u64;
    if p.im2 && cnt_impl != cnt_ref {
        ctx.violation("C05:program:interrupt-count", &format!("interrupt counter {} vs reference {}", cnt_impl, cnt_ref), pj.clone());
    }
    // spec-level statement on the reference itself: never twice in one frame (handler > 32 T)
    if once_per_frame_broken {
        ctx.violation("C05:program:interrupted-twice-in-a-frame", &format!("program {:?}: two acceptances within one frame", p.body), pj.clone());
    }
    ctx.outcome(crate::vcore::fnv(format!("{:?}{}{}{}", p.body, ref_ints, steps, m128).as_bytes()));
    steps
}

fn elems() -> Vec<Elem> {
    let mut v = vec![Elem::Halt, Elem::Ldir, Elem::Indexed, Elem::Ei, Elem::Di, Elem::OutBorder, Elem::EdNops(9), Elem::DdEdNegs(7)];
    for n in [1u8, 2, 3, 5, 7, 11, 13, 17, 19, 23, 24] {
        v.push(Elem::Nops(n));
    }
    v
}

pub fn programs(quick: bool) -> Vec<Program> {
    let es = elems();
    let mut bodies: Vec<Vec<Elem>> = Vec::new();
    for a in es.iter() {
        bodies.push(vec![a.clone()]);
        for b in es.iter() {
            bodies.push(vec![a.clone(), b.clone()]);
            if !quick {
                for c in es.iter() {
                    bodies.push(vec![a.clone(), b.clone(), c.clone()]);
                }
            }
        }
    }
    let mut out = Vec::new();
    for (k, body) in bodies.into_iter().enumerate() {
        // configurations rotate deterministically over the bodies in quick, full product in thorough
        let cfgs: Vec<(bool, bool, u8, bool, bool)> = if quick {
            let loops = [1u8, 6, 255][k % 3];
            vec![(k % 2 == 0, k % 4 < 2, loops, true, true), (k % 2 == 1, k % 4 >= 2, [6u8, 255, 1][k % 3], k % 5 != 0, k % 7 != 0)]
        } else {
            let mut v = Vec::new();
            for cc in [false, true] {
                for loops in [1u8, 6, 255] {
                    v.push((cc, !cc, loops, true, true));
                    v.push((cc, cc, loops, k % 2 == 0, true));
                }
            }
            v.push((false, true, 6, true, false));
            v
        };
        for (cc, dc, loops, im2, ei) in cfgs {
            out.push(Program { body: body.clone(), code_contended: cc, data_contended: dc, handler_loops: loops, im2, start_ei: ei });
        }
    }
    out
}

/// (c) emulate_frames(FrameCount(n)) returns after exactly n frame wraps
fn frame_count_calls(ctx: &Ctx) {
    for m128 in [false, true] {
        for n in 1..=4usize {
            let mut o = opts(m128);
            o.mode = rustzx_core::EmulationMode::FrameCount(n);
            let mut e = rig::emu(&o);
            let mut total = 0u64;
            for call in 0..5 {
                let before = e.verif_total_frames();
                let _ = e.emulate_frames(Duration::from_secs(1000));
                let after = e.verif_total_frames();
                total += after - before;
                ctx.add_eval(1);
                if after - before != n as u64 {
                    ctx.violation(
                        "C05:frame-count-call",
                        &format!("emulate_frames with FrameCount({}) emulated {} frames (call {})", n, after - before, call),
                        json!({"kind":"frame-count","m128":m128,"n":n}),
                    );
                }
                let fc = e.verif_frame_clocks() as u64;
                if fc >= 64 {
                    ctx.violation(
                        "C05:frame-count-call:overrun",
                        &format!("after emulate_frames the in-frame offset is {} T (should be the overrun of one instruction)", fc),
                        json!({"kind":"frame-count","m128":m128,"n":n}),
                    );
                }
            }
            ctx.outcome(crate::vcore::fnv(&[m128 as u8, n as u8, total as u8]));
        }
    }
}

pub fn run(tier: Tier, seed: u64, replay: Option<String>) -> i32 {
    let ctx = Ctx::new("C05", tier, seed, "model_checking");
    let quick = !tier.is_thorough();
    if let Some(path) = replay {
        let v: serde_json::Value = serde_json::from_slice(&rig::read_file(&path)).expect("replay json");
        let c = &v["case"];
        if c["kind"] == "program" {
            let progs = programs(false);
            let want = c["body"].as_str().unwrap_or("").to_string();
            for p in progs.iter() {
                if format!("{:?}", p.body) == want
                    && p.code_contended == c["code_contended"].as_bool().unwrap_or(false)
                    && p.data_contended == c["data_contended"].as_bool().unwrap_or(false)
                    && p.handler_loops as u64 == c["handler_loops"].as_u64().unwrap_or(0)
                    && p.im2 == c["im2"].as_bool().unwrap_or(true)
                    && p.start_ei == c["start_ei"].as_bool().unwrap_or(true)
                {
                    run_program(&ctx, c["m128"].as_bool().unwrap_or(false), p, c["frames"].as_u64().unwrap_or(8), true);
                    break;
                }
            }
        } else if c["kind"] == "int-window-overrun" {
            int_window_after_overrun(&ctx, c["m128"].as_bool().unwrap_or(false));
        } else if c["kind"] == "int-level-reentry" {
            int_level_reentry(&ctx, c["m128"].as_bool().unwrap_or(false));
        } else if c["kind"] == "int-window" {
            int_window(&ctx, c["m128"].as_bool().unwrap_or(false));
        } else {
            frame_count_calls(&ctx);
        }
        let n = ctx.violation_classes();
        println!("replay: {} violation class(es) reproduced", n);
        return (n > 0) as i32;
    }
    if let Err(e) = crate::oracle::require_valid() {
        eprintln!("MACHINERY: reference model not validated: {}", e);
        return 2;
    }
    int_window(&ctx, false);
    int_window(&ctx, true);
    int_window_after_overrun(&ctx, false);
    int_window_after_overrun(&ctx, true);
    int_level_reentry(&ctx, false);
    int_level_reentry(&ctx, true);
    let progs = programs(quick);
    let frames = if quick { 6 } else { 40 };
    let jobs: Vec<(bool, usize)> = (0..progs.len()).flat_map(|i| [(false, i), (true, i)]).collect();
    par_for(jobs.len(), 1, |j| {
        let (m128, i) = jobs[j];
        // the reference machine has a fixed memory map: on the 128K the ROM's own IM 1 handler pages
        // memory (7FFD), which RefMachine does not model, so 128K programs use the IM 2 handler only
        if m128 && !progs[i].im2 && progs[i].start_ei {
            return;
        }
        if m128 && !progs[i].im2 && progs[i].body.iter().any(|e| matches!(e, Elem::Ei)) {
            return;
        }
        let n = run_program(&ctx, m128, &progs[i], frames, false);
        ctx.add_transitions(n);
        ctx.add_traces(1);
        ctx.add_states(n);
    });
    frame_count_calls(&ctx);
    ctx.note("programs", json!(progs.len() * 2));
    ctx.note("frames_per_program", json!(frames));
    ctx.sample(json!({"program": format!("{:?}", progs[progs.len() / 2])}));
    ctx.finish(
        "(a) every T of the frame x both machines x running/halted: an enabled interrupt is accepted at that boundary iff T < 32, pushed address checked; (a') the same after a frame end reached by real execution: 4/13/23-T instructions straddling the frame end with every overrun 0..22, followed by fillers that put the first interrupt-enabled boundary on every T up to about 60, lock step with RefMachine; (a'') the pulse is a level, not a request dropped by the acknowledge: handlers `EI; k NOPs; RET` (k=0..5) in IM 2 (and IM 0 on the 48K) with interrupts enabled at every T of 0..35, free running for 16 instructions in lock step (a handler that re-enables interrupts inside the pulse is re-entered); (b) all loop bodies of <=2 (quick) / <=3 (thorough) elements over {HALT, LDIR, 23-T indexed op, EI, DI, OUT (FE), a sled of undocumented ED NOPs, NOP sleds of 11 lengths}, code and data in contended or uncontended RAM, IM 2 handler of ~40/100/3400 T that counts interrupts, run for whole frames on the real Emulator (clock never placed) and on RefZ80+RefULA, comparing (absolute T, PC, SP) after every instruction, interrupt counter at the end; (c) emulate_frames(FrameCount(n)) emulates exactly n frames, n=1..4. states = instruction boundaries compared",
        true,
        &["absolute T of the implementation = total_frames (hook counter incremented in new_frame) x frame length + frame clock", "RefULA from the property text, RefZ80 validated"],
    )
}
