pub fn run() {
    std::panic::set_hook(Box::new(|i| { println!("PANIC at {:?}: {}", i.location(), i); }));
    let mut d = crate::rig::read_file("/repo/vtx/src/test/secret.vtx");
    d[75] = 0;
    let r = std::panic::catch_unwind(|| vtx::Vtx::load(std::io::Cursor::new(d)).is_ok());
    println!("{:?}", r.is_ok());
}
