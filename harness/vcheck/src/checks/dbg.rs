use crate::formats::*;
use crate::rig::{self, VAsset};
use rustzx_core::host::Snapshot;
pub fn run() {
    for m128 in [false, true] {
        let s = crate::checks::c14::state(m128, 4);
        let mut out = Vec::new();
        for k in 0..2 {
            let mut e = crate::checks::c13::machine(m128);
            if k == 0 {
                let f = if m128 { sna128(&s) } else { sna48(&s) };
                e.load_snapshot(Snapshot::Sna(VAsset::new(f))).ok().unwrap();
            } else {
                e.load_snapshot(Snapshot::Szx(VAsset::new(szx(&s, &SzxOpts::default())))).ok().unwrap();
            }
            let f0 = e.verif_total_frames();
            while e.verif_total_frames() < f0 + 3 { rig::step(&mut e); }
            out.push((rig::regs_view(e.verif_cpu()), crate::checks::c13::all_ram(&e, m128), rig::canvas(&e).pix.clone(), rig::border(&e).pix.clone()));
        }
        println!("m128={} regs equal {} ; {:x?} / {:x?}", m128, out[0].0 == out[1].0, out[0].0, out[1].0);
        for b in 0..out[0].1.len() { if out[0].1[b] != out[1].1[b] { let o=(0..16384).find(|o| out[0].1[b][*o]!=out[1].1[b][*o]).unwrap(); println!("  ram page {} differs at {:04x}: {:02x} vs {:02x}", b, o, out[0].1[b][o], out[1].1[b][o]); } }
        println!("  canvas equal {} border equal {}", out[0].2 == out[1].2, out[0].3 == out[1].3);
        if out[0].3 != out[1].3 { let i=(0..out[0].3.len()).find(|i| out[0].3[*i]!=out[1].3[*i]).unwrap(); println!("   border first diff at ({}, {}) {} vs {}", i%320, i/320, out[0].3[i], out[1].3[i]); }
    }
}
