//! C11 — a playing tape presents each TAP block as the standard loader waveform.
//!
//! Component level: explicit-state search over EVERY partition of elapsed time into
//! `process_clocks(s)` steps, s in 0..=16, on the real `Tap`, decomposed at the reload events of
//! the state machine (where all paths provably converge — the convergence is re-checked on every
//! exit transition, not assumed). RefTape's independent decoder judges the pulse sequence.
//! System level (ROM loader in real time vs fast load) lives in `c10.rs::realtime_vs_fast`.

use crate::rig::{self, AssetData};
use crate::tapemodel::*;
use crate::vcore::{fnv, par_for, Ctx, Tier};
use rustzx_core::verif::TapeImpl;
use serde_json::json;
use std::collections::{BTreeSet, HashSet, VecDeque};
use std::sync::Mutex;

pub const MAX_STEP: usize = 16;

fn norm(t: &RTap) -> TapKey {
    let mut k = tap_key(t);
    k.st.delay = 0;
    k
}

struct SegOut {
    states: u64,
    transitions: u64,
    /// `since` values at a non-flipping exit (carried into the next segment)
    exit_since: BTreeSet<u64>,
    min_dur: u64,
    max_dur: u64,
}

/// What RefTape expects for the pulse that ends at reload `k+1` (None: not an edge there)
struct Expect {
    kind: Option<PulseKind>,
}

fn pulse_bounds(kind: PulseKind) -> (u64, u64) {
    match kind {
        PulseKind::Silence => (PAUSE_MIN, PAUSE_MAX + PILOT + 2 * TOL),
        k => (nominal(k), nominal(k) + TOL),
    }
}

#[allow(clippy::too_many_arguments)]
fn explore_segment(
    ctx: &Ctx,
    tape_name: &str,
    init_tap: &RTap,
    init_since: &[u64],
    next_entry: Option<&RTap>,
    expect: &Expect,
    seg_index: usize,
    blocks_json: &serde_json::Value,
) -> SegOut {
    let entry_norm = norm(init_tap);
    let next_key = next_entry.map(tap_key);
    let mut seen: HashSet<(usize, u64)> = HashSet::new();
    let mut q: VecDeque<(RTap, u64)> = VecDeque::new();
    for s in init_since {
        if seen.insert((init_tap.verif_state().delay, *s)) {
            q.push_back((init_tap.clone(), *s));
        }
    }
    let mut out = SegOut {
        states: seen.len() as u64,
        transitions: 0,
        exit_since: BTreeSet::new(),
        min_dur: u64::MAX,
        max_dur: 0,
    };
    let replay = |since: u64, delay: usize, s: usize| {
        json!({"kind":"segment","tape":tape_name,"blocks":blocks_json,"segment":seg_index,"delay":delay,"since":since,"step":s})
    };
    while let Some((tap, since)) = q.pop_front() {
        let st = tap.verif_state();
        let bit0 = tap.current_bit();
        for s in 0..=MAX_STEP {
            let mut n = tap.clone();
            out.transitions += 1;
            if let Err(e) = n.process_clocks(s) {
                ctx.violation(
                    "C11:process_clocks-error",
                    &format!("tape {}: process_clocks({}) returned {:?} in segment {}", tape_name, s, e, seg_index),
                    replay(since, st.delay, s),
                );
                continue;
            }
            let dur = since + s as u64;
            if st.delay == 0 {
                // reload event: the call that runs the state machine
                let flipped = n.current_bit() != bit0;
                match &next_key {
                    Some(nk) => {
                        if tap_key(&n) != *nk {
                            ctx.violation(
                                "C11:partition-dependent-state",
                                &format!(
                                    "tape {}: after reload #{} the tape state depends on the step partition (since={}, step={}): {:?} vs pre-pass {:?}",
                                    tape_name, seg_index + 1, since, s, tap_key(&n).st, nk.st
                                ),
                                replay(since, st.delay, s),
                            );
                        }
                    }
                    None => {}
                }
                if flipped {
                    out.min_dur = out.min_dur.min(dur);
                    out.max_dur = out.max_dur.max(dur);
                    match expect.kind {
                        Some(kind) => {
                            let (lo, hi) = pulse_bounds(kind);
                            if dur < lo {
                                ctx.violation(
                                    &format!("C11:pulse-too-short:{:?}", kind),
                                    &format!("tape {}: {:?} pulse ending at reload #{} lasts {} T < nominal {} (last step {})", tape_name, kind, seg_index + 1, dur, lo, s),
                                    replay(since, st.delay, s),
                                );
                            } else if dur > hi {
                                ctx.violation(
                                    &format!("C11:pulse-too-long:{:?}", kind),
                                    &format!("tape {}: {:?} pulse ending at reload #{} lasts {} T > nominal+32 = {} (last step {})", tape_name, kind, seg_index + 1, dur, hi, s),
                                    replay(since, st.delay, s),
                                );
                            }
                        }
                        None => {
                            ctx.violation(
                                "C11:edge-not-in-prepass",
                                &format!("tape {}: an edge appears at reload #{} under some partition but not in the 16-step pre-pass", tape_name, seg_index + 1),
                                replay(since, st.delay, s),
                            );
                        }
                    }
                } else {
                    if expect.kind.is_some() {
                        ctx.violation(
                            "C11:edge-missing",
                            &format!("tape {}: the edge at reload #{} is missing under some partition (since={}, step={})", tape_name, seg_index + 1, since, s),
                            replay(since, st.delay, s),
                        );
                    }
                    out.exit_since.insert(dur);
                }
            } else {
                if n.current_bit() != bit0 {
                    ctx.violation(
                        "C11:edge-before-delay-elapsed",
                        &format!("tape {}: EAR level changed while {} T of the pulse were still pending (segment {})", tape_name, st.delay, seg_index),
                        replay(since, st.delay, s),
                    );
                    continue;
                }
                if norm(&n) != entry_norm {
                    ctx.violation(
                        "C11:state-changed-inside-pulse",
                        &format!("tape {}: tape state other than the countdown changed inside a pulse (segment {}, delay {}, step {})", tape_name, seg_index, st.delay, s),
                        replay(since, st.delay, s),
                    );
                    continue;
                }
                let d2 = n.verif_state().delay;
                if seen.insert((d2, dur)) {
                    out.states += 1;
                    q.push_back((n, dur));
                }
            }
        }
    }
    out
}

pub fn check_tape(ctx: &Ctx, name: &str, blocks: &[Vec<u8>]) {
    let image = AssetData::Static(Box::leak(tap_image(blocks).into_boxed_slice()));
    let blocks_json = json!(blocks.iter().map(|b| crate::vcore::hex(b)).collect::<Vec<_>>());
    let total_nominal: u64 = blocks.iter().map(|b| 8063 * PILOT + b.len() as u64 * 16 * ONE + 2 * SECOND).sum::<u64>() + SECOND;
    let chain = match build_chain(&image, MAX_STEP, total_nominal * 2) {
        Ok(c) => c,
        Err(e) => {
            ctx.violation("C11:prepass-error", &format!("tape {}: {}", name, e), json!({"kind":"prepass","tape":name,"blocks":blocks_json}));
            return;
        }
    };
    if !chain.ended {
        ctx.violation(
            "C11:tape-never-ends",
            &format!("tape {}: deck still playing after {} T (twice the nominal tape length)", name, total_nominal * 2),
            json!({"kind":"prepass","tape":name,"blocks":blocks_json}),
        );
        return;
    }
    // ---- structure oracle: RefTape decoder on the observed pulse list
    let dec = match decode(&chain.pulses, true) {
        Ok(d) => d,
        Err(e) => {
            ctx.violation(
                "C11:waveform:non-standard-pulse-sequence",
                &format!("tape {}: {}", name, e),
                json!({"kind":"prepass","tape":name,"blocks":blocks_json}),
            );
            return;
        }
    };
    if dec.blocks != blocks {
        let got: Vec<String> = dec.blocks.iter().map(|b| crate::vcore::hex(b)).collect();
        ctx.violation(
            "C11:waveform:decoded-blocks-differ",
            &format!("tape {}: decoded blocks {:?} differ from the TAP image blocks {}", name, got, blocks_json),
            json!({"kind":"prepass","tape":name,"blocks":blocks_json}),
        );
        return;
    }
    for (b, n) in blocks.iter().zip(dec.pilot_counts.iter()) {
        if !pilot_ok(b[0], *n) {
            ctx.violation(
                &format!("C11:waveform:pilot-count:flag{:02x}", if b[0] == 0 { 0 } else { 0xff }),
                &format!("tape {}: block with flag {:02x} has {} pilot pulses", name, b[0], n),
                json!({"kind":"prepass","tape":name,"blocks":blocks_json}),
            );
        }
    }
    // every block followed by a silence (the decoder closes blocks only at a silence or the open end)
    ctx.outcome(fnv(&chain.pulses.iter().flat_map(|p| p.to_le_bytes()).collect::<Vec<u8>>()));
    ctx.sample(json!({"tape":name,"blocks":blocks_json,"reload_events":chain.reloads.len(),"pulses":chain.pulses.len(),
        "first_pulses":chain.pulses.iter().take(6).collect::<Vec<_>>()}));

    // ---- map reloads to pulses: reload j (flipped, not the first edge) ends pulse p
    let mut ends_pulse: Vec<Option<usize>> = Vec::with_capacity(chain.reloads.len());
    let mut edges = 0usize;
    for r in chain.reloads.iter() {
        if r.flipped {
            ends_pulse.push(if edges == 0 { None } else { Some(edges - 1) });
            edges += 1;
        } else {
            ends_pulse.push(None);
        }
    }
    // segment -1: from play() to reload 0
    {
        let mut t0 = new_tap(&image);
        t0.play();
        let exp = Expect { kind: None };
        // first reload: an edge with no preceding pulse is fine -> treat expectations manually
        let bit0 = t0.current_bit();
        for s in 0..=MAX_STEP {
            let mut n = t0.clone();
            let _ = n.process_clocks(s);
            ctx.add_transitions(1);
            if tap_key(&n) != tap_key(&chain.reloads[0].entry) {
                ctx.violation(
                    "C11:partition-dependent-state",
                    &format!("tape {}: state after the first call depends on its length {}", name, s),
                    json!({"kind":"first","tape":name,"blocks":blocks_json,"step":s}),
                );
            }
            let _ = (bit0, &exp);
        }
        ctx.add_states(1);
    }
    // ---- all segments, in waves (a segment entered by a non-flipping reload inherits the exit
    //      `since` set of its predecessor)
    let n = chain.reloads.len();
    let init_since: Vec<Mutex<Option<Vec<u64>>>> = (0..n)
        .map(|k| Mutex::new(if chain.reloads[k].flipped { Some(vec![0]) } else { None }))
        .collect();
    let done: Vec<Mutex<bool>> = (0..n).map(|_| Mutex::new(false)).collect();
    let durs: Mutex<BTreeSet<(u8, u64)>> = Mutex::new(BTreeSet::new());
    loop {
        let ready: Vec<usize> = (0..n.saturating_sub(1))
            .filter(|k| !*done[*k].lock().unwrap() && init_since[*k].lock().unwrap().is_some())
            .collect();
        if ready.is_empty() {
            break;
        }
        // longest segments first so the 1 s pauses start early
        let mut ready = ready;
        ready.sort_by_key(|k| std::cmp::Reverse(chain.reloads[*k].delay));
        par_for(ready.len(), 1, |i| {
            let k = ready[i];
            let init = init_since[k].lock().unwrap().clone().unwrap();
            let kind = ends_pulse[k + 1].map(|p| dec.kinds[p]);
            // the very first edge after a non-flipping start has no pulse index; a flip at k+1 with
            // ends_pulse None can only be the first edge of the tape, which reload 0 already is
            let out = explore_segment(
                ctx,
                name,
                &chain.reloads[k].entry,
                &init,
                Some(&chain.reloads[k + 1].entry),
                &Expect { kind: if chain.reloads[k + 1].flipped { kind } else { None } },
                k,
                &blocks_json,
            );
            ctx.add_states(out.states);
            ctx.add_transitions(out.transitions);
            ctx.add_traces(out.transitions);
            if out.max_dur > 0 {
                if let Some(kd) = kind {
                    let mut g = durs.lock().unwrap();
                    g.insert((kd as u8, out.min_dur));
                    g.insert((kd as u8, out.max_dur));
                }
            }
            if !chain.reloads[k + 1].flipped {
                *init_since[k + 1].lock().unwrap() = Some(out.exit_since.iter().copied().collect());
            }
            *done[k].lock().unwrap() = true;
        });
    }
    let unexplored = (0..n.saturating_sub(1)).filter(|k| !*done[*k].lock().unwrap()).count();
    if unexplored > 0 {
        eprintln!("MACHINERY: {} tape segments were never entered", unexplored);
        std::process::exit(2);
    }
    for (k, d) in durs.into_inner().unwrap() {
        ctx.outcome(fnv(&[k]) ^ d);
    }
}

/// Machine level: the tape must advance with *all* emulated time, whatever bus cycles the CPU
/// executes. Polling/idle programs placed in contended and uncontended RAM (taken JR, DJNZ, 16-bit
/// INC with I pointing into contended RAM, LDIR over contended RAM, OUTs to contended ports) run
/// while the tape plays; the EAR level is sampled after every instruction and every pulse, as
/// well as the running total, must stay inside nominal .. nominal+32 (+ one instruction of
/// observation granularity).
pub fn machine_level(ctx: &Ctx) {
    use crate::rig::{Opts, RegsView};
    let programs: Vec<(&str, u16, Vec<u8>, u8)> = vec![
        ("jr-self@8000", 0x8000, vec![0x18, 0xFE], 0x3F),
        ("jr-self@6000", 0x6000, vec![0x18, 0xFE], 0x3F),
        ("djnz+inc-bc,I=60@6000", 0x6000, vec![0x03, 0x0B, 0x10, 0xFC, 0x18, 0xFA], 0x60),
        ("add-hl+push-pop,I=7F@8000", 0x8000, vec![0x09, 0xE5, 0xE1, 0x18, 0xFB], 0x7F),
        ("ldir-contended@8000", 0x8000, vec![0x21, 0x00, 0x60, 0x11, 0x00, 0x70, 0x01, 0x40, 0x00, 0xED, 0xB0, 0x18, 0xF3], 0x3F),
        ("in-out-contended-ports@6000", 0x6000, vec![0x01, 0xFF, 0x7F, 0xED, 0x78, 0xED, 0x79, 0x01, 0xFE, 0x40, 0xED, 0x78, 0x18, 0xF2], 0x3F),
        ("indexed@6000", 0x6000, vec![0xDD, 0x21, 0x00, 0x61, 0xDD, 0x34, 0x05, 0xDD, 0xCB, 0x05, 0x06, 0x18, 0xF5], 0x3F),
        // a CPU waiting in HALT (interrupts off: it stays there) in uncontended and in contended RAM
        ("di-halt@8000", 0x8000, vec![0xF3, 0x76], 0x3F),
        ("di-halt@6000", 0x6000, vec![0xF3, 0x76], 0x3F),
    ];
    let jobs: Vec<(bool, usize)> = [false, true].iter().flat_map(|m| (0..programs.len()).map(move |i| (*m, i))).collect();
    par_for(jobs.len(), 1, |j| {
        let (m128, pi) = jobs[j];
        let (name, org, code, ireg) = &programs[pi];
        let mut o = Opts::machine(m128);
        o.sound = false;
        let mut e = rig::emu_stepping(&o);
        rig::poke(&mut e, *org, code);
        let mut r = RegsView::default();
        r.pc = *org;
        r.sp = 0xBF00;
        r.i = *ireg;
        r.bc = 0x2000;
        rig::set_regs(e.verif_cpu(), &r);
        let blocks = vec![std_block(0xFF, &[0xA5, 0x3C])];
        if e.load_tape(rustzx_core::host::Tape::Tap(rig::VAsset::new(tap_image(&blocks)))).is_err() {
            return;
        }
        e.play_tape();
        let mut last_edge: Option<u64> = None;
        let mut level = e.verif_tape_state().map(|s| s.curr_bit).unwrap_or(false);
        let mut pulses: Vec<u64> = Vec::new();
        let mut max_instr = 0u64;
        let mut prev_t = rig::abs_t(&e, m128);
        let limit = 3223 * 2200 + 40 * 1800 + 200_000;
        let t0 = prev_t;
        while rig::abs_t(&e, m128) - t0 < limit {
            rig::step(&mut e);
            let t = rig::abs_t(&e, m128);
            max_instr = max_instr.max(t - prev_t);
            prev_t = t;
            let l = e.verif_tape_state().map(|s| s.curr_bit).unwrap_or(false);
            if l != level {
                level = l;
                if let Some(le) = last_edge {
                    pulses.push(t - le);
                }
                last_edge = Some(t);
            }
        }
        ctx.add_traces(1);
        let case = json!({"kind":"machine","m128":m128,"program":name});
        let mname = if m128 { "128k" } else { "48k" };
        // every pulse, with one instruction of observation granularity on each side
        let mut total_nominal = 0u64;
        let mut total = 0u64;
        for (k, p) in pulses.iter().enumerate() {
            let kind = [PulseKind::Pilot, PulseKind::Sync1, PulseKind::Sync2, PulseKind::Zero, PulseKind::One]
                .iter()
                .copied()
                .filter(|kd| *p + max_instr >= nominal(*kd) && *p <= nominal(*kd) + TOL + max_instr)
                .min_by_key(|kd| (nominal(*kd) as i64 - *p as i64).abs());
            match kind {
                Some(kd) => {
                    total_nominal += nominal(kd);
                    total += *p;
                }
                None => {
                    ctx.violation(
                        &format!("C11:machine-level:non-standard-pulse:{}", mname),
                        &format!("{} machine running [{}] while the tape plays: pulse #{} lasts {} T as seen by the CPU (longest instruction {} T); not a standard pulse within nominal..nominal+32", mname, name, k, p, max_instr),
                        case.clone(),
                    );
                    return;
                }
            }
        }
        // cumulative: the tape may never lag or lead emulated time by more than the per-pulse allowance
        let n = pulses.len() as u64;
        if n < 3000 {
            ctx.violation(&format!("C11:machine-level:too-few-pulses:{}", mname), &format!("[{}]: only {} pulses in {} T", name, n, limit), case.clone());
            return;
        }
        if total + max_instr < total_nominal || total > total_nominal + n * TOL + max_instr {
            ctx.violation(
                &format!("C11:machine-level:tape-time-drifts:{}", mname),
                &format!("{} machine running [{}]: {} pulses took {} T of emulated time, nominal {} T, allowed up to {} T", mname, name, n, total, total_nominal, total_nominal + n * TOL),
                case,
            );
            return;
        }
        ctx.outcome(fnv(name.as_bytes()) ^ (total - total_nominal));
    });
    ctx.note("machine_level_programs", json!(programs.iter().map(|p| p.0).collect::<Vec<_>>()));
}

/// The ROM loader served by a playing deck, request after request without a gap (each issued while
/// the deck is between blocks), on machines with fast loading disabled and enabled: a playing deck
/// is never short-cut, every block passes over EAR as one burst of pilot + sync + data pulses and
/// lands in memory.
pub fn rom_loader_between_blocks(ctx: &Ctx) {
    use crate::rig::{Opts, RegsView};
    const RET: u16 = 0x8F00;
    const STACK: u16 = 0xBF00;
    let jobs: Vec<(bool, bool)> = vec![(false, false), (false, true), (true, false), (true, true)];
    par_for(jobs.len(), 1, |j| {
        let (m128, fastload) = jobs[j];
        let mut o = Opts::machine(m128);
        o.sound = false;
        o.fastload = fastload;
        let mut e = rig::emu_stepping(&o);
        if m128 {
            rig::cpu_out(&mut e, 0x8000, 0x7FFD, 0x10);
        }
        let payloads: Vec<Vec<u8>> = vec![vec![0x11, 0x22, 0x33, 0x44, 0x55], vec![0xA5, 0x3C, 0x00], vec![0xFF, 0x01]];
        let blocks: Vec<Vec<u8>> = payloads.iter().map(|p| std_block(0xFF, p)).collect();
        if e.load_tape(rustzx_core::host::Tape::Tap(rig::VAsset::new(tap_image(&blocks)))).is_err() {
            return;
        }
        // the ROM returns with interrupts enabled: DI; JR $ keeps the machine where it is afterwards
        rig::poke(&mut e, RET, &[0xF3, 0x18, 0xFE]);
        let issue = |e: &mut rig::Emu, k: usize| {
            let mut v = RegsView::default();
            v.pc = 0x0556;
            v.sp = STACK;
            v.af = 0xFF01;
            v.ix = 0x9000 + 0x100 * k as u16;
            v.de = payloads[k].len() as u16;
            v.im = 1;
            v.i = 0x3F;
            rig::set_regs(e.verif_cpu(), &v);
            rig::poke(e, STACK, &[RET as u8, (RET >> 8) as u8]);
        };
        e.play_tape();
        issue(&mut e, 0);
        let mut served = 0usize;
        let mut level = e.verif_tape_state().map(|s| s.curr_bit).unwrap_or(false);
        let mut edges: Vec<u64> = Vec::new();
        let t0 = rig::abs_t(&e, m128);
        let horizon = 3 * (3223 * 2200 + 16 * 8 * 1800 + 4_000_000) as u64;
        let mut carries: Vec<bool> = Vec::new();
        let mut done_at: Option<u64> = None;
        loop {
            rig::step(&mut e);
            let t = rig::abs_t(&e, m128) - t0;
            let l = e.verif_tape_state().map(|s| s.curr_bit).unwrap_or(false);
            if l != level {
                level = l;
                edges.push(t);
            }
            if served < 3 && e.verif_cpu().regs.get_pc() == RET {
                carries.push(rig::regs_view(e.verif_cpu()).af & 1 != 0);
                served += 1;
                if served < 3 {
                    issue(&mut e, served);
                } else {
                    done_at = Some(t);
                }
            }
            // the deck is listened to for 1.2 s after the last request returned
            if t > horizon || done_at.map_or(false, |d| t > d + 4_200_000) {
                break;
            }
        }
        ctx.add_traces(1);
        ctx.add_eval(3);
        let mname = format!("{}{}", if m128 { "128k" } else { "48k" }, if fastload { "+fastload-enabled" } else { "" });
        let case = json!({"kind":"rom-loader-between-blocks","m128":m128,"fastload":fastload});
        // bursts of edges separated by more than 100000 T
        let mut bursts: Vec<usize> = Vec::new();
        let mut last: Option<u64> = None;
        for t in edges.iter() {
            match last {
                Some(p) if t - p <= 100_000 => *bursts.last_mut().unwrap() += 1,
                _ => bursts.push(1),
            }
            last = Some(*t);
        }
        // a burst of n+1 edges holds n pulses; the edge ending the pause may stand alone or open the next burst
        let bursts: Vec<usize> = bursts.into_iter().filter(|n| *n > 4).collect();
        let want: Vec<usize> = blocks.iter().map(|b| 3223 + 2 + 16 * b.len()).collect();
        let ok_bursts = bursts.len() == want.len() && bursts.iter().zip(want.iter()).all(|(g, w)| *g + 3 >= *w && *g <= *w + 4);
        if !ok_bursts {
            ctx.violation(
                &format!("C11:rom-loader-between-blocks:ear-bursts:{}", mname),
                &format!("{}: deck playing a tape of 3 blocks while the ROM loader is called three times back to back: EAR carried bursts of {:?} edges, the blocks are {:?} pulses long", mname, bursts, want),
                case.clone(),
            );
            return;
        }
        for k in 0..3 {
            let got: Vec<u8> = (0..payloads[k].len()).map(|i| e.peek(0x9000 + 0x100 * k as u16 + i as u16)).collect();
            if served <= k || !carries[k] || got != payloads[k] {
                ctx.violation(
                    &format!("C11:rom-loader-between-blocks:load:{}", mname),
                    &format!("{}: request #{} of three back-to-back ROM loader calls against a playing deck: returned={} carry={:?} memory {:02x?}, the block holds {:02x?}", mname, k, served > k, carries.get(k), got, payloads[k]),
                    case.clone(),
                );
                return;
            }
        }
        ctx.outcome(fnv(mname.as_bytes()) ^ edges.len() as u64);
    });
}

/// Block-size family: the tape reads its file through a 128-byte window; every relation of a
/// block's total size to that window (1, 2, 127..130, 255..258, 383..385, 512) as first and as second
/// block. Fixed 16-T steps (the step-partition search above covers the time axis on the named tapes), each
/// tape once through an asset delivering whole reads and once through one that returns at most
/// 1/2/3/31/32/127 bytes per call:
/// the complete waveform must decode strictly to exactly the blocks.
pub fn size_family(ctx: &Ctx, thorough: bool) {
    let firsts: Vec<usize> = if thorough { vec![1, 2, 127, 128, 129, 255, 256, 257, 384] } else { vec![1, 128, 129, 256] };
    let seconds: Vec<usize> = vec![1, 2, 127, 128, 129, 130, 255, 256, 257, 258, 383, 384, 385, 512];
    let jobs: Vec<(usize, usize)> = firsts.iter().flat_map(|a| seconds.iter().map(move |b| (*a, *b))).collect();
    par_for(jobs.len(), 2, |j| {
        let (a, b) = jobs[j];
        let mk = |n: usize, salt: usize| -> Vec<u8> { (0..n).map(|i| if i == 0 { 0xFF } else { (i * 7 + salt * 13 + 3) as u8 }).collect() };
        let blocks = vec![mk(a, 1), mk(b, 2)];
        let image = AssetData::Static(Box::leak(tap_image(&blocks).into_boxed_slice()));
        let total: u64 = blocks.iter().map(|x| 8063 * PILOT + x.len() as u64 * 16 * ONE + 2 * SECOND).sum::<u64>() + SECOND;
        // once through an asset that delivers whole reads, once through one that never returns more
        // than a few bytes per call (a block header or a buffer refill then arrives in pieces)
        let chunk = [1usize, 2, 3, 31, 32, 127][(a + b + j) % 6];
        for ch in [0usize, chunk] {
        let case = json!({"kind":"prepass","tape":format!("sizes-{}-{}", a, b),"chunk":ch,"blocks":blocks.iter().map(|x| crate::vcore::hex(x)).collect::<Vec<_>>()});
        ctx.add_traces(1);
        let chain = new_tap_chunked(&image, ch).and_then(|t| build_chain_from(t, &image, 16, total * 2));
        let via = if ch == 0 { String::new() } else { format!(" (asset returns at most {} byte(s) per read)", ch) };
        match chain {
            Ok(c) if c.ended => match decode(&c.pulses, true) {
                Ok(d) if d.blocks == blocks => ctx.outcome(0x512E_0000 ^ (a as u64) << 12 ^ b as u64),
                Ok(d) => ctx.violation(
                    &format!("C11:block-sizes:decoded-blocks-differ:{}{}", if b % 128 == 0 || a % 128 == 0 { "multiple-of-128" } else { "other" }, if ch == 0 { "" } else { ":short-reads" }),
                    &format!("tape with blocks of {} and {} bytes{}: the played waveform decodes to {} block(s) of lengths {:?}; first difference in block {:?}", a, b, via, d.blocks.len(), d.blocks.iter().map(|x| x.len()).collect::<Vec<_>>(), d.blocks.iter().zip(blocks.iter()).position(|(x, y)| x != y)),
                    case,
                ),
                Err(e) => ctx.violation("C11:block-sizes:undecodable", &format!("tape with blocks of {} and {} bytes{}: {}", a, b, via, e), case),
            },
            Ok(_) => ctx.violation("C11:block-sizes:never-ends", &format!("tape with blocks of {} and {} bytes{} does not stop by itself within twice its nominal duration", a, b, via), case),
            Err(e) => ctx.violation("C11:block-sizes:error", &format!("tape with blocks of {} and {} bytes{}: {}", a, b, via, e), case),
        }
        }
    });
    ctx.note("block_size_family", json!({"first": firsts, "second": seconds}));
}

/// The EAR input is bit 6 of EVERY even port, whatever the high address byte selects: while the tape
/// plays, at the first edges of the pilot (both levels) an `IN A,(C)` from 256 high bytes x low bytes
/// {FE, 00, 7E, FC} must show the tape level in bit 6.
pub fn ear_on_every_even_port(ctx: &Ctx) {
    use crate::rig::{Opts, RegsView};
    for m128 in [false, true] {
        let mut o = Opts::machine(m128);
        o.sound = false;
        let mut e = rig::emu_stepping(&o);
        rig::poke(&mut e, 0x8000, &[0x18, 0xFE]);
        let mut r = RegsView::default();
        r.pc = 0x8000;
        r.sp = 0xBF00;
        rig::set_regs(e.verif_cpu(), &r);
        let blocks = vec![std_block(0xFF, &[0xA5])];
        if e.load_tape(rustzx_core::host::Tape::Tap(rig::VAsset::new(tap_image(&blocks)))).is_err() {
            return;
        }
        e.play_tape();
        let level = |e: &rig::Emu| e.verif_tape_state().map(|s| s.curr_bit).unwrap_or(false);
        let mut seen = [0u64; 2];
        let mut lows = [0xFEu8, 0x00, 0x7E, 0xFC].iter().cycle();
        'edges: for _ in 0..8 {
            // run to the next edge
            let l0 = level(&e);
            let mut guard = 0;
            while level(&e) == l0 {
                e.verif_cpu().regs.set_pc(0x8000);
                rig::step(&mut e);
                guard += 1;
                if guard > 100_000 {
                    break 'edges;
                }
            }
            let low = *lows.next().unwrap();
            for h in 0..=255u16 {
                let port = h << 8 | low as u16;
                let before = level(&e);
                let v = rig::cpu_in(&mut e, 0x8100, port);
                let after = level(&e);
                if before != after {
                    continue; // an edge fell into the read
                }
                seen[before as usize] += 1;
                ctx.add_eval(1);
                if (v & 0x40 != 0) != before {
                    ctx.violation(
                        &format!("C11:ear-port:{}:{}", if m128 { "128k" } else { "48k" }, if h == 0xFF { "no-half-row-selected" } else if h == 0x00 { "all-half-rows-selected" } else { "other" }),
                        &format!("{} machine, tape playing with EAR level {}: IN from even port {:04x} returns {:02x} (bit 6 = {})", if m128 { "128K" } else { "48K" }, before as u8, port, v, (v >> 6) & 1),
                        json!({"kind":"ear-port","m128":m128,"port":port}),
                    );
                    break;
                }
            }
        }
        if seen[0] == 0 || seen[1] == 0 {
            ctx.violation("C11:ear-port:vacuous", "the EAR-port family did not see both tape levels (harness)", json!({"kind":"ear-port","m128":m128}));
        }
        ctx.outcome(0xEA00 ^ m128 as u64);
    }
}

pub fn quick_tapes() -> Vec<(&'static str, Vec<Vec<u8>>)> {
    vec![
        ("data2", vec![std_block(0xFF, &[0xA5])]),
        ("hdr1+data130", vec![vec![0x00], std_block(0xFF, &(0..128u32).map(|i| (i * 2 + 1) as u8).collect::<Vec<u8>>())]),
        // a short block after a block longer than the 128-byte read buffer
        ("data131+data3", vec![std_block(0xFF, &(0..129u32).map(|i| (i * 5 + 2) as u8).collect::<Vec<u8>>()), std_block(0xFF, &[0x42])]),
    ]
}

pub fn thorough_tapes() -> Vec<(&'static str, Vec<Vec<u8>>)> {
    let all: Vec<u8> = (0..256u32).map(|i| (i as u8).wrapping_mul(37).wrapping_add(11)).collect();
    vec![
        ("hdr19+data258", vec![std_block(0x00, &[3u8; 17]), std_block(0xFF, &all)]),
        ("flag55-badsum", vec![vec![0x55, 0x01, 0x80, 0x00]]),
        ("three-blocks", vec![std_block(0xFF, &[0x00]), std_block(0x00, &[0xFF, 0x00]), std_block(0x80, &[0x7F])]),
    ]
}

pub fn run(tier: Tier, seed: u64, replay: Option<String>) -> i32 {
    let ctx = Ctx::new("C11", tier, seed, "model_checking");
    if let Some(path) = replay {
        return replay_case(&ctx, &path);
    }
    let mut tapes = quick_tapes();
    if tier.is_thorough() {
        tapes.extend(thorough_tapes());
    }
    for (name, blocks) in tapes.iter() {
        let bj = json!({"kind":"prepass","tape":name,"blocks":blocks.iter().map(|b| crate::vcore::hex(b)).collect::<Vec<_>>()});
        ctx.guard(&format!("tape {}", name), bj, || check_tape(&ctx, name, blocks));
    }
    ctx.note("tapes", json!(tapes.iter().map(|(n, b)| json!({"name":n,"block_lengths":b.iter().map(|x| x.len()).collect::<Vec<_>>()})).collect::<Vec<_>>()));
    ctx.note("step_alphabet", json!("process_clocks(s) for every s in 0..=16 from every reachable (tape state, time since last edge)"));
    crate::checks::c10::realtime_vs_fast(&ctx);
    machine_level(&ctx);
    rom_loader_between_blocks(&ctx);
    size_family(&ctx, tier.is_thorough());
    ear_on_every_even_port(&ctx);
    ctx.finish(
        "component level: for each tape, every reachable state of the real Tap under all partitions of time into process_clocks steps 0..=16 (search decomposed at state-machine reload events; convergence of all paths at each reload is re-checked on every exit transition); oracle: RefTape decoder on the pulse list (pilot counts, sync, MSB-first bits, pause, decoded bytes == TAP blocks) and nominal <= pulse <= nominal+32 on every edge transition; block-size family: two-block tapes over every relation of the block sizes to the 128-byte read window (1..512 bytes) played in fixed steps (through whole-read and short-read assets) and decoded strictly; machine level: idle/polling programs and a halted CPU over contended and uncontended bus cycles with the EAR level sampled after every instruction, real-time ROM loads against RefLdBytes, three back-to-back ROM loader calls against a playing deck with fast loading disabled and enabled (every block must pass over EAR as one burst of the right number of pulses and land in memory), and bit 6 of IN from 256 high bytes x 4 even low bytes at both tape levels. distinct = distinct (pulse kind, extreme duration) and waveform outcomes",
        true,
        &["hook H3: Tap clone + verif_state (all fields)", "time is measured at call ends (when a reader could first observe the level)"],
    )
}

fn replay_case(ctx: &Ctx, path: &str) -> i32 {
    let v: serde_json::Value = serde_json::from_slice(&rig::read_file(path)).expect("replay json");
    let case = &v["case"];
    let blocks: Vec<Vec<u8>> = case["blocks"]
        .as_array()
        .map(|a| a.iter().map(|x| crate::vcore::unhex(x.as_str().unwrap_or(""))).collect())
        .unwrap_or_default();
    println!("replay: tape blocks {:?}", blocks.iter().map(|b| crate::vcore::hex(b)).collect::<Vec<_>>());
    if let Some(ch) = case["chunk"].as_u64().filter(|c| *c > 0) {
        let image = AssetData::Static(Box::leak(tap_image(&blocks).into_boxed_slice()));
        let total: u64 = blocks.iter().map(|x| 8063 * PILOT + x.len() as u64 * 16 * ONE + 2 * SECOND).sum::<u64>() + SECOND;
        let chain = new_tap_chunked(&image, ch as usize).and_then(|t| build_chain_from(t, &image, 16, total * 2));
        let ok = match chain {
            Ok(c) if c.ended => matches!(decode(&c.pulses, true), Ok(d) if d.blocks == blocks),
            _ => false,
        };
        println!("replay: tape through an asset returning at most {} byte(s) per read: {}", ch, if ok { "decodes to its blocks" } else { "does NOT decode to its blocks" });
        return (!ok) as i32;
    }
    if case["kind"] == "ear-port" {
        ear_on_every_even_port(ctx);
        let n = ctx.violation_classes();
        println!("replay: {} violation class(es) reproduced", n);
        return (n > 0) as i32;
    }
    if case["kind"] == "rom-loader-between-blocks" {
        rom_loader_between_blocks(ctx);
        let n = ctx.violation_classes();
        println!("replay: {} violation class(es) reproduced", n);
        return (n > 0) as i32;
    }
    if case["kind"] == "realtime" {
        return crate::checks::c10::replay_realtime(ctx, case);
    }
    check_tape(ctx, case["tape"].as_str().unwrap_or("replay"), &blocks);
    let n = ctx.violation_classes();
    println!("replay: {} violation class(es) reproduced", n);
    (n > 0) as i32
}
