//! C06 — CPU-visible memory follows the Spectrum memory map and 128K paging rules.
//! E-BFS over the paging latch by history replay on the real Emulator, lock step with RefMem.

use crate::rig::{self, Emu, Opts};
use crate::vcore::{par_for, Ctx, Tier};
use serde_json::json;
use std::collections::{BTreeMap, BTreeSet};
use std::sync::Mutex;

const CODE: u16 = 0x8100;

#[derive(Clone, Copy, Debug, PartialEq, Eq, PartialOrd, Ord, Hash)]
struct RefMem {
    last: u8,
    locked: bool,
}

impl RefMem {
    fn reset() -> RefMem {
        RefMem { last: 0, locked: false }
    }
    fn out(&mut self, v: u8) {
        if !self.locked {
            self.last = v;
            if v & 0x20 != 0 {
                self.locked = true;
            }
        }
    }
    fn rom(&self) -> u8 {
        (self.last >> 4) & 1
    }
    fn top(&self) -> u8 {
        self.last & 7
    }
    fn screen(&self) -> u8 {
        if self.last & 8 != 0 {
            7
        } else {
            5
        }
    }
    /// (is_ram, page) per window
    fn map(&self) -> [(bool, u8); 4] {
        [(false, self.rom()), (true, 5), (true, 2), (true, self.top())]
    }
    fn key(&self) -> (u8, bool, u8, [(bool, u8); 4]) {
        (self.last, !self.locked, self.screen(), self.map())
    }
}

fn marker(bank: u8, off: usize) -> u8 {
    ((off as u32).wrapping_mul(7) + (bank as u32) * 31 + ((off as u32) >> 8) * 3) as u8
}

struct Roms {
    pages: Vec<Vec<u8>>, // page 0, page 1
}

fn marker_rom(page: u8, off: usize) -> u8 {
    ((off as u32).wrapping_mul(5) + 0x40 + page as u32 * 0x55 + ((off as u32) >> 7)) as u8
}

/// Fresh 128K machine whose 8 RAM banks carry position-coded markers (written through the
/// 0xC000 window after paging each bank in with a CPU-executed OUT, then latch back to 0).
fn fresh_128(host_rom: bool) -> Emu {
    let mut o = Opts::k128();
    o.rom = !host_rom;
    // the host-ROM configuration also has the Kempston joystick and mouse plugged in: input devices,
    // a write to a paging alias that one of their read ports shares is still a paging write
    o.kempston = host_rom;
    o.mouse = host_rom;
    let mut e = rig::emu_stepping(&o);
    if host_rom {
        // the host assets deliver short reads (a valid LoadableAsset may): 1000 bytes / 16383 bytes per call
        let pages = (0..2u8)
            .map(|p| rig::VAsset::new((0..16384).map(|i| marker_rom(p, i)).collect()).chunked(if p == 0 { 1000 } else { 16383 }))
            .collect();
        e.load_rom(rig::VRomSet { pages }).ok().expect("load_rom");
        // this configuration also has a host I/O extender installed (claiming one unrelated port):
        // the built-in ports must work all the same
        e.set_io_extender(rig::VExt::new(rig::Claim::Exact(0xCCCC), 0xE7));
    }
    for b in 0..8u8 {
        rig::cpu_out(&mut e, CODE, 0x7FFD, b);
        let bytes: Vec<u8> = (0..16384).map(|i| marker(b, i)).collect();
        rig::poke(&mut e, 0xC000, &bytes);
    }
    rig::cpu_out(&mut e, CODE, 0x7FFD, 0);
    // the code bytes at CODE (bank 2) overwrite two marker bytes; restore them
    restore_code_markers(&mut e, 2);
    e
}

fn expected_byte(r: &RefMem, roms: &Roms, ram: &[Vec<u8>], addr: u16) -> u8 {
    let (is_ram, page) = r.map()[(addr >> 14) as usize];
    let off = (addr & 0x3FFF) as usize;
    if is_ram {
        ram[page as usize][off]
    } else {
        roms.pages[page as usize][off]
    }
}

fn ram_snapshot(e: &Emu) -> Vec<Vec<u8>> {
    (0..8u8).map(|b| e.verif_ram_bank(b).to_vec()).collect()
}

/// Full oracle in one state. `hist` is the OUT history that produced the state.
fn full_oracle(ctx: &Ctx, e: &mut Emu, r: &RefMem, roms: &Roms, hist: &[u8], host_rom: bool) {
    let tag = if host_rom { "hostrom" } else { "embedded" };
    let mut ram = ram_snapshot(e);
    // (i) peek at all 65536 addresses
    for a in 0..=0xFFFFu16 {
        let exp = expected_byte(r, roms, &ram, a);
        let got = e.peek(a);
        if got != exp {
            ctx.violation(
                &format!("C06:peek:{}:window{}", tag, a >> 14),
                &format!("peek({:04x})={:02x} expected {:02x} after OUT history {:02x?}", a, got, exp, hist),
                json!({"kind":"peek","history":hist,"addr":a,"host_rom":host_rom}),
            );
            break;
        }
    }
    ctx.add_eval(65536);
    // (ii) CPU stores / loads at probe offsets of every window
    for w in 0..4u16 {
        for off in [0x0000u16, 0x0001, 0x1FFF, 0x3FFF] {
            let addr = (w << 14) | off;
            let val = (0xA5u8 ^ (w as u8 * 17)).wrapping_add(off as u8).wrapping_add(r.last);
            let before = ram_snapshot(e);
            rig::cpu_store(e, CODE, addr, val);
            // code poke touched bank 2 offsets 0x100..0x102: expected identical in before/after (same bytes)
            let after = ram_snapshot(e);
            let (is_ram, page) = r.map()[w as usize];
            let mut changed = Vec::new();
            for b in 0..8usize {
                for o in 0..16384usize {
                    if before[b][o] != after[b][o] {
                        changed.push((b, o, after[b][o]));
                        if changed.len() > 4 {
                            break;
                        }
                    }
                }
            }
            // bytes of the code itself (bank 2, 0x100..0x103) may change value vs. marker; ignore those
            let changed: Vec<_> = changed
                .into_iter()
                .filter(|(b, o, _)| !(*b == 2 && (0x100..0x103).contains(o)))
                .collect();
            let expect: Vec<(usize, usize, u8)> = if is_ram && before[page as usize][off as usize] != val {
                vec![(page as usize, off as usize, val)]
            } else {
                vec![]
            };
            if changed != expect {
                ctx.violation(
                    &format!("C06:store:{}:window{}:{}", tag, w, if is_ram { "ram" } else { "rom" }),
                    &format!(
                        "LD ({:04x}),A with latch {:02x}: changed RAM cells {:?}, expected {:?}",
                        addr, r.last, changed, expect
                    ),
                    json!({"kind":"store","history":hist,"addr":addr,"host_rom":host_rom}),
                );
            }
            if is_ram {
                ram[page as usize][off as usize] = val;
            }
            // read back through every window that maps the same bank, and through the others
            for w2 in 0..4u16 {
                let a2 = (w2 << 14) | off;
                let got = rig::cpu_load(e, CODE, a2);
                let mut ram_now = ram.clone();
                // code bytes currently at CODE
                ram_now[2][0x100] = 0x3A;
                ram_now[2][0x101] = a2 as u8;
                ram_now[2][0x102] = (a2 >> 8) as u8;
                let exp = expected_byte(r, roms, &ram_now, a2);
                if got != exp {
                    ctx.violation(
                        &format!("C06:load:{}:window{}", tag, w2),
                        &format!("LD A,({:04x}) = {:02x}, expected {:02x}, latch {:02x}", a2, got, exp, r.last),
                        json!({"kind":"load","history":hist,"addr":a2,"host_rom":host_rom}),
                    );
                }
            }
            ctx.add_eval(5);
        }
    }
    // (iii) 16-bit accesses whose two bytes lie in different windows (..FF/..00 across 3FFF/4000,
    // 7FFF/8000, BFFF/C000 and the FFFF/0000 wrap): LD HL,(nn), LD BC,(nn) (ED form), POP DE and
    // LD (nn),HL must take/put the second byte in the NEXT WINDOW of the current map
    for b in [0x3FFFu16, 0x7FFF, 0xBFFF, 0xFFFF] {
        let lo = expected_byte(r, roms, &ram, b);
        let hi = expected_byte(r, roms, &ram, b.wrapping_add(1));
        let want = (hi as u16) << 8 | lo as u16;
        let keep = [e.peek(CODE), e.peek(CODE + 1), e.peek(CODE + 2), e.peek(CODE + 3)];
        rig::run_code(e, CODE, &[0x2A, b as u8, (b >> 8) as u8], 1);
        let hl = e.verif_cpu().regs.get_hl();
        rig::run_code(e, CODE, &[0xED, 0x4B, b as u8, (b >> 8) as u8], 1);
        let bc = e.verif_cpu().regs.get_bc();
        e.verif_cpu().regs.set_sp(b);
        rig::run_code(e, CODE, &[0xD1], 1);
        let de = e.verif_cpu().regs.get_de();
        rig::poke(e, CODE, &keep);
        for (name, got) in [("LD HL,(nn)", hl), ("LD BC,(nn)", bc), ("POP DE", de)] {
            if got != want {
                ctx.violation(
                    &format!("C06:word-access:{}:boundary{:04x}", tag, b),
                    &format!("{} at {:04x} with latch {:02x}: got {:04x}, the bytes the map holds at {:04x} and {:04x} are {:02x} and {:02x}", name, b, r.last, got, b, b.wrapping_add(1), lo, hi),
                    json!({"kind":"word","history":hist,"addr":b,"host_rom":host_rom}),
                );
                break;
            }
        }
        // store: LD (nn),HL with HL = 5AA5h, then both bytes through peek (ROM ignores its half)
        let before = ram_snapshot(e);
        e.verif_cpu().regs.set_hl(0x5AA5);
        rig::run_code(e, CODE, &[0x22, b as u8, (b >> 8) as u8], 1);
        rig::poke(e, CODE, &keep);
        let after = ram_snapshot(e);
        let mut expect = before.clone();
        for (a, v) in [(b, 0xA5u8), (b.wrapping_add(1), 0x5A)] {
            let (is_ram, page) = r.map()[(a >> 14) as usize];
            if is_ram {
                expect[page as usize][(a & 0x3FFF) as usize] = v;
            }
        }
        if after != expect {
            ctx.violation(
                &format!("C06:word-store:{}:boundary{:04x}", tag, b),
                &format!("LD ({:04x}),HL with latch {:02x}: RAM after the store is not RAM before with A5h/5Ah placed through the current map at {:04x}/{:04x}", b, r.last, b, b.wrapping_add(1)),
                json!({"kind":"word","history":hist,"addr":b,"host_rom":host_rom}),
            );
        }
        // keep the markers for the states that follow in this emulator
        for (a, _) in [(b, 0u8), (b.wrapping_add(1), 0)] {
            let (is_ram, page) = r.map()[(a >> 14) as usize];
            if is_ram {
                let off = (a & 0x3FFF) as usize;
                rig::poke(e, a, &[before[page as usize][off]]);
            }
        }
        ctx.add_eval(4);
    }
}

/// Addresses that select the paging latch and nothing else (odd, A15=0, A1=0).
/// The last four share their low byte pattern with the read ports of the Kempston joystick (A7-A5=0)
/// and mouse (A5=0; buttons, X, Y by A8/A10).
const PAGING_ALIASES: [u16; 10] = [0x7FFD, 0x3FFD, 0x1FFD, 0x00FD, 0x7F3D, 0x5555, 0x7F1D, 0x7ADD, 0x7BDD, 0x7FDD];

/// The `idx`-th paging write of a history, executed by the emulated CPU. The instruction form and
/// the port alias rotate deterministically with (idx, value): OUT (C),A / OUT (n),A (port high
/// byte = A, so only for values < 0x80) / OUTI (port high byte = B after the decrement).
fn paging_write(e: &mut Emu, idx: usize, v: u8) -> (u16, &'static str) {
    let alias = PAGING_ALIASES[(idx * 5 + v as usize) % PAGING_ALIASES.len()];
    if v == 0 && idx % 2 == 1 {
        // the undocumented OUT (C),0 (ED 71) is a paging write of zero like any other
        e.verif_cpu().regs.set_bc(alias);
        rig::run_code(e, CODE, &[0xED, 0x71], 1);
        return (alias, "OUT (C),0");
    }
    match (idx + v as usize / 3) % 3 {
        1 if v < 0x80 => {
            e.verif_cpu().regs.set_acc(v);
            rig::run_code(e, CODE, &[0xD3, 0xFD], 1);
            ((v as u16) << 8 | 0xFD, "OUT (n),A")
        }
        2 => {
            let cpu = e.verif_cpu();
            cpu.regs.set_bc(alias.wrapping_add(0x0100));
            cpu.regs.set_hl(CODE + 2);
            rig::run_code(e, CODE, &[0xED, 0xA3, v], 1);
            (alias, "OUTI")
        }
        _ => {
            rig::cpu_out(e, CODE, alias, v);
            (alias, "OUT (C),A")
        }
    }
}

fn restore_code_markers(e: &mut Emu, bank: u8) {
    let fix = [marker(bank, 0x100), marker(bank, 0x101), marker(bank, 0x102)];
    rig::poke(e, CODE, &fix);
}

fn apply_history(e: &mut Emu, r: &mut RefMem, hist: &[u8]) {
    for (i, v) in hist.iter().enumerate() {
        paging_write(e, i, *v);
        r.out(*v);
    }
    restore_code_markers(e, 2);
}

fn bfs_128(ctx: &Ctx, roms: &Roms, host_rom: bool) {
    type Key = (u8, bool, u8, [(bool, u8); 4]);
    let mut seen: BTreeMap<Key, Vec<u8>> = BTreeMap::new();
    // initial state
    let e0 = fresh_128(host_rom);
    let k0 = e0.verif_paging();
    if k0 != RefMem::reset().key() {
        ctx.violation(
            "C06:reset-state",
            &format!("paging state after reset/setup {:?} != reference {:?}", k0, RefMem::reset().key()),
            json!({"kind":"reset"}),
        );
    }
    seen.insert(k0, vec![]);
    let mut frontier: Vec<Vec<u8>> = vec![vec![]];
    let mut depth = 0;
    while !frontier.is_empty() {
        let results: Mutex<Vec<(Vec<u8>, Key)>> = Mutex::new(Vec::new());
        let jobs: Vec<(Vec<u8>, u8)> = frontier
            .iter()
            .flat_map(|h| (0..=255u8).map(move |v| (h.clone(), v)))
            .collect();
        par_for(jobs.len(), 8, |i| {
            let (hist, v) = &jobs[i];
            let mut e = fresh_128(host_rom);
            let mut r = RefMem::reset();
            apply_history(&mut e, &mut r, hist);
            let before_ram_digest = crate::vcore::fnv(e.verif_ram_bank(r.top()));
            let (port, form) = paging_write(&mut e, hist.len(), *v);
            restore_code_markers(&mut e, 2);
            let was_locked = r.locked;
            let prev = r;
            r.out(*v);
            let k = e.verif_paging();
            let mut h2 = hist.clone();
            h2.push(*v);
            if k != r.key() {
                let cls = if was_locked { "after-lock" } else { "unlocked" };
                ctx.violation(
                    &format!("C06:latch:{}:{}", if host_rom { "hostrom" } else { "embedded" }, cls),
                    &format!(
                        "after OUT history {:02x?} (last write by {} to port {:04x}) paging state is {:?}, reference {:?} (previous latch {:02x} locked={})",
                        h2, form, port, k, r.key(), prev.last, prev.locked
                    ),
                    json!({"kind":"latch","history":h2,"host_rom":host_rom}),
                );
            }
            let _ = before_ram_digest;
            // light per-transition observation through the public API: one byte per window
            for a in [0x0000u16, 0x3FFF, 0x4000, 0x8000, 0xC000, 0xFFFF] {
                let ram: Vec<Vec<u8>> = Vec::new();
                let (is_ram, page) = r.map()[(a >> 14) as usize];
                let off = (a & 0x3FFF) as usize;
                let exp = if is_ram { marker(page, off) } else { roms.pages[page as usize][off] };
                let _ = ram;
                if e.peek(a) != exp {
                    ctx.violation(
                        &format!("C06:peek-transition:{}:window{}", if host_rom { "hostrom" } else { "embedded" }, a >> 14),
                        &format!("peek({:04x})={:02x} expected {:02x} after OUT history {:02x?}", a, e.peek(a), exp, h2),
                        json!({"kind":"peek","history":h2,"addr":a,"host_rom":host_rom}),
                    );
                }
            }
            ctx.add_transitions(1);
            ctx.add_traces(1);
            results.lock().unwrap().push((h2, k));
        });
        let mut res = results.into_inner().unwrap();
        res.sort();
        let mut next = Vec::new();
        for (h, k) in res {
            if !seen.contains_key(&k) {
                seen.insert(k, h.clone());
                next.push(h);
            }
        }
        frontier = next;
        depth += 1;
        if depth > 6 {
            ctx.note("bfs_depth_cap_hit", json!(true));
            break;
        }
    }
    ctx.add_states(seen.len() as u64);
    ctx.note(
        if host_rom { "bfs_depth_hostrom" } else { "bfs_depth_embedded" },
        json!(depth),
    );
    // full oracle in every distinct state
    let states: Vec<(Key, Vec<u8>)> = seen.into_iter().collect();
    let outcomes: Mutex<BTreeSet<u64>> = Mutex::new(BTreeSet::new());
    par_for(states.len(), 1, |i| {
        let (k, hist) = &states[i];
        let mut e = fresh_128(host_rom);
        let mut r = RefMem::reset();
        apply_history(&mut e, &mut r, hist);
        full_oracle(ctx, &mut e, &r, roms, hist, host_rom);
        let mut h = crate::vcore::fnv(&[k.0, k.1 as u8, k.2]);
        for (a, b) in k.3.iter() {
            h = crate::vcore::fnv_mix(h, (*a as u64) << 8 | *b as u64);
        }
        outcomes.lock().unwrap().insert(h);
        if i < 3 {
            ctx.sample(json!({"state": format!("{:?}", k), "out_history": hist}));
        }
    });
    for h in outcomes.into_inner().unwrap() {
        ctx.outcome(h ^ host_rom as u64);
    }
}

fn check_48(ctx: &Ctx) {
    let rom = rig::read_file("/repo/rustzx-core/src/zx/roms/48.rom");
    par_for(256, 4, |v| {
        let v = v as u8;
        let mut e = rig::emu_stepping(&Opts::k48());
        // markers through CPU-independent pokes
        let bytes: Vec<u8> = (0..49152usize).map(|i| marker((i >> 14) as u8, i & 0x3FFF)).collect();
        rig::poke(&mut e, 0x4000, &bytes);
        let k0 = e.verif_paging();
        for port in [0x7FFDu16, 0x00FD, 0x3FFD] {
            rig::cpu_out(&mut e, CODE, port, v);
        }
        for idx in 0..3 {
            paging_write(&mut e, idx, v);
        }
        restore_code_markers(&mut e, 1);
        let k1 = e.verif_paging();
        let mut bad = None;
        if k0.3 != k1.3 {
            bad = Some(format!("memory map changed {:?} -> {:?}", k0.3, k1.3));
        }
        for a in 0..=0xFFFFu16 {
            let exp = if a < 0x4000 { rom[a as usize] } else { bytes[a as usize - 0x4000] };
            if e.peek(a) != exp {
                bad = Some(format!("peek({:04x})={:02x} expected {:02x}", a, e.peek(a), exp));
                break;
            }
        }
        // ROM ignores writes
        rig::cpu_store(&mut e, CODE, 0x0000, 0x5A);
        rig::cpu_store(&mut e, CODE, 0x3FFF, 0x5A);
        if e.peek(0) != rom[0] || e.peek(0x3FFF) != rom[0x3FFF] {
            bad = Some("write to ROM changed it".into());
        }
        if let Some(b) = bad {
            ctx.violation(
                "C06:48k:paging-write-not-ignored",
                &format!("48K machine, OUT (7FFD),{:02x}: {}", v, b),
                json!({"kind":"48k","value":v}),
            );
        }
        ctx.add_transitions(3);
        ctx.add_traces(3);
        ctx.add_eval(65536);
    });
    ctx.add_states(1);
}

pub fn run(tier: Tier, seed: u64, replay: Option<String>) -> i32 {
    let ctx = Ctx::new("C06", tier, seed, "model_checking");
    if let Some(path) = replay {
        return replay_case(&ctx, &path);
    }
    let embedded = Roms {
        pages: vec![
            rig::read_file("/repo/rustzx-core/src/zx/roms/128.rom.0"),
            rig::read_file("/repo/rustzx-core/src/zx/roms/128.rom.1"),
        ],
    };
    let host = Roms {
        pages: (0..2u8).map(|p| (0..16384).map(|i| marker_rom(p, i)).collect()).collect(),
    };
    bfs_128(&ctx, &embedded, false);
    bfs_128(&ctx, &host, true);
    check_48(&ctx);
    ctx.finish(
        "BFS from reset over the complete 128K paging state (last accepted 7FFD byte, lock, screen bank, map) with all 256 OUT values per state, each transition replayed on a fresh real Emulator (write executed by the emulated CPU; the instruction form OUT (C),A / OUT (n),A / OUTI / OUT (C),0 (for the value 0) and the port alias among 7FFD, 3FFD, 1FFD, 00FD, 7F3D, 5555, 7F1D, 7ADD, 7BDD, 7FDD rotate with history position and value) in lock step with RefMem; in every distinct state: peek at all 65536 addresses, CPU stores/loads at 4 offsets x 4 windows with an all-banks RAM diff, 16-bit loads/stores/POP whose two bytes straddle each window boundary; embedded and host-supplied ROM sets (the latter with a host I/O extender installed that claims an unrelated port, and with the Kempston joystick and mouse plugged in); 48K: all 256 values x 3 port aliases x 3 instruction forms leave map and memory unchanged. distinct = distinct paging states reached",
        true,
        &["marker RAM is written with execute_poke through the 0xC000 window after CPU-executed paging OUTs", "hooks: verif_paging, verif_ram_bank (read-only)"],
    )
}

fn replay_case(ctx: &Ctx, path: &str) -> i32 {
    let v: serde_json::Value = serde_json::from_slice(&rig::read_file(path)).expect("replay json");
    let case = &v["case"];
    let host_rom = case["host_rom"].as_bool().unwrap_or(false);
    if case["kind"] == "48k" {
        check_48(ctx);
    } else {
        let hist: Vec<u8> = case["history"]
            .as_array()
            .map(|a| a.iter().map(|x| x.as_u64().unwrap() as u8).collect())
            .unwrap_or_default();
        let roms = if host_rom {
            Roms { pages: (0..2u8).map(|p| (0..16384).map(|i| marker_rom(p, i)).collect()).collect() }
        } else {
            Roms {
                pages: vec![
                    rig::read_file("/repo/rustzx-core/src/zx/roms/128.rom.0"),
                    rig::read_file("/repo/rustzx-core/src/zx/roms/128.rom.1"),
                ],
            }
        };
        let mut e = fresh_128(host_rom);
        let mut r = RefMem::reset();
        apply_history(&mut e, &mut r, &hist);
        println!("replay: OUT history {:02x?}", hist);
        println!("  implementation paging state: {:?}", e.verif_paging());
        println!("  reference paging state:      {:?}", r.key());
        if e.verif_paging() != r.key() {
            ctx.violation("C06:latch:replay", "paging state differs", json!({"history":hist}));
        }
        full_oracle(ctx, &mut e, &r, &roms, &hist, host_rom);
    }
    let n = ctx.violation_classes();
    println!("replay: {} violation class(es) reproduced", n);
    if n > 0 {
        1
    } else {
        0
    }
}
