use crate::vcore::Tier;

pub mod c01;
pub mod c02;
pub mod c03;
pub mod c04;
pub mod c05;
pub mod c06;
pub mod c07;
pub mod c08;
pub mod c09;
pub mod c10;
pub mod c11;
pub mod c12;
pub mod c13;
pub mod c14;
pub mod c15;
pub mod c16;
pub mod c17;
pub mod c18;
pub mod c19;
pub mod c20;

pub fn dispatch(prop: &str, tier: Tier, seed: u64, replay: Option<String>) -> i32 {
    match prop {
        "C01" => c01::run(tier, seed, replay),
        "C02" => c02::run(tier, seed, replay),
        "C03" => c03::run(tier, seed, replay),
        "C04" => c04::run(tier, seed, replay),
        "C05" => c05::run(tier, seed, replay),
        "C06" => c06::run(tier, seed, replay),
        "C07" => c07::run(tier, seed, replay),
        "C08" => c08::run(tier, seed, replay),
        "C09" => c09::run(tier, seed, replay),
        "C10" => c10::run(tier, seed, replay),
        "C11" => c11::run(tier, seed, replay),
        "C12" => c12::run(tier, seed, replay),
        "C13" => c13::run(tier, seed, replay),
        "C14" => c14::run(tier, seed, replay),
        "C15" => c15::run(tier, seed, replay),
        "C16" => c16::run(tier, seed, replay),
        "C17" => c17::run(tier, seed, replay),
                "C18" => c18::run(tier, seed, replay),
        "C19" => c19::run(tier, seed, replay),
                "C20" => c20::run(tier, seed, replay),
        _ => {
            eprintln!("MACHINERY: unknown property {}", prop);
            2
        }
    }
}
