use crate::vcore::Tier;

pub mod c06;

pub fn dispatch(prop: &str, tier: Tier, seed: u64, replay: Option<String>) -> i32 {
    match prop {
        "C06" => c06::run(tier, seed, replay),
        _ => {
            eprintln!("MACHINERY: unknown property {}", prop);
            2
        }
    }
}
