//! C13 — SNA save then load restores the machine; saving is side-effect free.
//! E-PROD over (save state x receiving state): every SNA-carried item, the paging latch with its
//! lock and all RAM are compared after the load, then both machines run 24 instructions in lock
//! step (which exposes stale halted / prefix / interrupt latches of the receiver).

use crate::rig::{self, Emu, Opts, RegsView, VAsset, VRecorder};
use crate::vcore::{par_for, Ctx, Tier};
use rustzx_core::host::{Snapshot, SnapshotRecorder};
use serde_json::json;

const PROG: u16 = 0x9000;
pub const OUTCODE: u16 = 0x8800;

/// observer program run after the restore: touches every register pair, both register sets,
/// index registers, the stack, I/R, and memory
const OBSERVER: &[u8] = &[
    0x09, // ADD HL,BC  (first: a stale DD/FD prefix would turn it into ADD IX,BC)
    0x08, // EX AF,AF'
    0xD9, // EXX
    0x09, // ADD HL,BC
    0x19, // ADD HL,DE
    0x8C, // ADC A,H
    0xD9, // EXX
    0x08, // EX AF,AF'
    0x09, // ADD HL,BC
    0xDD, 0x19, // ADD IX,DE
    0xFD, 0x09, // ADD IY,BC
    0xED, 0x5F, // LD A,R
    0xE5, // PUSH HL
    0xDD, 0xE5, // PUSH IX
    0xC1, // POP BC
    0xED, 0x57, // LD A,I  (P/V = IFF2)
    0xF5, // PUSH AF
    0xE1, // POP HL
    0x22, 0x00, 0xA0, // LD (A000),HL
    0x3A, 0x00, 0xC0, // LD A,(C000)
    0x86, // ADD A,(HL)
    0x32, 0x02, 0xA0, // LD (A002),A
    0x18, 0xFE, // JR $
];

#[derive(Clone, Debug)]
pub struct SaveState {
    pub m128: bool,
    pub pattern: u8,
    pub im: u8,
    pub iff2: bool,
    pub border: u8,
    pub r: u8,
    pub i: u8,
    pub latch: u8,
    pub sp: u16,
    /// a further paging write issued after `latch` (ignored by the machine when `latch` locked paging)
    pub later_write: Option<u8>,
    /// the machine is halted (a HALT at the observer's entry, interrupts kept away) when it is saved
    pub halted: bool,
}

#[derive(Clone, Copy, Debug, PartialEq, Eq)]
pub enum Receiver {
    SameNow,
    SameAfter1,
    SameAfter1000,
    Fresh,
    Halted,
    MidPrefix,
    LockedOtherBank,
    OtherEverything,
    AfterEi,
}

fn marker(bank: u8, off: usize, salt: u8) -> u8 {
    ((off as u32).wrapping_mul(11) + (off as u32 >> 8) * 5 + bank as u32 * 37 + salt as u32) as u8
}

pub fn machine(m128: bool) -> Emu {
    let mut o = Opts::machine(m128);
    o.sound = false;
    rig::emu_stepping(&o)
}

pub fn fill_ram(e: &mut Emu, m128: bool, salt: u8) {
    if m128 {
        for b in 0..8u8 {
            rig::cpu_out(e, OUTCODE, 0x7FFD, b);
            let bytes: Vec<u8> = (0..16384).map(|i| marker(b, i, salt)).collect();
            rig::poke(e, 0xC000, &bytes);
        }
        rig::cpu_out(e, OUTCODE, 0x7FFD, 0);
    } else {
        for (w, b) in [(1u16, 5u8), (2, 2), (3, 0)] {
            let bytes: Vec<u8> = (0..16384).map(|i| marker(b, i, salt)).collect();
            rig::poke(e, w << 14, &bytes);
        }
    }
}

fn regs_for(s: &SaveState) -> RegsView {
    let p = s.pattern as u16;
    let mut r = RegsView::default();
    if s.pattern == 0 {
        r.af = 0x0102;
        r.bc = 0x0304;
        r.de = 0x0506;
        r.hl = 0x0708;
        r.af_ = 0x090A;
        r.bc_ = 0x0B0C;
        r.de_ = 0x0D0E;
        r.hl_ = 0x0F10;
        r.ix = 0x1112;
        r.iy = 0x1314;
    } else {
        r.af = 0xFEFD ^ p;
        r.bc = 0xFCFB;
        r.de = 0xFAF9;
        r.hl = 0xF8F7;
        r.af_ = 0xF6F5;
        r.bc_ = 0xF4F3;
        r.de_ = 0xF2F1;
        r.hl_ = 0xF0EF;
        r.ix = 0xEEED;
        r.iy = 0xECEB;
    }
    r.sp = s.sp;
    r.pc = PROG;
    r.i = s.i;
    r.r = s.r;
    r.im = s.im;
    r.iff1 = s.iff2;
    r.iff2 = s.iff2;
    r
}

/// Build the machine in the state to be saved
fn build_saver(s: &SaveState) -> Emu {
    let mut e = machine(s.m128);
    fill_ram(&mut e, s.m128, 1);
    rig::poke(&mut e, PROG, OBSERVER);
    if s.m128 {
        rig::cpu_out(&mut e, OUTCODE, 0x7FFD, s.latch);
        if let Some(w) = s.later_write {
            rig::cpu_out(&mut e, OUTCODE, 0x7FFD, w);
        }
    }
    rig::cpu_out(&mut e, OUTCODE, 0x00FE, s.border);
    // keep interrupts out of the lock-step continuation: place the frame clock after the INT pulse
    e.verif_set_frame_clocks(1000);
    rig::set_regs(e.verif_cpu(), &regs_for(s));
    if s.halted {
        // HALT in front of the observer; executing it leaves the CPU halted (no interrupt arrives:
        // the clock sits behind the INT pulse and the continuation is shorter than a frame)
        rig::poke(&mut e, PROG, &[0x76]);
        rig::step(&mut e);
        e.verif_set_frame_clocks(1000);
    }
    e
}

pub fn all_ram(e: &Emu, m128: bool) -> Vec<Vec<u8>> {
    let n = if m128 { 8 } else { 3 };
    (0..n).map(|b| e.verif_ram_bank(b).to_vec()).collect()
}

fn sna_carried(v: &RegsView) -> RegsView {
    // items the SNA format carries (IFF1 is restored from IFF2 by convention; hidden latches are not carried)
    let mut x = v.clone();
    x.iff1 = false;
    x.memptr = 0;
    x.q = 0;
    x.prefix = 0;
    x.skip_int = false;
    x.halted = false;
    x
}

pub fn diff_regs(a: &RegsView, b: &RegsView) -> Vec<&'static str> {
    let mut d = Vec::new();
    macro_rules! f {
        ($n:ident, $s:expr) => {
            if a.$n != b.$n {
                d.push($s);
            }
        };
    }
    f!(af, "AF");
    f!(bc, "BC");
    f!(de, "DE");
    f!(hl, "HL");
    f!(af_, "AF'");
    f!(bc_, "BC'");
    f!(de_, "DE'");
    f!(hl_, "HL'");
    f!(ix, "IX");
    f!(iy, "IY");
    f!(sp, "SP");
    f!(pc, "PC");
    f!(i, "I");
    f!(r, "R");
    f!(im, "IM");
    f!(iff2, "IFF2");
    d
}

fn prepare_receiver(rx: Receiver, s: &SaveState, saver: &mut Emu) -> Option<Emu> {
    let m128 = s.m128;
    match rx {
        Receiver::SameNow | Receiver::SameAfter1 | Receiver::SameAfter1000 => None,
        Receiver::Fresh => Some(machine(m128)),
        Receiver::Halted => {
            let mut e = machine(m128);
            rig::poke(&mut e, 0x8000, &[0x76]);
            e.verif_cpu().regs.set_pc(0x8000);
            rig::step(&mut e);
            rig::step(&mut e);
            Some(e)
        }
        Receiver::MidPrefix => {
            let mut e = machine(m128);
            rig::poke(&mut e, 0x8000, &[0xDD, 0xDD, 0x00]);
            e.verif_cpu().regs.set_pc(0x8000);
            rig::step(&mut e);
            Some(e)
        }
        Receiver::AfterEi => {
            let mut e = machine(m128);
            rig::poke(&mut e, 0x8000, &[0xFB, 0x00]);
            e.verif_cpu().regs.set_pc(0x8000);
            rig::step(&mut e);
            Some(e)
        }
        Receiver::LockedOtherBank => {
            let mut e = machine(m128);
            if m128 {
                rig::cpu_out(&mut e, OUTCODE, 0x7FFD, 0x20 | ((s.latch & 7) ^ 3) | 0x08);
            }
            fill_ram_partial(&mut e, m128);
            Some(e)
        }
        Receiver::OtherEverything => {
            let mut e = machine(m128);
            fill_ram(&mut e, m128, 99);
            if m128 {
                rig::cpu_out(&mut e, OUTCODE, 0x7FFD, (s.latch & 0x1F) ^ 0x1F);
            }
            rig::cpu_out(&mut e, OUTCODE, 0x00FE, s.border ^ 7);
            let mut r = regs_for(&SaveState { pattern: s.pattern ^ 1, im: (s.im + 1) % 3, iff2: !s.iff2, i: !s.i, r: !s.r, sp: 0x7000, ..s.clone() });
            r.pc = 0x1234;
            rig::set_regs(e.verif_cpu(), &r);
            let _ = saver;
            Some(e)
        }
    }
}

fn fill_ram_partial(e: &mut Emu, _m128: bool) {
    let bytes: Vec<u8> = (0..256).map(|i| (i as u8) ^ 0x5A).collect();
    rig::poke(e, 0x8000, &bytes);
    rig::poke(e, 0x4000, &bytes);
}

fn state_json(s: &SaveState, rx: Receiver) -> serde_json::Value {
    json!({"kind":"saveload","m128":s.m128,"pattern":s.pattern,"im":s.im,"iff2":s.iff2,"border":s.border,"r":s.r,"i":s.i,"latch":s.latch,"sp":s.sp,"later_write":s.later_write,"halted":s.halted,"receiver":format!("{:?}", rx)})
}

pub fn run_case(ctx: &Ctx, s: &SaveState, rx: Receiver, verbose: bool) -> u64 {
    let mname = if s.m128 { "128k" } else { "48k" };
    let mut saver = build_saver(s);
    let case = state_json(s, rx);
    let before_regs = rig::regs_view(saver.verif_cpu());
    let before_ram = all_ram(&saver, s.m128);
    let before_paging = saver.verif_paging();
    let mut rec = VRecorder::default();
    let res = std::panic::catch_unwind(std::panic::AssertUnwindSafe(|| saver.save_snapshot(SnapshotRecorder::Sna(&mut rec_wrap(&mut rec)))));
    match res {
        Ok(Ok(())) => {}
        Ok(Err(e)) => {
            ctx.violation(&format!("C13:save-error:{}", mname), &format!("save_snapshot returned {:?}", e), case);
            return 0;
        }
        Err(_) => {
            ctx.violation(&format!("C13:save-panic:{}", mname), "save_snapshot panicked", case);
            return 0;
        }
    }
    let file = rec.data.clone();
    // ---- side-effect clause
    let after_regs = rig::regs_view(saver.verif_cpu());
    let after_ram = all_ram(&saver, s.m128);
    let stack_in_rom = s.sp.wrapping_sub(2) < 0x4000 || s.sp.wrapping_sub(1) < 0x4000;
    if after_regs != before_regs {
        let d = diff_regs(&before_regs, &after_regs);
        ctx.violation(
            &format!("C13:save-side-effect:registers:{}:{}", mname, if stack_in_rom { "stack-in-rom" } else { "stack-in-ram" }),
            &format!("taking the snapshot changed the running machine's registers {:?} (SP={:04x}): before {:x?} after {:x?}", d, s.sp, before_regs, after_regs),
            case.clone(),
        );
    }
    if after_ram != before_ram {
        let mut where_ = String::new();
        'o: for b in 0..before_ram.len() {
            for o in 0..16384 {
                if before_ram[b][o] != after_ram[b][o] {
                    where_ = format!("bank {} offset {:04x}: {:02x} -> {:02x}", b, o, before_ram[b][o], after_ram[b][o]);
                    break 'o;
                }
            }
        }
        ctx.violation(
            &format!("C13:save-side-effect:memory:{}", mname),
            &format!("taking the snapshot changed the running machine's RAM ({}; SP={:04x})", where_, s.sp),
            case.clone(),
        );
    }
    // the reference point for "the state at the moment of saving"
    let saved_regs = before_regs.clone();
    let saved_ram = before_ram.clone();
    // ---- receiver
    let mut receiver = match rx {
        Receiver::SameNow => None,
        Receiver::SameAfter1 => {
            rig::step(&mut saver);
            None
        }
        Receiver::SameAfter1000 => {
            for _ in 0..1000 {
                rig::step(&mut saver);
            }
            None
        }
        _ => prepare_receiver(rx, s, &mut saver),
    };
    // a pristine twin of the saved machine to continue from the saved state
    let mut twin = build_saver(s);
    let target: &mut Emu = match receiver.as_mut() {
        Some(r) => r,
        None => &mut saver,
    };
    let res = std::panic::catch_unwind(std::panic::AssertUnwindSafe(|| target.load_snapshot(Snapshot::Sna(VAsset::new(file.clone()).chunked([0usize, 1, 2, 3, 7, 127, 128, 129][(s.latch as usize + s.sp as usize + rx as usize) % 8]).eof_as_zero((s.border as usize + rx as usize) % 2 == 1)))));
    match res {
        Ok(Ok(())) => {}
        Ok(Err(e)) => {
            ctx.violation(&format!("C13:load-error:{}", mname), &format!("load_snapshot of the file just saved returned {:?}", e), case);
            return 0;
        }
        Err(_) => {
            ctx.violation(&format!("C13:load-panic:{}", mname), "load_snapshot of the file just saved panicked", case);
            return 0;
        }
    }
    target.verif_set_frame_clocks(1000);
    let got = rig::regs_view(target.verif_cpu());
    let pc_judged = s.m128 || !stack_in_rom;
    let mut want = sna_carried(&saved_regs);
    let mut gotc = sna_carried(&got);
    if !pc_judged {
        want.pc = 0;
        gotc.pc = 0;
    }
    let d = diff_regs(&want, &gotc);
    if verbose {
        println!("  saved   : {:x?}", saved_regs);
        println!("  restored: {:x?}", got);
    }
    if !d.is_empty() {
        ctx.violation(
            &format!("C13:restore:registers:{}:{}", mname, d.join("+")),
            &format!("after save+load into receiver {:?} the registers {:?} differ: saved {:x?} restored {:x?}", rx, d, saved_regs, got),
            case.clone(),
        );
    }
    let b: u8 = target.border_color().into();
    if b != s.border & 7 {
        ctx.violation(&format!("C13:restore:border:{}", mname), &format!("border {} restored as {}", s.border & 7, b), case.clone());
    }
    if s.m128 {
        let p = target.verif_paging();
        if p != before_paging {
            ctx.violation(
                &format!("C13:restore:paging:{:?}", rx),
                &format!("paging state (7FFD value, paging enabled, screen bank, map) saved as {:?} restored as {:?} into receiver {:?}", before_paging, p, rx),
                case.clone(),
            );
        }
    }
    let got_ram = all_ram(target, s.m128);
    let mut ram_ok = true;
    'o2: for bnk in 0..saved_ram.len() {
        for o in 0..16384usize {
            if saved_ram[bnk][o] != got_ram[bnk][o] {
                // 48K: the two bytes below SP hold PC inside the file; they are part of the format
                let is48_stack = !s.m128 && {
                    let a = match bnk {
                        0 => 0x4000 + o,
                        1 => 0x8000 + o,
                        _ => 0xC000 + o,
                    } as u16;
                    a == s.sp.wrapping_sub(1) || a == s.sp.wrapping_sub(2)
                };
                if is48_stack {
                    continue;
                }
                ram_ok = false;
                ctx.violation(
                    &format!("C13:restore:memory:{}:{:?}", mname, rx),
                    &format!("RAM bank {} offset {:04x} saved as {:02x} restored as {:02x} (receiver {:?})", bnk, o, saved_ram[bnk][o], got_ram[bnk][o], rx),
                    case.clone(),
                );
                break 'o2;
            }
        }
    }
    // ---- lock-step continuation (only meaningful when the static state was restored)
    if d.is_empty() && ram_ok && pc_judged {
        if rx == Receiver::AfterEi && !s.halted {
            // INT active at the very first boundary: a stale EI latch would hold the interrupt off.
            // (Not for halted savers: SNA cannot carry HALT, the file holds PC on the HALT opcode, so an
            // interrupt accepted before the HALT is re-executed returns onto the HALT where the
            // original returns behind it - a limit of the format, not of the emulator.)
            twin.verif_set_frame_clocks(4);
            target.verif_set_frame_clocks(4);
        }
        for k in 0..24 {
            rig::step(&mut twin);
            rig::step(target);
            let a = rig::regs_view(twin.verif_cpu());
            let bb = rig::regs_view(target.verif_cpu());
            let mut a2 = a.clone();
            let mut b2 = bb.clone();
            // IFF1 is not carried (restored from IFF2): LD A,I exposes IFF2 only
            a2.iff1 = false;
            b2.iff1 = false;
            a2.memptr = 0;
            b2.memptr = 0;
            a2.q = 0;
            b2.q = 0;
            if a2 != b2 {
                let dd = diff_regs(&a2, &b2);
                ctx.violation(
                    &format!("C13:continuation:{}:{:?}", mname, rx),
                    &format!(
                        "after save+load into receiver {:?}, instruction #{} of the continuation behaves differently from the saved machine: {:?} halted {}/{} prefix {:02x}/{:02x}; saved machine {:x?}, restored {:x?}",
                        rx, k, dd, a.halted, bb.halted, a.prefix, bb.prefix, a, bb
                    ),
                    case.clone(),
                );
                break;
            }
        }
    }
    crate::vcore::fnv(&file[..27]) ^ (rx as u64)
}

// the recorder is passed by value to save_snapshot: wrap a &mut
struct RecRef<'a>(&'a mut VRecorder);
impl<'a> rustzx_core::host::DataRecorder for RecRef<'a> {
    fn write(&mut self, buf: &[u8]) -> Result<usize, rustzx_core::error::IoError> {
        self.0.data.extend_from_slice(buf);
        Ok(buf.len())
    }
}
impl<'a> rustzx_core::host::DataRecorder for &mut RecRef<'a> {
    fn write(&mut self, buf: &[u8]) -> Result<usize, rustzx_core::error::IoError> {
        self.0.data.extend_from_slice(buf);
        Ok(buf.len())
    }
}
fn rec_wrap(r: &mut VRecorder) -> RecRef<'_> {
    RecRef(r)
}

/// Saving is side-effect free also when it fails: a recorder that accepts only `cap` bytes (buffer
/// full / disk full, reported either as Ok(0) or as an error, and partial writes before that) makes
/// save_snapshot return Err; registers and all RAM of the running machine must be what they were,
/// and a later save into a good recorder must give the file a save before the failure gives.
fn failing_recorder(ctx: &Ctx) {
    struct CapRec {
        left: usize,
        err: bool,
        data: Vec<u8>,
    }
    impl rustzx_core::host::DataRecorder for CapRec {
        fn write(&mut self, buf: &[u8]) -> Result<usize, rustzx_core::error::IoError> {
            if self.left == 0 {
                return if self.err { Err(rustzx_core::error::IoError::HostAssetImplFailed) } else { Ok(0) };
            }
            let n = buf.len().min(self.left);
            self.data.extend_from_slice(&buf[..n]);
            self.left -= n;
            Ok(n)
        }
    }
    let mut jobs: Vec<(bool, u16, usize, bool)> = Vec::new();
    for m128 in [false, true] {
        let total = if m128 { 131103 } else { 49179 };
        for sp in if m128 { vec![0x8000u16] } else { vec![0x8000u16, 0x4002, 0xFFFF] } {
            for cap in [0usize, 1, 26, 27, 28, 16384 + 27, total - 1] {
                for err in [false, true] {
                    jobs.push((m128, sp, cap, err));
                }
            }
        }
    }
    crate::vcore::par_for(jobs.len(), 1, |j| {
        let (m128, sp, cap, err) = jobs[j];
        let s = SaveState { m128, pattern: 0, im: 1, iff2: true, border: 3, r: 0x7F, i: 0x80, latch: if m128 { 0x13 } else { 0 }, sp, later_write: None, halted: false };
        let mut saver = build_saver(&s);
        let mname = if m128 { "128k" } else { "48k" };
        let case = json!({"kind":"failing-recorder","m128":m128,"sp":sp,"cap":cap,"err":err});
        let mut good = CapRec { left: usize::MAX, err: false, data: Vec::new() };
        if saver.save_snapshot(SnapshotRecorder::Sna(&mut RecMut(&mut good))).is_err() {
            return;
        }
        let before_regs = rig::regs_view(saver.verif_cpu());
        let before_ram = all_ram(&saver, m128);
        let mut bad = CapRec { left: cap, err, data: Vec::new() };
        let r = std::panic::catch_unwind(std::panic::AssertUnwindSafe(|| saver.save_snapshot(SnapshotRecorder::Sna(&mut RecMut(&mut bad)))));
        ctx.add_eval(1);
        match r {
            Err(_) => {
                ctx.violation(&format!("C13:failing-recorder:panic:{}", mname), &format!("save_snapshot panicked when the recorder accepted only {} bytes", cap), case);
                return;
            }
            Ok(Ok(())) => {
                ctx.violation(&format!("C13:failing-recorder:reported-ok:{}", mname), &format!("save_snapshot returned Ok although the recorder accepted only {} bytes", cap), case);
                return;
            }
            Ok(Err(_)) => {}
        }
        let after_regs = rig::regs_view(saver.verif_cpu());
        let after_ram = all_ram(&saver, m128);
        if after_regs != before_regs || after_ram != before_ram {
            let d = diff_regs(&before_regs, &after_regs);
            ctx.violation(
                &format!("C13:failing-recorder:side-effect:{}", mname),
                &format!("a save that failed (recorder accepted {} bytes, then {}) changed the running machine: registers {:?} differ, RAM {} (SP={:04x})", cap, if err { "an error" } else { "Ok(0)" }, d, if after_ram != before_ram { "changed" } else { "unchanged" }, sp),
                case,
            );
            return;
        }
        let mut again = CapRec { left: usize::MAX, err: false, data: Vec::new() };
        let _ = saver.save_snapshot(SnapshotRecorder::Sna(&mut RecMut(&mut again)));
        if again.data != good.data {
            ctx.violation(&format!("C13:failing-recorder:later-save-differs:{}", mname), "a save after the failed one gives a different file", case);
        }
        ctx.outcome(0xFA11 ^ (cap as u64) << 4 ^ (m128 as u64) << 1 ^ err as u64);
    });
}

/// A recorder may accept fewer bytes than offered (the trait returns the count): whatever the
/// recorder's appetite - 1, 2, 3, 5, 7, 4095 bytes per call - the file is the same.
fn trickle_recorder(ctx: &Ctx) {
    struct Trickle {
        per_call: usize,
        data: Vec<u8>,
    }
    impl rustzx_core::host::DataRecorder for Trickle {
        fn write(&mut self, buf: &[u8]) -> Result<usize, rustzx_core::error::IoError> {
            let n = buf.len().min(self.per_call);
            self.data.extend_from_slice(&buf[..n]);
            Ok(n)
        }
    }
    for m128 in [false, true] {
        for latch in if m128 { vec![0x00u8, 0x12, 0x15, 0x07] } else { vec![0u8] } {
            let s = SaveState { m128, pattern: 1, im: 2, iff2: false, border: 5, r: 0x80, i: 0x7F, latch, sp: 0x8000, later_write: None, halted: false };
            let mut saver = build_saver(&s);
            let mut whole = Trickle { per_call: usize::MAX, data: Vec::new() };
            if saver.save_snapshot(SnapshotRecorder::Sna(&mut RecMut(&mut whole))).is_err() {
                continue;
            }
            for per_call in [1usize, 2, 3, 5, 7, 4095] {
                let mut t = Trickle { per_call, data: Vec::new() };
                let r = saver.save_snapshot(SnapshotRecorder::Sna(&mut RecMut(&mut t)));
                ctx.add_eval(1);
                if r.is_err() || t.data != whole.data {
                    let first = t.data.iter().zip(whole.data.iter()).position(|(a, b)| a != b);
                    ctx.violation(
                        &format!("C13:trickle-recorder:{}", if m128 { "128k" } else { "48k" }),
                        &format!("saving through a recorder that accepts at most {} byte(s) per call gives {} ({} bytes, first difference at {:?}); a recorder that accepts everything gives {} bytes (7FFD={:02x})", per_call, if r.is_err() { "an error" } else { "another file" }, t.data.len(), first, whole.data.len(), latch),
                        json!({"kind":"trickle-recorder","m128":m128,"latch":latch,"per_call":per_call}),
                    );
                    break;
                }
            }
            ctx.outcome(0x771C ^ (latch as u64) << 1 ^ m128 as u64);
        }
    }
}

struct RecMut<'a, T: rustzx_core::host::DataRecorder>(&'a mut T);
impl<'a, T: rustzx_core::host::DataRecorder> rustzx_core::host::DataRecorder for RecMut<'a, T> {
    fn write(&mut self, buf: &[u8]) -> Result<usize, rustzx_core::error::IoError> {
        self.0.write(buf)
    }
}
impl<'a, T: rustzx_core::host::DataRecorder> rustzx_core::host::DataRecorder for &mut RecMut<'a, T> {
    fn write(&mut self, buf: &[u8]) -> Result<usize, rustzx_core::error::IoError> {
        self.0.write(buf)
    }
}

pub fn states(quick: bool) -> Vec<SaveState> {
    let mut v = Vec::new();
    for m128 in [false, true] {
        let latches: Vec<u8> = if !m128 {
            vec![0]
        } else if quick {
            vec![0x00, 0x01, 0x07, 0x08, 0x10, 0x13, 0x1F, 0x20, 0x25, 0x2F, 0x3F, 0x45, 0x80, 0xC3, 0xE0, 0xFF]
        } else {
            (0..=255u8).collect()
        };
        let sps: Vec<u16> = if m128 { vec![0x8000, 0xBFFE] } else { vec![0x8000, 0x4002, 0x4001, 0x4000, 0x0001, 0x0000, 0xFFFF, 0x8001, 0x8002, 0xC000, 0xC001, 0xC002, 0x7FFF] };
        for (k, latch) in latches.iter().enumerate() {
            for (j, sp) in sps.iter().enumerate() {
                // the small domains rotate so that every value of each occurs with every latch/sp in thorough
                let combos: Vec<(u8, u8, bool, u8, u8, u8)> = if quick {
                    vec![((k + j) as u8 % 2, (k + j) as u8 % 3, (k + j) % 2 == 0, (k * 3 + j) as u8 % 8, [0x00u8, 0x7F, 0x80, 0xFF][(k + j) % 4], [0xFFu8, 0x80, 0x7F, 0x00][(k + 2 * j) % 4])]
                } else {
                    let mut c = Vec::new();
                    for pattern in 0..2u8 {
                        for im in 0..3u8 {
                            let iff2 = (pattern + im) % 2 == 0;
                            let border = (((k + j) % 8) as u8 + im * 3 + pattern) % 8;
                            let r = [0x00u8, 0x7F, 0x80, 0xFF][(k + im as usize) % 4];
                            let i = [0xFFu8, 0x80, 0x7F, 0x00][(j + pattern as usize) % 4];
                            c.push((pattern, im, iff2, border, r, i));
                        }
                    }
                    c
                };
                for (pattern, im, iff2, border, r, i) in combos {
                    v.push(SaveState { m128, pattern, im, iff2, border, r, i, latch: *latch, sp: *sp, later_write: None, halted: false });
                    if j == 0 && k % 4 == 0 {
                        v.push(SaveState { m128, pattern, im, iff2, border, r, i, latch: *latch, sp: *sp, later_write: None, halted: true });
                    }
                    if m128 && j == 0 {
                        // a later paging write: ignored if the latch is locked, effective otherwise
                        v.push(SaveState { m128, pattern, im, iff2, border, r, i, latch: *latch, sp: *sp, later_write: Some(latch ^ 0x17), halted: false });
                    }
                }
            }
        }
    }
    v
}

pub const RECEIVERS: [Receiver; 9] = [
    Receiver::SameNow,
    Receiver::SameAfter1,
    Receiver::SameAfter1000,
    Receiver::Fresh,
    Receiver::Halted,
    Receiver::MidPrefix,
    Receiver::AfterEi,
    Receiver::LockedOtherBank,
    Receiver::OtherEverything,
];

pub fn run(tier: Tier, seed: u64, replay: Option<String>) -> i32 {
    let ctx = Ctx::new("C13", tier, seed, "exploration");
    if let Some(path) = replay {
        let v: serde_json::Value = serde_json::from_slice(&rig::read_file(&path)).expect("replay json");
        let c = &v["case"];
        if c["kind"] == "failing-recorder" || c["kind"] == "trickle-recorder" {
            failing_recorder(&ctx);
            trickle_recorder(&ctx);
            let n = ctx.violation_classes();
            println!("replay: {} violation class(es) reproduced", n);
            return (n > 0) as i32;
        }
        let s = SaveState {
            m128: c["m128"].as_bool().unwrap(),
            pattern: c["pattern"].as_u64().unwrap() as u8,
            im: c["im"].as_u64().unwrap() as u8,
            iff2: c["iff2"].as_bool().unwrap(),
            border: c["border"].as_u64().unwrap() as u8,
            r: c["r"].as_u64().unwrap() as u8,
            i: c["i"].as_u64().unwrap() as u8,
            latch: c["latch"].as_u64().unwrap() as u8,
            sp: c["sp"].as_u64().unwrap() as u16,
            later_write: c["later_write"].as_u64().map(|x| x as u8),
            halted: c["halted"].as_bool().unwrap_or(false),
        };
        let rx = RECEIVERS.iter().find(|r| format!("{:?}", r) == c["receiver"].as_str().unwrap_or("")).copied().unwrap_or(Receiver::Fresh);
        println!("replay: {:?} into {:?}", s, rx);
        run_case(&ctx, &s, rx, true);
        let n = ctx.violation_classes();
        println!("replay: {} violation class(es) reproduced", n);
        return (n > 0) as i32;
    }
    let sts = states(!tier.is_thorough());
    let jobs: Vec<(usize, Receiver)> = (0..sts.len()).flat_map(|i| RECEIVERS.iter().map(move |r| (i, *r))).collect();
    par_for(jobs.len(), 2, |j| {
        let (i, rx) = jobs[j];
        let d = ctx.guard("save/load case", state_json(&sts[i], rx), || run_case(&ctx, &sts[i], rx, false)).unwrap_or(0);
        ctx.outcome(d);
        ctx.add_eval(1);
    });
    failing_recorder(&ctx);
    trickle_recorder(&ctx);
    ctx.add_nontrivial(jobs.len() as u64);
    ctx.sample(state_json(&sts[sts.len() / 2], Receiver::LockedOtherBank));
    ctx.note("save_states", json!(sts.len()));
    ctx.note("receivers", json!(RECEIVERS.iter().map(|r| format!("{:?}", r)).collect::<Vec<_>>()));
    ctx.note("not_judged", json!("IFF1 (not carried by SNA), MEMPTR/Q, 48K PC when the two bytes below SP are ROM, the two stack bytes holding PC in a 48K file"));
    ctx.finish(
        "save states (running, and halted on a HALT in front of the observer): two register patterns with all 26 register bytes pairwise distinct x IM x IFF2 x border x R,I in {00,7F,80,FF} x (128K) all 256 paging values reached by CPU-executed OUTs (16 in quick) x SP in {8000,4002,4001,4000,0001,0000,FFFF,8001,8002,C000,C001,C002,7FFF} (48K: the stack word at and across every 16K page boundary), RAM position-coded per bank; receivers: same machine now / 1 / 1000 instructions later, fresh, halted, between a DD prefix and its opcode, right after EI, paging locked on another bank, everything different. save_snapshot through a recording DataRecorder, load_snapshot (asset returning short reads of rotating sizes), then: registers, border, paging latch+lock+map, every RAM bank, and 24 lock-step instructions of an observer program against a pristine twin of the saved machine; registers and all RAM of the saving machine before/after the save, also when the save fails (recorders accepting 0, 1, 26, 27, 28, 16411, total-1 bytes, then Ok(0) or an error); recorders that accept 1/2/3/5/7/4095 bytes per call must receive the same file. distinct_nontrivial = (state, receiver) pairs",
        false,
        &["hooks: verif_cpu, verif_ram_bank, verif_paging, verif_set_frame_clocks (to keep the INT pulse out of the continuation)"],
    )
}
