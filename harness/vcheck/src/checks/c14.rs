//! C14 — loading a well-formed SNA/SZX/SCR file yields exactly the described state.
//! E-PROD over (abstract machine state x encoding of that state x receiving state x model pairing):
//! absolute oracle from the abstract state the writers encoded, differential oracle between
//! encodings of the same state.

use crate::checks::c13::{all_ram, machine, OUTCODE};
use crate::formats::*;
use crate::rig::{self, Emu, Opts, RegsView, VAsset};
use crate::vcore::{fnv, fnv_mix, par_for, Ctx, Tier};
use rustzx_core::host::{Screen, Snapshot};
use serde_json::json;
use std::time::Duration;

const IDLE: u16 = 0x9000;

#[derive(Clone, Copy, Debug, PartialEq, Eq)]
pub enum Enc {
    Sna,
    Szx { compressed: bool, order: u8, unknown: bool, minor: u8 },
}

#[derive(Clone, Copy, Debug, PartialEq, Eq)]
pub enum Rx {
    Fresh,
    Halted,
    MidPrefix,
    /// stopped between FD and the ED byte behind it: the next byte fetched is decoded as an ED opcode
    MidPrefixEd,
    Locked,
    Other,
    Running,
    /// 128K: the paging latch already holds exactly the byte the file carries (lock bit included)
    SameLatch,
}

fn receiver(m128: bool, rx: Rx, latch: u8) -> Emu {
    let mut e = machine(m128);
    match rx {
        Rx::Fresh => {}
        Rx::SameLatch => {
            if m128 {
                rig::cpu_out(&mut e, OUTCODE, 0x7FFD, latch);
            }
        }
        Rx::Halted => {
            rig::poke(&mut e, 0x8000, &[0x76]);
            e.verif_cpu().regs.set_pc(0x8000);
            rig::step(&mut e);
            rig::step(&mut e);
        }
        Rx::MidPrefix => {
            rig::poke(&mut e, 0x8000, &[0xFD, 0xFD, 0x00]);
            e.verif_cpu().regs.set_pc(0x8000);
            rig::step(&mut e);
        }
        Rx::MidPrefixEd => {
            rig::poke(&mut e, 0x8000, &[0xFD, 0xED, 0x44]);
            e.verif_cpu().regs.set_pc(0x8000);
            rig::step(&mut e);
        }
        Rx::Locked => {
            if m128 {
                rig::cpu_out(&mut e, OUTCODE, 0x7FFD, 0x2E);
            }
        }
        Rx::Other => {
            crate::checks::c13::fill_ram(&mut e, m128, 77);
            if m128 {
                rig::cpu_out(&mut e, OUTCODE, 0x7FFD, 0x1C);
                // AY registers of the previous program
                for r in 0..14u8 {
                    rig::cpu_out(&mut e, OUTCODE, 0xFFFD, r);
                    rig::cpu_out(&mut e, OUTCODE, 0xBFFD, 0xFF);
                }
            }
            rig::cpu_out(&mut e, OUTCODE, 0x00FE, 6);
            let mut r = RegsView::default();
            r.af = 0xDEAD;
            r.hl_ = 0xBEEF;
            r.pc = 0x4321;
            r.sp = 0x5000;
            r.im = 2;
            r.i = 0x99;
            rig::set_regs(e.verif_cpu(), &r);
        }
        Rx::Running => {
            // the ROM has been running for a few frames (interrupts enabled, mid-frame)
            let mut o = Opts::machine(m128);
            o.sound = false;
            let mut x = rig::emu(&o);
            for _ in 0..3 {
                let _ = x.emulate_frames(Duration::from_secs(100));
            }
            x.set_debug_interface(rig::VDebug::always());
            for _ in 0..1234 {
                rig::step(&mut x);
            }
            return x;
        }
    }
    e
}

fn encode(s: &MState, enc: Enc, halted: bool) -> Vec<u8> {
    match enc {
        Enc::Sna => {
            if s.m128 {
                sna128(s)
            } else {
                sna48(s)
            }
        }
        Enc::Szx { compressed, order, unknown, minor } => szx(s, &SzxOpts { compressed, order, unknown_chunks: unknown, big_unknown: unknown, halted, minor, ..SzxOpts::default() }),
    }
}

fn enc_ordinal(e: Enc) -> usize {
    match e {
        Enc::Sna => 0,
        Enc::Szx { compressed, order, unknown, minor } => 1 + compressed as usize + 2 * order as usize + unknown as usize + minor as usize,
    }
}

fn load(e: &mut Emu, enc: Enc, file: Vec<u8>) -> Result<Result<(), String>, String> {
    load_chunked(e, enc, file, 0)
}

/// `chunk` > 0: the asset never returns more than that many bytes per read call
fn load_chunked(e: &mut Emu, enc: Enc, file: Vec<u8>, chunk: usize) -> Result<Result<(), String>, String> {
    let r = std::panic::catch_unwind(std::panic::AssertUnwindSafe(|| match enc {
        Enc::Sna => e.load_snapshot(Snapshot::Sna(VAsset::new(file).chunked(chunk).eof_as_zero(chunk % 2 == 1))),
        Enc::Szx { .. } => e.load_snapshot(Snapshot::Szx(VAsset::new(file).chunked(chunk).eof_as_zero(chunk % 2 == 1))),
    }));
    match r {
        Ok(Ok(())) => Ok(Ok(())),
        Ok(Err(err)) => Ok(Err(format!("{:?}", err))),
        Err(p) => Err(p.downcast_ref::<String>().cloned().or_else(|| p.downcast_ref::<&str>().map(|s| s.to_string())).unwrap_or_else(|| "panic".into())),
    }
}

fn enc_name(e: Enc) -> String {
    match e {
        Enc::Sna => "sna".into(),
        Enc::Szx { compressed, order, unknown, minor } => format!("szx{}{}:order{}:v1.{}", if compressed { "-zlib" } else { "" }, if unknown { "+unknown-chunks" } else { "" }, order, minor),
    }
}

fn enc_class(e: Enc) -> &'static str {
    match e {
        Enc::Sna => "sna",
        Enc::Szx { .. } => "szx",
    }
}

pub fn state(m128: bool, variant: usize) -> MState {
    let mut s = MState::new(m128, (variant % 5) as u8 + 1);
    let latches = [0x00u8, 0x0F, 0x13, 0x25, 0x3F, 0x08];
    if m128 {
        s.port7ffd = latches[variant % latches.len()];
    }
    s.regs.im = (variant % 3) as u8;
    s.regs.iff1 = false;
    s.regs.iff2 = false;
    s.regs.pc = IDLE;
    s.regs.sp = 0xBF00;
    s.regs.i = [0x00u8, 0x3F, 0x80, 0xFF][variant % 4];
    s.regs.r = [0xFFu8, 0x00, 0x7F, 0x80][variant % 4];
    s.border = (variant % 8) as u8;
    s.port_fe = s.border;
    s.cycles = [0u32, 31, 40000, 14335, 69000, 33][variant % 6];
    // idle loop in bank 2
    s.banks[2][0x1000..0x1003].copy_from_slice(&[0xF3, 0x18, 0xFE]);
    // a visible picture in both screens
    for b in [5usize, 7] {
        for a in 0..6144 {
            s.banks[b][a] = ((a * 17 + variant + b) % 256) as u8;
        }
        for a in 6144..6912 {
            s.banks[b][a] = ((a * 29 + 3 * variant + b) % 128) as u8;
        }
    }
    s
}

fn json_case(m128: bool, variant: usize, enc: Enc, rx: Rx, what: &str) -> serde_json::Value {
    json!({"kind":what,"m128":m128,"variant":variant,"encoding":enc_name(enc),"receiver":format!("{:?}", rx)})
}

fn expected_regs(s: &MState, enc: Enc) -> RegsView {
    let mut r = s.regs.clone();
    if enc == Enc::Sna {
        r.iff1 = r.iff2;
    }
    r
}

fn ay_readback(e: &mut Emu) -> Vec<u8> {
    (0..16u8)
        .map(|r| {
            rig::cpu_out(e, OUTCODE, 0xFFFD, r);
            rig::cpu_in(e, OUTCODE, 0xFFFD)
        })
        .collect()
}

/// absolute oracle after a load
fn check_absolute(ctx: &Ctx, m128: bool, variant: usize, s: &MState, enc: Enc, rx: Rx) -> Option<Emu> {
    let mname = if m128 { "128k" } else { "48k" };
    let case = json_case(m128, variant, enc, rx, "absolute");
    let mut e = receiver(m128, rx, s.port7ffd);
    // the file arrives through an asset that returns short reads of a size rotating with the case
    let chunk = [0usize, 1, 2, 3, 7, 127, 128, 129][(variant + rx as usize * 3 + enc_ordinal(enc)) % 8];
    match load_chunked(&mut e, enc, encode(s, enc, false), chunk) {
        Ok(Ok(())) => {}
        Ok(Err(err)) => {
            ctx.violation(&format!("C14:load-error:{}:{}", enc_class(enc), mname), &format!("well-formed {} for the matching model rejected: {}", enc_name(enc), err), case);
            return None;
        }
        Err(p) => {
            ctx.violation(&format!("C14:load-panic:{}:{}", enc_class(enc), mname), &format!("well-formed {} panicked: {}", enc_name(enc), p), case);
            return None;
        }
    }
    let got = rig::regs_view(e.verif_cpu());
    let want = expected_regs(s, enc);
    let mut d = crate::checks::c13::diff_regs(&want, &got);
    if want.iff1 != got.iff1 {
        d.push("IFF1");
    }
    if got.halted {
        d.push("HALTED");
    }
    if got.prefix != 0 {
        d.push("pending-prefix");
    }
    if got.skip_int != (s.eilast && enc != Enc::Sna) {
        d.push("EI-latch");
    }
    if !d.is_empty() {
        ctx.violation(
            &format!("C14:registers:{}:{}:{}", enc_class(enc), mname, d.join("+")),
            &format!("{} loaded into receiver {:?}: {:?} differ; file describes {:x?}, machine has {:x?}", enc_name(enc), rx, d, want, got),
            case.clone(),
        );
    }
    if got.halted || got.prefix != 0 {
        // everything below drives the CPU; with a stale latch it would only produce follow-up noise
        return None;
    }
    // frame position: SZX carries it (dwCyclesStart); every encoding of the same state - chunk order
    // included - must leave the machine at that T-state of the frame
    if let Enc::Szx { .. } = enc {
        let fc = e.verif_frame_clocks() as u32;
        if fc != s.cycles {
            ctx.violation(
                &format!("C14:frame-position:{}", enc_class(enc)),
                &format!("{} with dwCyclesStart={} loaded into {:?}: the machine is at T={} of the frame", enc_name(enc), s.cycles, rx, fc),
                case.clone(),
            );
        }
    }
    let b: u8 = e.border_color().into();
    if b != s.border {
        ctx.violation(&format!("C14:border:{}:{}", enc_class(enc), mname), &format!("{}: border {} loaded as {}", enc_name(enc), s.border, b), case.clone());
    }
    if m128 {
        let p = e.verif_paging();
        let want_lock = s.port7ffd & 0x20 != 0;
        let want_screen = if s.port7ffd & 8 != 0 { 7 } else { 5 };
        let want_map = [(false, (s.port7ffd >> 4) & 1), (true, 5), (true, 2), (true, s.port7ffd & 7)];
        if p.0 != s.port7ffd || p.1 == want_lock || p.2 != want_screen || p.3 != want_map {
            ctx.violation(
                &format!("C14:paging:{}:{:?}", enc_class(enc), rx),
                &format!("{} with 7FFD={:02x} loaded into receiver {:?}: paging state {:?}", enc_name(enc), s.port7ffd, rx, p),
                case.clone(),
            );
            return None;
        }
    }
    // RAM
    let ram = all_ram(&e, m128);
    let order: Vec<usize> = if m128 { (0..8).collect() } else { vec![5, 2, 0] };
    for (page, bank) in order.iter().enumerate() {
        let mut want_bank = s.banks[*bank].clone();
        if !m128 && enc == Enc::Sna {
            // the file carries PC in the two bytes below SP
            let sp = s.regs.sp.wrapping_sub(2);
            let w = (sp >> 14) as usize;
            if [0usize, 5, 2, 0][w] == *bank && w != 0 {
                want_bank[(sp & 0x3FFF) as usize] = s.regs.pc as u8;
                want_bank[(sp.wrapping_add(1) & 0x3FFF) as usize] = (s.regs.pc >> 8) as u8;
            }
        }
        if ram[page] != want_bank {
            let o = (0..16384).find(|o| ram[page][*o] != want_bank[*o]).unwrap();
            ctx.violation(
                &format!("C14:memory:{}:{}", enc_class(enc), mname),
                &format!("{} into {:?}: RAM bank {} offset {:04x} is {:02x}, file says {:02x}", enc_name(enc), rx, bank, o, ram[page][o], want_bank[o]),
                case.clone(),
            );
            break;
        }
    }
    // the same RAM as the CPU sees it: every address of 4000..FFFF through the memory map the file
    // describes (48K: fixed 5/2/0; 128K: 5, 2 and the bank selected by the latch)
    {
        let top = if m128 { (s.port7ffd & 7) as usize } else { 0 };
        let windows = [5usize, 2, top];
        'cpu: for (w, bank) in windows.iter().enumerate() {
            for o in 0..16384usize {
                let a = (0x4000 + w * 0x4000 + o) as u16;
                let mut want = s.banks[*bank][o];
                if !m128 && enc == Enc::Sna {
                    let spx = s.regs.sp.wrapping_sub(2);
                    if a == spx {
                        want = s.regs.pc as u8;
                    } else if a == spx.wrapping_add(1) {
                        want = (s.regs.pc >> 8) as u8;
                    }
                }
                if e.peek(a) != want {
                    ctx.violation(
                        &format!("C14:memory-as-seen-by-cpu:{}:{}:window{}", enc_class(enc), mname, w + 1),
                        &format!("{} into {:?}: the CPU sees {:02x} at {:04x}, the file puts {:02x} there (bank {} in this window)", enc_name(enc), rx, e.peek(a), a, want, bank),
                        case.clone(),
                    );
                    break 'cpu;
                }
            }
        }
    }
    // AY read-back (SZX on machines with an AY)
    if m128 {
        if let Enc::Szx { .. } = enc {
            let sel_before = s.ay_selected;
            e.verif_set_frame_clocks(1000);
            let first = rig::cpu_in(&mut e, OUTCODE, 0xFFFD);
            if first != s.ay_regs[(sel_before & 15) as usize] {
                ctx.violation(&format!("C14:ay:selected-register:{}", enc_class(enc)), &format!("{}: reading FFFD right after the load gives {:02x}, selected register {} holds {:02x}", enc_name(enc), first, sel_before, s.ay_regs[(sel_before & 15) as usize]), case.clone());
            }
            let rb = ay_readback(&mut e);
            if rb[..] != s.ay_regs[..] {
                ctx.violation(&format!("C14:ay:register-readback:{}", enc_class(enc)), &format!("{}: AY registers read back {:02x?}, file says {:02x?}", enc_name(enc), rb, s.ay_regs), case.clone());
            }
            rig::cpu_out(&mut e, OUTCODE, 0xFFFD, sel_before);
            // restore the registers and the two code bytes our port traffic changed
            rig::set_regs(e.verif_cpu(), &expected_regs(s, enc));
            let off = (OUTCODE & 0x3FFF) as usize;
            rig::poke(&mut e, OUTCODE, &s.banks[2][off..off + 2]);
        }
    }
    Some(e)
}

/// display + run digest: two frames of the idle program, then the picture must be the decode of
/// the displayed bank; returns a digest of registers, RAM, both frame buffers
fn run_and_digest(ctx: &Ctx, e: &mut Emu, m128: bool, s: &MState, case: &serde_json::Value, enc: Enc) -> u64 {
    // run to the third frame boundary from here (the file formats do not all carry the frame phase)
    let f0 = e.verif_total_frames();
    let mut guard = 0;
    while e.verif_total_frames() < f0 + 3 && guard < 200_000 {
        rig::step(e);
        guard += 1;
    }
    let shown = if m128 && s.port7ffd & 8 != 0 { 7 } else { 5 };
    let mem = &s.banks[shown][..6912];
    let pix = &rig::canvas(e).pix;
    let d0 = decode_screen(mem, false);
    let d1 = decode_screen(mem, true);
    if pix[..] != d0[..] && pix[..] != d1[..] {
        let i = (0..pix.len()).find(|i| pix[*i] != d0[*i]).unwrap_or(0);
        ctx.violation(
            &format!("C14:display:{}:{}", enc_class(enc), if m128 { "128k" } else { "48k" }),
            &format!("{}: after the load the picture is not the decode of the file's screen (bank {}): pixel ({},{})", enc_name(enc), shown, i % 256, i / 256),
            case.clone(),
        );
    }
    let v = rig::regs_view(e.verif_cpu());
    let mut h = fnv(format!("{:?}", [v.af, v.bc, v.de, v.hl, v.af_, v.bc_, v.de_, v.hl_, v.ix, v.iy, v.sp, v.pc, v.i as u16, v.im as u16, v.iff2 as u16]).as_bytes());
    let mut ram = all_ram(e, m128);
    if !m128 {
        // a 48K SNA carries PC in the two bytes below SP; they are part of that format's RAM image
        let sp = s.regs.sp.wrapping_sub(2);
        for a in [sp, sp.wrapping_add(1)] {
            let w = (a >> 14) as usize;
            if w > 0 {
                ram[w - 1][(a & 0x3FFF) as usize] = 0;
            }
        }
    }
    for b in ram {
        h = fnv_mix(h, fnv(&b));
    }
    h = fnv_mix(h, fnv(&rig::canvas(e).pix));
    h = fnv_mix(h, fnv(&rig::border(e).pix));
    // "every RAM page as seen by the display": the 128K screen that is NOT displayed must have
    // reached the display side too. Flip bit 3 of the latch (when paging is not locked) without
    // rewriting anything and look at the picture (after the digest: the flip is not part of it).
    if m128 && s.port7ffd & 0x20 == 0 {
        let regs = rig::regs_view(e.verif_cpu());
        rig::cpu_out(e, OUTCODE, 0x7FFD, s.port7ffd ^ 0x08);
        rig::set_regs(e.verif_cpu(), &regs);
        let off = (OUTCODE & 0x3FFF) as usize;
        rig::poke(e, OUTCODE, &s.banks[2][off..off + 2]);
        let f0 = e.verif_total_frames();
        let mut guard = 0;
        while e.verif_total_frames() < f0 + 2 && guard < 200_000 {
            rig::step(e);
            guard += 1;
        }
        let other = if shown == 5 { 7 } else { 5 };
        let mem = &s.banks[other][..6912];
        let pix = &rig::canvas(e).pix;
        if pix[..] != decode_screen(mem, false)[..] && pix[..] != decode_screen(mem, true)[..] {
            let d0 = decode_screen(mem, false);
            let i = (0..pix.len()).find(|i| pix[*i] != d0[*i]).unwrap_or(0);
            ctx.violation(
                &format!("C14:display-other-screen:{}", enc_class(enc)),
                &format!("{}: after the load the program flips bit 3 of 7FFD (no memory write): the picture is not the decode of the file's bank {}: pixel ({},{})", enc_name(enc), other, i % 256, i / 256),
                case.clone(),
            );
        }
    }
    h
}

fn encodings(quick: bool, m128: bool) -> Vec<Enc> {
    let _ = m128;
    let mut v = vec![Enc::Sna, Enc::Szx { compressed: false, order: 0, unknown: false, minor: 4 }, Enc::Szx { compressed: true, order: 0, unknown: false, minor: 4 }, Enc::Szx { compressed: false, order: 3, unknown: true, minor: 5 }];
    if !quick {
        for order in 1..6u8 {
            v.push(Enc::Szx { compressed: order % 2 == 0, order, unknown: false, minor: 4 });
        }
        v.push(Enc::Szx { compressed: true, order: 5, unknown: true, minor: 5 });
    } else {
        v.push(Enc::Szx { compressed: true, order: 4, unknown: false, minor: 4 });
        v.push(Enc::Szx { compressed: false, order: 2, unknown: false, minor: 4 });
    }
    v
}

fn states_x_encodings(ctx: &Ctx, quick: bool) {
    let nvar = if quick { 6 } else { 30 };
    let rxs = [Rx::Fresh, Rx::Halted, Rx::MidPrefix, Rx::Locked, Rx::Other, Rx::Running, Rx::SameLatch];
    let mut jobs = Vec::new();
    for m128 in [false, true] {
        for v in 0..nvar {
            jobs.push((m128, v));
        }
    }
    par_for(jobs.len(), 1, |j| {
        let (m128, variant) = jobs[j];
        let s = state(m128, variant);
        let mut digests: Vec<(Enc, Rx, u64)> = Vec::new();
        for enc in encodings(quick, m128) {
            for (k, rx) in rxs.iter().enumerate() {
                if (quick && (k + variant) % 2 == 1 && *rx != Rx::Fresh && *rx != Rx::SameLatch) || (*rx == Rx::SameLatch && !m128) {
                    continue;
                }
                ctx.add_eval(1);
                if let Some(mut e) = check_absolute(ctx, m128, variant, &s, enc, *rx) {
                    let case = json_case(m128, variant, enc, *rx, "absolute");
                    let d = run_and_digest(ctx, &mut e, m128, &s, &case, enc);
                    digests.push((enc, *rx, d));
                }
            }
        }
        // differential: every encoding and every receiver must end in the same state
        // (SNA does not carry the AY block; the idle program makes no sound either way)
        if let Some((e0, r0, d0)) = digests.first().cloned() {
            for (e1, r1, d1) in digests.iter() {
                if *d1 != d0 {
                    ctx.violation(
                        &format!("C14:differential:{}-vs-{}:{}", enc_class(e0), enc_class(*e1), if m128 { "128k" } else { "48k" }),
                        &format!("the same state loaded from {} into {:?} and from {} into {:?} gives machines that differ after running 3 frames (registers, RAM or frame buffers)", enc_name(e0), r0, enc_name(*e1), r1),
                        json_case(m128, variant, *e1, *r1, "differential"),
                    );
                    break;
                }
            }
            ctx.outcome(d0);
        }
    });
}

/// AY state must be audible: a file describing a sounding AY gives sound, equal in strength to a
/// machine that had the same registers written through the ports
fn audible_ay(ctx: &Ctx) {
    let mut s = state(true, 1);
    s.ay_regs = [0x40, 0x00, 0x80, 0x00, 0x20, 0x01, 0x05, 0x38, 0x0F, 0x0C, 0x08, 0x00, 0x10, 0x00, 0x00, 0x00];
    let rms = |e: &mut Emu| -> f64 {
        rig::drain_audio(e);
        let mut acc = 0.0f64;
        let mut n = 0usize;
        for _ in 0..4 {
            let _ = e.emulate_frames(Duration::from_secs(100));
            let a = rig::drain_audio(e);
            let mean: f64 = a.iter().map(|x| x.0 as f64).sum::<f64>() / a.len().max(1) as f64;
            for x in a.iter() {
                acc += (x.0 as f64 - mean) * (x.0 as f64 - mean);
                n += 1;
            }
        }
        (acc / n.max(1) as f64).sqrt()
    };
    let mk = || {
        let mut o = Opts::k128();
        o.sound = true;
        o.ay = true;
        rig::emu(&o)
    };
    // reference: registers written through the ports
    let mut r = mk();
    r.set_debug_interface(rig::VDebug::always());
    rig::poke(&mut r, IDLE, &[0xF3, 0x18, 0xFE]);
    for (i, v) in s.ay_regs.iter().enumerate().take(14) {
        rig::cpu_out(&mut r, OUTCODE, 0xFFFD, i as u8);
        rig::cpu_out(&mut r, OUTCODE, 0xBFFD, *v);
    }
    r.verif_cpu().regs.set_pc(IDLE);
    let mut r2 = r;
    r2.set_debug_interface(rig::VDebug::at(&[]));
    let want = rms(&mut r2);
    for enc in [Enc::Szx { compressed: false, order: 0, unknown: false, minor: 4 }, Enc::Szx { compressed: true, order: 4, unknown: false, minor: 4 }] {
        let mut e = mk();
        if load(&mut e, enc, encode(&s, enc, false)) != Ok(Ok(())) {
            continue;
        }
        let got = rms(&mut e);
        ctx.add_eval(1);
        if want > 1e-4 && (got < want * 0.5 || got > want * 2.0) {
            ctx.violation(
                &format!("C14:ay:audible-state:{}", enc_class(enc)),
                &format!("{} describing a sounding AY (tones on A/B/C, volumes 15/12/8): output RMS after the load is {:.5}, a machine with the same registers written through the ports gives {:.5}", enc_name(enc), got, want),
                json!({"kind":"ay-audible","encoding":enc_name(enc)}),
            );
        }
        ctx.outcome((got * 1e5) as u64);
    }
    // "independent of what the machine was doing before", audible part: a one-shot envelope (shape
    // 9: decay, then hold at 0) sounds after the load; once it has decayed the SAME file is loaded
    // again into the same machine (every register value, R13 included, equals what the chip already
    // holds): the envelope must start again.
    let mut s2 = state(true, 1);
    s2.ay_regs = [0x80, 0x00, 0x00, 0x00, 0x00, 0x00, 0x00, 0x3E, 0x10, 0x00, 0x00, 0x00, 0x06, 0x09, 0x00, 0x00];
    for enc in [Enc::Szx { compressed: false, order: 0, unknown: false, minor: 4 }] {
        let mut e = mk();
        if load(&mut e, enc, encode(&s2, enc, false)) != Ok(Ok(())) {
            continue;
        }
        let first = rms(&mut e);
        for _ in 0..60 {
            let _ = e.emulate_frames(Duration::from_secs(100));
        }
        let decayed = rms(&mut e);
        if load(&mut e, enc, encode(&s2, enc, false)) != Ok(Ok(())) {
            continue;
        }
        let again = rms(&mut e);
        ctx.add_eval(1);
        if first < 1e-3 || decayed > first * 0.2 {
            ctx.note("ay_envelope_reload_vacuous", json!([first, decayed]));
        } else if again < first * 0.5 || again > first * 2.0 {
            ctx.violation(
                &format!("C14:ay:envelope-not-restarted-by-reload:{}", enc_class(enc)),
                &format!("{} describing an AY in the decay of a one-shot envelope: output RMS right after the load into a fresh machine {:.5}, after 60 frames {:.5}; loading the same file again into that machine gives {:.5} (the load must put the chip into the state the file describes whatever the chip held before)", enc_name(enc), first, decayed, again),
                json!({"kind":"ay-envelope-reload","encoding":enc_name(enc)}),
            );
        }
        ctx.outcome((again * 1e5) as u64 ^ 0xE9);
    }
}

/// 48K SZX whose AY chunk says "this 48K has an AY" (ZXSTAYF_128AY): the machine gets the AY with
/// the file's registers whatever its sound settings were before; without the flag a machine that had
/// the AY loses it (FFFD is then an unclaimed port).
fn szx48_ay_interface(ctx: &Ctx) {
    for had_ay in [false, true] {
        for flag in [true, false] {
            let mut s = state(false, 4);
            s.ay_flags = if flag { 2 } else { 0 };
            s.ay_chunk_48k = true;
            s.ay_selected = 5;
            let mut o = Opts::k48();
            o.sound = true;
            o.ay = had_ay;
            let mut e = rig::emu_stepping(&o);
            if had_ay {
                for r in 0..14u8 {
                    rig::cpu_out(&mut e, OUTCODE, 0xFFFD, r);
                    rig::cpu_out(&mut e, OUTCODE, 0xBFFD, 0xEE);
                }
            }
            let enc = Enc::Szx { compressed: false, order: 0, unknown: false, minor: 4 };
            if load(&mut e, enc, encode(&s, enc, false)) != Ok(Ok(())) {
                continue;
            }
            ctx.add_eval(1);
            e.verif_set_frame_clocks(1000);
            let case = json!({"kind":"szx48-ay","had_ay":had_ay,"flag":flag});
            let first = rig::cpu_in(&mut e, OUTCODE, 0xFFFD);
            let rb = ay_readback(&mut e);
            if flag {
                if first != s.ay_regs[5] || rb[..] != s.ay_regs[..] {
                    ctx.violation(
                        &format!("C14:ay:48k-ay-interface:{}", if had_ay { "machine-had-ay" } else { "machine-had-no-ay" }),
                        &format!("48K SZX with the AY-interface flag loaded into a 48K machine with the AY {}: FFFD right after the load reads {:02x} (selected register 5 holds {:02x}), registers read back {:02x?}, file says {:02x?}", if had_ay { "on" } else { "off" }, first, s.ay_regs[5], rb, s.ay_regs),
                        case,
                    );
                }
            } else if rb.iter().any(|v| *v != 0xFF) && rb[..] == s.ay_regs[..] {
                ctx.violation("C14:ay:48k-without-flag-keeps-ay", "48K SZX without the AY-interface flag: the AY still answers with the file's registers", case);
            }
            ctx.outcome(0xA9_48 ^ (had_ay as u64) << 1 ^ flag as u64);
        }
    }
}

/// HALTED and EILAST flags of SZX
fn halted_and_eilast(ctx: &Ctx) {
    for m128 in [false, true] {
        for (pc_after_halt, halt_byte_before) in [(true, false), (false, false), (false, true), (true, true)] {
            // program: X-1: HALT ; X: INC A ; X+1: INC B ; X+2: JR $ ; interrupts on, IM 1.
            // `halt_byte_before`: the byte at X-2 is 76h as well (e.g. the operand of LD A,76h)
            let x: u16 = 0x9001;
            let mut s = state(m128, 2);
            s.banks[2][0x1000..0x1005].copy_from_slice(&[0x76, 0x3C, 0x04, 0x18, 0xFE]);
            s.banks[2][0x0FFE..0x1000].copy_from_slice(&if halt_byte_before { [0x3E, 0x76] } else { [0x3E, 0x00] });
            s.regs.pc = if pc_after_halt { x } else { x - 1 };
            s.regs.iff1 = true;
            s.regs.iff2 = true;
            s.regs.im = 1;
            s.regs.af = 0x1000;
            s.regs.bc = 0x2000;
            s.cycles = 40000;
            let enc = Enc::Szx { compressed: false, order: 0, unknown: false, minor: 4 };
            let mut e = machine(m128);
            if load(&mut e, enc, encode(&s, enc, true)) != Ok(Ok(())) {
                ctx.violation("C14:halted:load-failed", "SZX with the HALTED flag does not load", json!({"kind":"halted","m128":m128}));
                continue;
            }
            ctx.add_eval(1);
            // step until INC A has run (back in the program with A changed); count the interrupts
            // accepted on the way: exactly one releases the HALT the file describes
            let mut visible = None;
            let f0 = e.verif_total_frames();
            let mut pushed = None;
            let mut accepts = 0u32;
            let mut prev_iff1 = true;
            for _ in 0..400000 {
                rig::step(&mut e);
                let v = rig::regs_view(e.verif_cpu());
                if prev_iff1 && !v.iff1 && (0x0038..0x0040).contains(&v.pc) {
                    accepts += 1;
                    if pushed.is_none() {
                        // the ROM handler may have pushed more: the return address is the first word pushed (SP0-2)
                        let a = s.regs.sp.wrapping_sub(2);
                        pushed = Some(e.peek(a) as u16 | (e.peek(a.wrapping_add(1)) as u16) << 8);
                    }
                }
                prev_iff1 = v.iff1;
                if (0x9000..0x9010).contains(&v.pc) && (v.af >> 8 != 0x10 || v.bc >> 8 != 0x20) {
                    visible = Some((v.af, v.bc, v.pc));
                    break;
                }
                if e.verif_total_frames() > f0 + 4 {
                    break;
                }
            }
            let conv = format!("{}{}", if pc_after_halt { "pc-after-halt" } else { "pc-on-halt" }, if halt_byte_before { ":76h-before-the-halt" } else { "" });
            let case = json!({"kind":"halted","m128":m128,"convention":conv});
            match (visible, accepts) {
                (Some((af, bc, pc)), 0) => {
                    ctx.violation(
                        &format!("C14:halted:executes-instructions{}:{}", if pc_after_halt { "" } else { "-pc-on-halt" }, if m128 { "128k" } else { "48k" }),
                        &format!("SZX with HALTED set and PC={:04x} (HALT at {:04x}): the machine executed instructions before any interrupt (AF={:04x} BC={:04x} PC={:04x})", s.regs.pc, x - 1, af, bc, pc),
                        case,
                    );
                }
                (Some(_), 1) => {
                    let p = pushed.unwrap_or(0);
                    if p != x {
                        ctx.violation(
                            &format!("C14:halted:pushed-address:{}", conv),
                            &format!("SZX HALTED with PC={:04x} (HALT at {:04x}): the interrupt that released the HALT pushed {:04x}, the instruction after the HALT is at {:04x}", s.regs.pc, x - 1, p, x),
                            case,
                        );
                    }
                    ctx.outcome(p as u64 ^ (halt_byte_before as u64) << 20);
                }
                (Some(_), n) => {
                    ctx.violation(
                        &format!("C14:halted:needs-{}-interrupts:{}", n, conv),
                        &format!("SZX HALTED with PC={:04x} (HALT at {:04x}, byte before it {:02x}): {} interrupts were accepted before the instruction after the HALT ran; the state the file describes leaves HALT on the first one", s.regs.pc, x - 1, if halt_byte_before { 0x76 } else { 0 }, n),
                        case,
                    );
                }
                (None, n) => {
                    ctx.violation(
                        &format!("C14:halted:never-continues:{}", conv),
                        &format!("SZX HALTED with PC={:04x}: the instruction after the HALT did not run within 4 frames ({} interrupts accepted)", s.regs.pc, n),
                        case,
                    );
                }
            }
        }
        // EILAST: no interrupt at the first boundary
        let mut s = state(m128, 3);
        s.regs.iff1 = true;
        s.regs.iff2 = true;
        s.regs.im = 1;
        s.eilast = true;
        s.cycles = 4;
        s.banks[2][0x1000..0x1003].copy_from_slice(&[0x00, 0x18, 0xFE]);
        let enc = Enc::Szx { compressed: false, order: 0, unknown: false, minor: 4 };
        for eilast in [true, false] {
            s.eilast = eilast;
            let mut e = machine(m128);
            if load(&mut e, enc, encode(&s, enc, false)) != Ok(Ok(())) {
                continue;
            }
            ctx.add_eval(1);
            let fc = e.verif_frame_clocks();
            if fc != 4 {
                // dwCyclesStart not honoured: the INT window test is moot; place the clock
                e.verif_set_frame_clocks(4);
            }
            rig::step(&mut e);
            let v = rig::regs_view(e.verif_cpu());
            let accepted = !v.iff1;
            if accepted == eilast {
                ctx.violation(
                    &format!("C14:eilast:{}", if eilast { "interrupt-accepted-right-after-EI" } else { "interrupt-not-accepted" }),
                    &format!("SZX with EILAST={} and INT active at the first boundary: interrupt accepted = {}", eilast, accepted),
                    json!({"kind":"eilast","m128":m128,"eilast":eilast}),
                );
            }
        }
    }
}

/// a file for the other model must be rejected (or represented correctly), and the receiver keeps running
fn model_mismatch(ctx: &Ctx) {
    for file128 in [false, true] {
        let emu128 = !file128;
        let s = state(file128, 1);
        for enc in [Enc::Sna, Enc::Szx { compressed: false, order: 0, unknown: false, minor: 4 }, Enc::Szx { compressed: true, order: 0, unknown: false, minor: 4 }] {
            let mut e = machine(emu128);
            rig::poke(&mut e, IDLE, &[0xF3, 0x18, 0xFE]);
            e.verif_cpu().regs.set_pc(IDLE);
            let res = load(&mut e, enc, encode(&s, enc, false));
            ctx.add_eval(1);
            let dir = if file128 { "128k-file-on-48k-machine" } else { "48k-file-on-128k-machine" };
            let case = json!({"kind":"mismatch","file128":file128,"encoding":enc_name(enc)});
            match res {
                Err(p) => {
                    ctx.violation(&format!("C14:model-mismatch:panic:{}:{}", enc_class(enc), dir), &format!("{} ({}) panicked: {}", enc_name(enc), dir, p), case);
                    continue;
                }
                Ok(Err(_)) => {}
                Ok(Ok(())) => {
                    // accepted: then the CPU-visible memory must be what the file says
                    let mut ok = true;
                    for a in [0x4000u16, 0x5000, 0x8000, 0x9000, 0xC000, 0xFFFF] {
                        if Some(e.peek(a)) != s.peek(a) {
                            ok = false;
                        }
                    }
                    if !ok {
                        ctx.violation(
                            &format!("C14:model-mismatch:applied-with-wrong-layout:{}:{}", enc_class(enc), dir),
                            &format!("{} ({}) was accepted but the CPU-visible memory is not what the file describes", enc_name(enc), dir),
                            case,
                        );
                    }
                }
            }
            // still able to run
            let r = std::panic::catch_unwind(std::panic::AssertUnwindSafe(|| {
                for _ in 0..30000 {
                    rig::step(&mut e);
                }
            }));
            if r.is_err() {
                ctx.violation(&format!("C14:model-mismatch:cannot-run-afterwards:{}", dir), "emulation panics after the rejected/accepted load", json!({"kind":"mismatch","file128":file128}));
            }
        }
    }
}

/// ZXSTZF_FSET of v1.5 files: whether the instruction executed last before the snapshot changed the flags.
/// The only instructions that can tell are SCF and CCF (flags 3/5 come from A alone when it did, from
/// A OR F when it did not): the first instruction of the restored program is one of them.
fn szx_fset(ctx: &Ctx) {
    for m128 in [false, true] {
        for fset in [false, true] {
            for (a, f) in [(0x00u8, 0x28u8), (0x00, 0x08), (0x20, 0x08), (0x08, 0x20), (0x28, 0x00)] {
                for op in [0x37u8, 0x3F] {
                    for order in [0u8, 2, 5] {
                        for rx in [Rx::Fresh, Rx::Other] {
                            let mut s = MState::new(m128, 5);
                            s.regs.af = (a as u16) << 8 | f as u16;
                            s.regs.pc = 0x9000;
                            s.regs.sp = 0xBF00;
                            s.regs.iff1 = false;
                            s.regs.iff2 = false;
                            s.banks[2][0x1000] = op;
                            let file = szx(&s, &SzxOpts { fset, order, minor: 5, ..SzxOpts::default() });
                            let mut e = receiver(m128, rx, 0);
                            ctx.add_eval(1);
                            let case = json!({"kind":"szx-fset","m128":m128,"fset":fset,"a":a,"f":f,"op":op,"order":order,"receiver":format!("{:?}", rx)});
                            if !matches!(load(&mut e, Enc::Szx { compressed: false, order, unknown: false, minor: 5 }, file), Ok(Ok(()))) {
                                ctx.violation("C14:szx-fset:load-failed", "well-formed v1.5 SZX rejected", case);
                                continue;
                            }
                            e.set_debug_interface(rig::VDebug::always());
                            rig::step(&mut e);
                            let got = rig::regs_view(e.verif_cpu()).af as u8;
                            let yx = if fset { a & 0x28 } else { (a | f) & 0x28 };
                            let carry = if op == 0x37 { 1 } else { (f & 1) ^ 1 };
                            let h = if op == 0x3F { (f & 1) << 4 } else { 0 };
                            let want = (f & 0xC4) | yx | h | carry;
                            if got != want {
                                ctx.violation(
                                    &format!("C14:szx-fset:{}", if fset { "set" } else { "clear" }),
                                    &format!(
                                        "v1.5 SZX (chunk order {}) with A={:02x} F={:02x} and ZXSTZF_FSET {}: the first instruction of the restored program, {}, leaves F={:02x}; the state the file describes gives F={:02x}",
                                        order,
                                        a,
                                        f,
                                        if fset { "set" } else { "clear" },
                                        if op == 0x37 { "SCF" } else { "CCF" },
                                        got,
                                        want
                                    ),
                                    case,
                                );
                            }
                            ctx.outcome(0xF5E7 ^ (got as u64) << 8 ^ (fset as u64) << 20);
                        }
                    }
                }
            }
        }
    }
}

fn scr_files(ctx: &Ctx) {
    for m128 in [false, true] {
        for k in 0..4usize {
            // the last two receivers have interrupts enabled (IM 1, ROM handler): the machine the
            // picture is loaded into keeps running its interrupt handler once per frame
            for (rx, ei) in [(Rx::Fresh, false), (Rx::Halted, false), (Rx::MidPrefix, false), (Rx::MidPrefixEd, false), (Rx::Other, false), (Rx::Fresh, true), (Rx::Halted, true)] {
                let content: Vec<u8> = (0..6912).map(|a| if a < 6144 { ((a * 17 + k * 31) % 256) as u8 } else { ((a * 29 + k) % 128) as u8 }).collect();
                let mut e = receiver(m128, rx, 0);
                if ei {
                    if m128 {
                        // the 48 BASIC ROM: its interrupt routine needs no initialised system variables
                        rig::cpu_out(&mut e, OUTCODE, 0x7FFD, 0x10);
                    }
                    let cpu = e.verif_cpu();
                    cpu.regs.set_iff1(true);
                    cpu.regs.set_iff2(true);
                    cpu.set_im(1);
                    cpu.regs.set_sp(0xFF00);
                }
                let r = std::panic::catch_unwind(std::panic::AssertUnwindSafe(|| e.load_screen(Screen::Scr(VAsset::new(scr(&content)).chunked([0usize, 1, 3, 128][(content[0] as usize) % 4])))));
                ctx.add_eval(1);
                let case = json!({"kind":"scr","m128":m128,"k":k,"receiver":format!("{:?}", rx),"interrupts_enabled":ei});
                let rx = format!("{:?}{}", rx, if ei { "+EI" } else { "" });
                if !matches!(r, Ok(Ok(()))) {
                    ctx.violation("C14:scr:load-failed", &format!("well-formed SCR rejected or panicked into receiver {}", rx), case);
                    continue;
                }
                let shown_bank = if m128 {
                    if e.verif_paging().0 & 8 != 0 {
                        7
                    } else {
                        5
                    }
                } else {
                    0
                };
                if e.verif_ram_bank(shown_bank)[..6912] != content[..] {
                    ctx.violation("C14:scr:memory", "display memory does not hold the SCR bytes", case.clone());
                }
                e.set_debug_interface(rig::VDebug::at(&[]));
                let nframes = if ei || rx.starts_with("MidPrefixEd") { 40 } else { 3 };
                for _ in 0..nframes {
                    let _ = e.emulate_frames(Duration::from_secs(100));
                }
                let pix = &rig::canvas(&e).pix;
                if e.verif_ram_bank(shown_bank)[..6912] != content[..] {
                    ctx.violation(&format!("C14:scr:memory-changed-while-showing:{}", rx), &format!("receiver {}: the display memory changed during the {} frames after load_screen", rx, nframes), case.clone());
                } else if pix[..] != decode_screen(&content, false)[..] && pix[..] != decode_screen(&content, true)[..] {
                    ctx.violation(&format!("C14:scr:picture:{}", rx), &format!("receiver {}: the picture after load_screen is not the decode of the SCR file", rx), case);
                }
                ctx.outcome(fnv(pix) ^ k as u64);
            }
        }
    }
}

pub fn run(tier: Tier, seed: u64, replay: Option<String>) -> i32 {
    let ctx = Ctx::new("C14", tier, seed, "exploration");
    let quick = !tier.is_thorough();
    if let Some(path) = replay {
        let v: serde_json::Value = serde_json::from_slice(&rig::read_file(&path)).expect("replay json");
        println!("replay: re-running the '{}' family of {}", v["case"]["kind"], v["case"]);
        match v["case"]["kind"].as_str().unwrap_or("") {
            "halted" | "eilast" => halted_and_eilast(&ctx),
            "szx48-ay" => szx48_ay_interface(&ctx),
            "mismatch" => model_mismatch(&ctx),
            "scr" => scr_files(&ctx),
            "szx-fset" => szx_fset(&ctx),
            "ay-audible" => audible_ay(&ctx),
            _ => states_x_encodings(&ctx, true),
        }
        let n = ctx.violation_classes();
        println!("replay: {} violation class(es) reproduced", n);
        return (n > 0) as i32;
    }
    states_x_encodings(&ctx, quick);
    audible_ay(&ctx);
    halted_and_eilast(&ctx);
    szx48_ay_interface(&ctx);
    model_mismatch(&ctx);
    scr_files(&ctx);
    szx_fset(&ctx);
    ctx.add_nontrivial(ctx.evaluations.load(std::sync::atomic::Ordering::Relaxed));
    ctx.sample(json_case(true, 3, Enc::Szx { compressed: true, order: 4, unknown: false, minor: 4 }, Rx::Locked, "absolute"));
    ctx.note("not_judged", json!("which of the two published conventions (PC on the HALT / after it) an SZX with HALTED uses; IFF1 and AY/hidden latches for SNA (not carried); mouse presence is checked only through SZX"));
    ctx.finish(
        "abstract states (registers incl. alternates, IM, I/R boundary values, border, six paging values incl. shadow screen and lock, position-coded RAM in all banks, pictures in both screens, AY register file) written by the spec-based writers as SNA, SZX stored, SZX zlib, SZX in 6 chunk orders, SZX with unknown chunks interleaved (one of them 70001 bytes long), v1.4/1.5; loaded through assets returning short reads of rotating sizes {whole,1,2,3,7,127,128,129} into seven receivers (fresh, halted, mid FD prefix, paging locked, everything different incl. AY, ROM running mid-frame, paging latch already equal to the file's byte); absolute oracle: registers, IFFs, IM, HALT/prefix/EI latches cleared, border, paging latch+lock+map, every RAM bank (by bank and as the CPU sees it at every address of 4000..FFFF), AY selected register and all 16 registers read back through the ports, picture after 3 frames = decode of the file's displayed screen, and of the other screen after the program flips bit 3; differential: all encodings x receivers of one state end in the same digest of registers, RAM and both frame buffers; audible AY state vs a port-written reference, and a one-shot envelope restarted by loading the same file again after it has decayed; 48K SZX with/without the AY-interface flag into 48K machines with the AY on/off; HALTED (both PC conventions, also with a 76h byte in front of the HALT; exactly one interrupt must release it and return behind the HALT) and EILAST; ZXSTZF_FSET set/clear observed by SCF/CCF as the first restored instruction (5 A/F pairs x 3 chunk orders x 2 receivers); files for the other model; SCR into four receivers. distinct_nontrivial = loads",
        false,
        &["writers in formats.rs follow the published SNA/SZX layouts, not the loaders"],
    )
}
