//! E-PROD for the Z80 core: for every one of the 1792 encodings, discover (on the reference
//! model) which 8-bit atoms of the machine state the instruction depends on, then enumerate the
//! full product of per-atom domains for those atoms, with two contrasting backgrounds for all
//! others, executing each tuple on the real `Z80::emulate` and on RefZ80 in lock step.
//! Mode Results (C01) compares registers/flags/hidden latches and the data-carrying bus events;
//! mode Cycles (C03) compares the complete call-granular bus-cycle list.

use crate::vcore::{par_for, Ctx};
use crate::z80lock::*;
use refz80::RefZ80;
use serde_json::json;
use std::collections::HashSet;
use std::sync::Mutex;

#[derive(Clone, Copy, PartialEq, Eq, Debug)]
pub enum Mode {
    Results,
    Cycles,
}

#[derive(Clone, Copy, Debug, PartialEq, Eq, Hash, PartialOrd, Ord)]
pub enum Atom {
    F,
    A,
    MemK,
    Op1,
    IoK,
    Op2,
    Q,
    MpH,
    B,
    C,
    H,
    L,
    D,
    E,
    IxH,
    IxL,
    IyH,
    IyL,
    SpH,
    SpL,
    MpL,
    I,
    R,
    Iff1,
    Iff2,
    Im,
    AltA,
    AltF,
    AltB,
    AltC,
    AltD,
    AltE,
    AltH,
    AltL,
}

/// priority order = declaration order
pub const ATOMS: [Atom; 34] = [
    Atom::F,
    Atom::A,
    Atom::MemK,
    Atom::Op1,
    Atom::IoK,
    Atom::Op2,
    Atom::Q,
    Atom::MpH,
    Atom::B,
    Atom::C,
    Atom::H,
    Atom::L,
    Atom::D,
    Atom::E,
    Atom::IxH,
    Atom::IxL,
    Atom::IyH,
    Atom::IyL,
    Atom::SpH,
    Atom::SpL,
    Atom::MpL,
    Atom::I,
    Atom::R,
    Atom::Iff1,
    Atom::Iff2,
    Atom::Im,
    Atom::AltA,
    Atom::AltF,
    Atom::AltB,
    Atom::AltC,
    Atom::AltD,
    Atom::AltE,
    Atom::AltH,
    Atom::AltL,
];

/// boundary alphabet (incl. the BCD boundaries 09/0A/99/9A/A0 that DAA distinguishes)
pub const ALPHA13: [u8; 18] = [0x00, 0x01, 0x02, 0x0F, 0x10, 0x7F, 0x80, 0x81, 0x8F, 0xF0, 0xFE, 0xFF, 0x55, 0x09, 0x0A, 0x99, 0x9A, 0xA0];
pub const ALPHA2: [u8; 2] = [0x00, 0xFF];
pub const ALPHA4: [u8; 4] = [0x00, 0xFF, 0x01, 0x80];

fn atom_max(a: Atom) -> usize {
    match a {
        Atom::Iff1 | Atom::Iff2 => 2,
        Atom::Im => 3,
        _ => 256,
    }
}

/// A case = encoding bytes + state + environment, with setters per atom
#[derive(Clone)]
pub struct Case {
    pub st: RefZ80,
    pub env: Env,
    pub code: [u8; 6],
    pub code_len: usize,
    /// a data byte placed explicitly (operand-relation layer): (address, value)
    pub data_preset: Option<(u16, u8)>,
    /// positions of operand atoms in `code`
    pub op1_at: usize,
    pub op2_at: usize,
}

impl Case {
    pub fn set(&mut self, a: Atom, v: u8) {
        let s = &mut self.st;
        match a {
            Atom::F => s.f = v,
            Atom::A => s.a = v,
            Atom::MemK => self.env.mem_key = v,
            Atom::Op1 => self.code[self.op1_at] = v,
            Atom::IoK => self.env.io_key = v,
            Atom::Op2 => self.code[self.op2_at] = v,
            Atom::Q => s.q = v,
            Atom::MpH => s.memptr = (s.memptr & 0x00FF) | ((v as u16) << 8),
            Atom::MpL => s.memptr = (s.memptr & 0xFF00) | v as u16,
            Atom::B => s.b = v,
            Atom::C => s.c = v,
            Atom::H => s.h = v,
            Atom::L => s.l = v,
            Atom::D => s.d = v,
            Atom::E => s.e = v,
            Atom::IxH => s.ix = (s.ix & 0x00FF) | ((v as u16) << 8),
            Atom::IxL => s.ix = (s.ix & 0xFF00) | v as u16,
            Atom::IyH => s.iy = (s.iy & 0x00FF) | ((v as u16) << 8),
            Atom::IyL => s.iy = (s.iy & 0xFF00) | v as u16,
            Atom::SpH => s.sp = (s.sp & 0x00FF) | ((v as u16) << 8),
            Atom::SpL => s.sp = (s.sp & 0xFF00) | v as u16,
            Atom::I => s.i = v,
            Atom::R => s.r = v,
            Atom::Iff1 => s.iff1 = v & 1 != 0,
            Atom::Iff2 => s.iff2 = v & 1 != 0,
            Atom::Im => s.im = v % 3,
            Atom::AltA => s.a_alt = v,
            Atom::AltF => s.f_alt = v,
            Atom::AltB => s.b_alt = v,
            Atom::AltC => s.c_alt = v,
            Atom::AltD => s.d_alt = v,
            Atom::AltE => s.e_alt = v,
            Atom::AltH => s.h_alt = v,
            Atom::AltL => s.l_alt = v,
        }
    }
    pub fn finalize(&mut self) {
        let pc = self.st.pc;
        let code = self.code;
        self.env.set_code(pc, &code[..self.code_len]);
        if let Some((a, v)) = self.data_preset {
            self.env.preset_byte(a, v);
        }
    }
}

/// kinds: 0 none, 1 CB, 2 ED, 3 DD, 4 FD, 5 DDCB, 6 FDCB
pub fn encoding_bytes(kind: u8, op: u8) -> Option<([u8; 6], usize, usize, usize)> {
    // returns (bytes, len, op1 position, op2 position); operand bytes are placeholders
    let f = 0xA7; // filler for a third operand byte (kept constant)
    Some(match kind {
        0 => {
            if matches!(op, 0xCB | 0xED | 0xDD | 0xFD) {
                return None;
            }
            ([op, 0, 0, f, f, f], 4, 1, 2)
        }
        1 => ([0xCB, op, f, f, f, f], 3, 2, 2),
        2 => ([0xED, op, 0, 0, f, f], 5, 2, 3),
        3 | 4 => {
            let p = if kind == 3 { 0xDD } else { 0xFD };
            if op == 0xCB {
                return None;
            }
            ([p, op, 0, 0, f, f], 6, 2, 3)
        }
        5 | 6 => {
            let p = if kind == 5 { 0xDD } else { 0xFD };
            ([p, 0xCB, 0, op, f, f], 5, 2, 2)
        }
        _ => return None,
    })
}

pub fn kind_name(kind: u8) -> &'static str {
    ["--", "CB", "ED", "DD", "FD", "DDCB", "FDCB"][kind as usize]
}

/// Background states: every 16-bit register recognisable and pairwise distinct
pub fn background(which: u8, pc: u16) -> RefZ80 {
    let mut s = RefZ80::new();
    if which == 0 {
        s.a = 0x0A;
        s.f = 0x00;
        s.b = 0x1B;
        s.c = 0x1C;
        s.d = 0x2D;
        s.e = 0x2E;
        s.h = 0x38;
        s.l = 0x39;
        s.a_alt = 0xA1;
        s.f_alt = 0xF1;
        s.b_alt = 0xB1;
        s.c_alt = 0xC1;
        s.d_alt = 0xD1;
        s.e_alt = 0xE1;
        s.h_alt = 0x91;
        s.l_alt = 0x92;
        s.ix = 0x4445;
        s.iy = 0x5556;
        s.sp = 0x6668;
        s.i = 0x77;
        s.r = 0x05;
        s.memptr = 0x9A9B;
        s.q = 0x00;
        s.im = 1;
    } else {
        s.a = 0xF5;
        s.f = 0xFF;
        s.b = 0xE4;
        s.c = 0xE3;
        s.d = 0xD2;
        s.e = 0xD1;
        s.h = 0xC7;
        s.l = 0xC6;
        s.a_alt = 0x5E;
        s.f_alt = 0x0E;
        s.b_alt = 0x4E;
        s.c_alt = 0x3E;
        s.d_alt = 0x2E;
        s.e_alt = 0x1E;
        s.h_alt = 0x6E;
        s.l_alt = 0x6D;
        s.ix = 0xBBBA;
        s.iy = 0xAAA9;
        s.sp = 0x9997;
        s.i = 0x88;
        s.r = 0xFA;
        s.memptr = 0x6564;
        s.q = 0xFF;
        s.iff1 = true;
        s.iff2 = true;
        s.im = 2;
    }
    s.pc = pc;
    s
}

pub fn base_case(kind: u8, op: u8, which: u8, pc: u16) -> Option<Case> {
    let (code, len, o1, o2) = encoding_bytes(kind, op)?;
    let mut c = Case {
        st: background(which, pc),
        env: Env::new(if which == 0 { 0x13 } else { 0xC8 }),
        code,
        code_len: len,
        data_preset: None,
        op1_at: o1,
        op2_at: o2,
    };
    c.set(Atom::Op1, if which == 0 { 0x05 } else { 0xFB });
    c.set(Atom::Op2, if which == 0 { 0x90 } else { 0x6F });
    Some(c)
}

pub struct Outcome {
    pub st: RefZ80,
    pub log: Log,
    pub steps: u32,
}

pub fn run_ref(c: &Case) -> Outcome {
    let mut rb = RBus::new(c.env.clone());
    let mut rc = c.st.clone();
    let (n, _) = ref_macro_step(&mut rc, &mut rb);
    Outcome { st: rc, log: rb.log, steps: n }
}

pub fn run_impl(c: &Case) -> Result<Outcome, String> {
    let mut ib = ImplBus::new(c.env.clone());
    let mut cpu = to_impl(&c.st);
    let r = std::panic::catch_unwind(std::panic::AssertUnwindSafe(|| impl_macro_step(&mut cpu, &mut ib)));
    match r {
        Ok(n) => Ok(Outcome { st: from_impl(&cpu), log: ib.log, steps: n }),
        Err(p) => Err(p
            .downcast_ref::<String>()
            .cloned()
            .or_else(|| p.downcast_ref::<&str>().map(|s| s.to_string()))
            .unwrap_or_else(|| "panic".into())),
    }
}

/// Reference-side dependency probe: does changing atom `a` change anything beyond `a` itself?
fn outcome_sig(c: &Case, a: Option<Atom>) -> (RefZ80, Vec<Ev>) {
    let o = run_ref(c);
    let mut st = o.st;
    // pass-through masking: express the atom's own final value relative to its initial value
    if let Some(a) = a {
        let i = &c.st;
        match a {
            Atom::F => st.f ^= i.f,
            Atom::A => st.a ^= i.a,
            Atom::B => st.b ^= i.b,
            Atom::C => st.c ^= i.c,
            Atom::D => st.d ^= i.d,
            Atom::E => st.e ^= i.e,
            Atom::H => st.h ^= i.h,
            Atom::L => st.l ^= i.l,
            Atom::IxH | Atom::IxL => st.ix ^= i.ix,
            Atom::IyH | Atom::IyL => st.iy ^= i.iy,
            Atom::SpH | Atom::SpL => st.sp ^= i.sp,
            Atom::MpH | Atom::MpL => st.memptr ^= i.memptr,
            Atom::I => st.i ^= i.i,
            Atom::R => st.r = st.r.wrapping_sub(i.r) & 0x7F | ((st.r ^ i.r) & 0x80),
            Atom::Iff1 => st.iff1 ^= i.iff1,
            Atom::Iff2 => st.iff2 ^= i.iff2,
            Atom::Im => st.im = (st.im + 3 - i.im) % 3,
            Atom::AltA => st.a_alt ^= i.a_alt,
            Atom::AltF => st.f_alt ^= i.f_alt,
            Atom::AltB => st.b_alt ^= i.b_alt,
            Atom::AltC => st.c_alt ^= i.c_alt,
            Atom::AltD => st.d_alt ^= i.d_alt,
            Atom::AltE => st.e_alt ^= i.e_alt,
            Atom::AltH => st.h_alt ^= i.h_alt,
            Atom::AltL => st.l_alt ^= i.l_alt,
            Atom::Q => {}
            Atom::MemK | Atom::Op1 | Atom::IoK | Atom::Op2 => {}
        }
        // Q mirrors F when flags were written: mask the same way
        if a == Atom::F && st.q != 0 {
            st.q ^= i.f;
        }
    }
    (st, o.log.slice().to_vec())
}

/// Discover the read set of an encoding on the reference model.
pub fn read_set(kind: u8, op: u8, pc: u16, seed: u64) -> Vec<Atom> {
    let mut bases: Vec<Case> = Vec::new();
    for which in 0..2 {
        if let Some(b) = base_case(kind, op, which, pc) {
            bases.push(b);
        }
    }
    if bases.is_empty() {
        return vec![];
    }
    // special bases selecting other control-flow variants
    let mut extra = Vec::new();
    for b in bases.iter() {
        for (f, bb, cc) in [(0x00u8, 0x01u8, 0x01u8), (0xFF, 0x00, 0x01), (0x00, 0x00, 0x02), (0xFF, 0x02, 0x00), (0x45, 0x01, 0x00)] {
            let mut x = b.clone();
            x.set(Atom::F, f);
            x.set(Atom::B, bb);
            x.set(Atom::C, cc);
            extra.push(x);
        }
        // A equal to the byte at (HL) (CPIR termination)
        let mut x = b.clone();
        let hl = x.st.hl();
        let mut y = x.clone();
        y.finalize();
        let m = y.env.read(hl);
        x.set(Atom::A, m);
        x.set(Atom::B, 0);
        x.set(Atom::C, 2);
        extra.push(x);
    }
    // seeded pseudo-random bases (they only choose the enumeration domain, never a verdict)
    let mut rng = crate::vcore::Rng(seed ^ ((kind as u64) << 8 | op as u64).wrapping_mul(0x9E3779B97F4A7C15) | 1);
    for _ in 0..6 {
        let mut x = bases[0].clone();
        for a in ATOMS.iter() {
            x.set(*a, rng.byte());
        }
        extra.push(x);
    }
    bases.extend(extra);
    let mut rel = Vec::new();
    for a in ATOMS.iter() {
        let mut relevant = false;
        'outer: for b in bases.iter() {
            let mut b0 = b.clone();
            b0.finalize();
            let s0 = outcome_sig(&b0, Some(*a));
            let vals: Vec<u8> = match a {
                Atom::Iff1 | Atom::Iff2 => vec![0, 1],
                Atom::Im => vec![0, 1, 2],
                _ => ALPHA13.to_vec(),
            };
            for v in vals {
                let mut b1 = b.clone();
                b1.set(*a, v);
                b1.finalize();
                let s1 = outcome_sig(&b1, Some(*a));
                if s1 != s0 {
                    relevant = true;
                    break 'outer;
                }
            }
        }
        if relevant {
            rel.push(*a);
        }
    }
    rel
}

/// Choose a domain per relevant atom within `budget` tuples: start from the 2-value contrast
/// alphabet and upgrade in priority order to 13 values, then to all 256.
pub fn choose_domains(rel: &[Atom], budget: u64, full_if_le3: bool) -> Vec<(Atom, Vec<u8>)> {
    let dom = |a: Atom, level: u8| -> Vec<u8> {
        let max = atom_max(a);
        if max <= 3 {
            return (0..max as u8).collect();
        }
        match level {
            0 => ALPHA2.to_vec(),
            1 => ALPHA4.to_vec(),
            2 => ALPHA13.to_vec(),
            _ => (0..=255u8).collect(),
        }
    };
    let byte_atoms = rel.iter().filter(|a| atom_max(**a) == 256).count();
    if full_if_le3 && byte_atoms <= 3 {
        return rel.iter().map(|a| (*a, dom(*a, 3))).collect();
    }
    // level 0 = not enumerated (background value only), then 2, 4, 13, 256 values
    let mut levels: Vec<u8> = vec![0; rel.len()];
    let domv = |a: Atom, level: u8| -> Vec<u8> {
        if level == 0 {
            return vec![];
        }
        dom(a, level - 1)
    };
    let size = |levels: &[u8]| -> u64 { rel.iter().zip(levels.iter()).map(|(a, l)| domv(*a, *l).len().max(1) as u64).product() };
    for target in 1..=4u8 {
        for i in 0..rel.len() {
            let old = levels[i];
            levels[i] = target;
            if size(&levels) > budget {
                levels[i] = old;
            }
        }
    }
    rel.iter().zip(levels.iter()).filter(|(_, l)| **l > 0).map(|(a, l)| (*a, domv(*a, *l))).collect()
}

pub struct EncStats {
    pub tuples: u64,
    pub outcomes: HashSet<u64>,
}

fn report(ctx: &Ctx, mode: Mode, kind: u8, op: u8, c: &Case, what: String, fields: String) {
    let prop = if mode == Mode::Results { "C01" } else { "C03" };
    let key = format!("{}:{}:{:02x}:{}", prop, kind_name(kind), op, fields);
    ctx.violation(
        &key,
        &format!("encoding {} {:02x} (bytes {}): {}", kind_name(kind), op, crate::vcore::hex(&c.code[..c.code_len]), what),
        case_json(kind, op, c),
    );
}

pub fn case_json(kind: u8, op: u8, c: &Case) -> serde_json::Value {
    let s = &c.st;
    json!({"kind":"single","enc_kind":kind,"op":op,"code":crate::vcore::hex(&c.code[..c.code_len]),
        "regs":[s.a,s.f,s.b,s.c,s.d,s.e,s.h,s.l,s.a_alt,s.f_alt,s.b_alt,s.c_alt,s.d_alt,s.e_alt,s.h_alt,s.l_alt,s.i,s.r,s.im,s.q],
        "regs16":[s.ix,s.iy,s.sp,s.pc,s.memptr],"iff":[s.iff1,s.iff2],"halted":s.halted,"inhibit":s.int_inhibit,
        "mem_key":c.env.mem_key,"io_key":c.env.io_key,"bg":c.env.bg,"int":c.env.int_line,"nmi":c.env.nmi_line,"ack":c.env.ack_byte,
        "data_preset": c.data_preset.map(|(a, v)| json!([a, v]))})
}

pub fn case_from_json(v: &serde_json::Value) -> Option<(u8, u8, Case)> {
    let kind = v["enc_kind"].as_u64()? as u8;
    let op = v["op"].as_u64()? as u8;
    let code = crate::vcore::unhex(v["code"].as_str()?);
    let r: Vec<u8> = v["regs"].as_array()?.iter().map(|x| x.as_u64().unwrap_or(0) as u8).collect();
    let w: Vec<u16> = v["regs16"].as_array()?.iter().map(|x| x.as_u64().unwrap_or(0) as u16).collect();
    let mut c = base_case(kind, op, 0, w[3])?;
    for (i, b) in code.iter().enumerate() {
        c.code[i] = *b;
    }
    let s = &mut c.st;
    s.a = r[0];
    s.f = r[1];
    s.b = r[2];
    s.c = r[3];
    s.d = r[4];
    s.e = r[5];
    s.h = r[6];
    s.l = r[7];
    s.a_alt = r[8];
    s.f_alt = r[9];
    s.b_alt = r[10];
    s.c_alt = r[11];
    s.d_alt = r[12];
    s.e_alt = r[13];
    s.h_alt = r[14];
    s.l_alt = r[15];
    s.i = r[16];
    s.r = r[17];
    s.im = r[18];
    s.q = r[19];
    s.ix = w[0];
    s.iy = w[1];
    s.sp = w[2];
    s.pc = w[3];
    s.memptr = w[4];
    s.iff1 = v["iff"][0].as_bool()?;
    s.iff2 = v["iff"][1].as_bool()?;
    s.halted = v["halted"].as_bool().unwrap_or(false);
    s.int_inhibit = v["inhibit"].as_bool().unwrap_or(false);
    c.env.mem_key = v["mem_key"].as_u64()? as u8;
    c.env.io_key = v["io_key"].as_u64()? as u8;
    c.env.bg = v["bg"].as_u64()? as u8;
    c.env.int_line = v["int"].as_bool().unwrap_or(false);
    c.env.nmi_line = v["nmi"].as_bool().unwrap_or(false);
    c.env.ack_byte = v["ack"].as_u64().unwrap_or(255) as u8;
    if let Some(p) = v["data_preset"].as_array() {
        c.data_preset = Some((p[0].as_u64().unwrap_or(0) as u16, p[1].as_u64().unwrap_or(0) as u8));
    }
    c.finalize();
    Some((kind, op, c))
}

/// Compare one case on both sides. Returns a digest of the reference outcome.
pub fn compare_case(ctx: &Ctx, mode: Mode, kind: u8, op: u8, c: &Case, verbose: bool) -> u64 {
    let mut r = run_ref(c);
    let mut i = match run_impl(c) {
        Ok(i) => i,
        Err(p) => {
            report(ctx, mode, kind, op, c, format!("implementation panicked: {}", p), "panic".into());
            return 0;
        }
    };
    if verbose {
        println!("  reference: {:x?}", r.st);
        println!("  impl     : {:x?}", i.st);
        println!("  ref bus  : {}", fmt_log(r.log.slice()));
        println!("  impl bus : {}", fmt_log(i.log.slice()));
    }
    normalize_q(c.st.pc, &mut i.st, &mut r.st);
    if i.steps == 0 {
        report(ctx, mode, kind, op, c, "prefix chain never resolves in the implementation".into(), "prefix-chain".into());
        return 0;
    }
    match mode {
        Mode::Results => {
            if let Some(d) = diff_states(&i.st, &r.st, false) {
                let fields = diff_fields(&i.st, &r.st, false).join("+");
                report(ctx, mode, kind, op, c, d, fields);
            } else {
                let di = data_events(i.log.slice());
                let dr = data_events(r.log.slice());
                if di != dr {
                    report(ctx, mode, kind, op, c, format!("memory/port access sequence differs: impl [{}] ref [{}]", fmt_log(&di), fmt_log(&dr)), "bus-data".into());
                }
            }
        }
        Mode::Cycles => {
            if i.log.slice() != r.log.slice() {
                let ti = i.log.t_states();
                let tr = r.log.t_states();
                let what = if ti != tr { "t-states" } else { "cycle-list" };
                // a disagreement in data (not timing) is C01's business: only report here if the
                // shape (kinds, addresses, lengths) differs
                let shape = |l: &[Ev]| -> Vec<Ev> {
                    l.iter()
                        .map(|e| match e {
                            Ev::M1(a, _) => Ev::M1(*a, 0),
                            Ev::Rd(a, _) => Ev::Rd(*a, 0),
                            Ev::Wr(a, _) => Ev::Wr(*a, 0),
                            Ev::IoR(a, _) => Ev::IoR(*a, 0),
                            Ev::IoW(a, _) => Ev::IoW(*a, 0),
                            x => *x,
                        })
                        .collect()
                };
                if shape(i.log.slice()) != shape(r.log.slice()) {
                    report(
                        ctx,
                        mode,
                        kind,
                        op,
                        c,
                        format!("bus cycles differ ({} T vs documented {} T): impl [{}] documented [{}]", ti, tr, fmt_log(i.log.slice()), fmt_log(r.log.slice())),
                        what.into(),
                    );
                }
            }
        }
    }
    let mut h = crate::vcore::fnv(&[r.st.a, r.st.f, r.st.b, r.st.c, r.st.d, r.st.e, r.st.h, r.st.l, r.st.r, r.st.q]);
    h = crate::vcore::fnv_mix(h, (r.st.pc as u64) << 32 | (r.st.sp as u64) << 16 | r.st.memptr as u64);
    h = crate::vcore::fnv_mix(h, r.log.t_states() as u64 | (r.log.n as u64) << 32);
    h
}

/// Enumerate one encoding. Returns number of tuples.
pub fn enumerate_encoding(ctx: &Ctx, mode: Mode, kind: u8, op: u8, pcs: &[u16], budget: u64, full_if_le3: bool, seed: u64, outcomes: &Mutex<HashSet<u64>>) -> u64 {
    let mut total = 0u64;
    let mut local: HashSet<u64> = HashSet::new();
    for pc in pcs {
        let rel = read_set(kind, op, *pc, seed);
        let doms = choose_domains(&rel, budget, full_if_le3);
        let n: u64 = doms.iter().map(|(_, d)| d.len() as u64).product();
        for which in 0..2u8 {
            let base = match base_case(kind, op, which, *pc) {
                Some(b) => b,
                None => return 0,
            };
            // mixed radix counter
            let mut idx = vec![0usize; doms.len()];
            let mut c = base.clone();
            for t in 0..n {
                if t == 0 {
                    for (k, (a, d)) in doms.iter().enumerate() {
                        c.set(*a, d[idx[k]]);
                    }
                }
                c.finalize();
                let h = compare_case(ctx, mode, kind, op, &c, false);
                if local.len() < 4096 {
                    local.insert(h);
                }
                // increment
                let mut k = 0;
                while k < doms.len() {
                    idx[k] += 1;
                    if idx[k] < doms[k].1.len() {
                        c.set(doms[k].0, doms[k].1[idx[k]]);
                        break;
                    }
                    idx[k] = 0;
                    c.set(doms[k].0, doms[k].1[0]);
                    k += 1;
                }
            }
            total += n;
        }
        if *pc == pcs[0] && kind <= 2 && op % 64 == 9 {
            ctx.sample(json!({"encoding": format!("{} {:02x}", kind_name(kind), op), "read_set": format!("{:?}", rel),
                "domain_sizes": doms.iter().map(|(a, d)| format!("{:?}:{}", a, d.len())).collect::<Vec<_>>(), "tuples_per_background": n}));
        }
    }
    // operand-relation layer: the tuples above give memory a keyed hash, so a relation between A and
    // the byte an instruction reads (equal, off by one, half-borrow neighbours, ...) occurs only by
    // chance. For every encoding whose reference run reads a data byte: all 256 values of A x the
    // byte at that address = A - d for d in a relation alphabet x F in {00, FF} x both backgrounds.
    {
        let pc = pcs[0];
        for which in 0..2u8 {
            let base = match base_case(kind, op, which, pc) {
                Some(b) => b,
                None => break,
            };
            let mut probe = base.clone();
            probe.finalize();
            let r = run_ref(&probe);
            let code_range = pc..pc.wrapping_add(base.code_len as u16);
            let data_addr = r.log.slice().iter().find_map(|e| match e {
                Ev::Rd(a, _) if !code_range.contains(a) => Some(*a),
                _ => None,
            });
            let addr = match data_addr {
                Some(a) => a,
                None => break,
            };
            for f in [0x00u8, 0xFF] {
                for a in 0..=255u8 {
                    for d in [0x00u8, 0x01, 0xFF, 0x10, 0xF0, 0x0F, 0xF1, 0x80] {
                        let mut c = base.clone();
                        c.set(Atom::A, a);
                        c.set(Atom::F, f);
                        c.data_preset = Some((addr, a.wrapping_sub(d)));
                        c.finalize();
                        let h = compare_case(ctx, mode, kind, op, &c, false);
                        if local.len() < 4096 {
                            local.insert(h);
                        }
                        total += 1;
                    }
                }
            }
        }
    }
    let mut g = outcomes.lock().unwrap();
    for h in local {
        if g.len() < 500_000 {
            g.insert(h);
        }
    }
    total
}

pub fn all_encodings() -> Vec<(u8, u8)> {
    let mut v = Vec::new();
    for kind in 0..7u8 {
        for op in 0..=255u8 {
            if encoding_bytes(kind, op).is_some() {
                v.push((kind, op));
            }
        }
    }
    v
}

pub fn run_product(ctx: &Ctx, mode: Mode, pcs: &[u16], budget: u64, full_if_le3: bool, seed: u64) {
    let encs = all_encodings();
    let outcomes: Mutex<HashSet<u64>> = Mutex::new(HashSet::new());
    let total = std::sync::atomic::AtomicU64::new(0);
    par_for(encs.len(), 1, |i| {
        let (kind, op) = encs[i];
        let n = enumerate_encoding(ctx, mode, kind, op, pcs, budget, full_if_le3, seed, &outcomes);
        total.fetch_add(n, std::sync::atomic::Ordering::Relaxed);
    });
    let n = total.load(std::sync::atomic::Ordering::Relaxed);
    ctx.add_eval(n);
    // every tuple is a distinct pre-state from which one transition is taken
    ctx.add_states(n);
    ctx.add_transitions(n);
    ctx.add_traces(n);
    ctx.note("encodings", json!(encs.len()));
    ctx.note("single_step_tuples", json!(n));
    ctx.outcomes_bulk(&outcomes.lock().unwrap());
}
