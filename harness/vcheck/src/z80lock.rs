//! Lock-step machinery between the real `rustzx_z80::Z80` and the independent `RefZ80`:
//! a sparse deterministic memory/port environment shared by both sides, bus-call logs in one
//! vocabulary, state injection/extraction and the aligned macro-step comparison.

use refz80::{RefBus, RefZ80, StepKind};
use rustzx_z80::{Opcode, Prefix, Z80Bus, Z80};

/// One bus event in the common vocabulary (rustzx calls are folded into it, see `ImplBus`)
#[derive(Clone, Copy, Debug, PartialEq, Eq, Hash)]
pub enum Ev {
    M1(u16, u8),
    Rd(u16, u8),
    Wr(u16, u8),
    /// one single T-state with `addr` on the bus
    Dl(u16),
    IoR(u16, u8),
    IoW(u16, u8),
    Ack(u8),
    Idle(u8),
    /// a call shape outside the documented vocabulary (e.g. a 2-T delay issued as one call)
    Odd(u8, u16, u8),
}

pub const MAX_EV: usize = 48;

#[derive(Clone)]
pub struct Log {
    pub n: usize,
    pub ev: [Ev; MAX_EV],
    pub overflow: bool,
}

impl Log {
    pub fn new() -> Log {
        Log {
            n: 0,
            ev: [Ev::Idle(0); MAX_EV],
            overflow: false,
        }
    }
    #[inline]
    pub fn push(&mut self, e: Ev) {
        if self.n < MAX_EV {
            self.ev[self.n] = e;
            self.n += 1;
        } else {
            self.overflow = true;
        }
    }
    pub fn slice(&self) -> &[Ev] {
        &self.ev[..self.n]
    }
    pub fn clear(&mut self) {
        self.n = 0;
        self.overflow = false;
    }
    pub fn t_states(&self) -> u32 {
        self.slice()
            .iter()
            .map(|e| match e {
                Ev::M1(..) => 4,
                Ev::Rd(..) | Ev::Wr(..) => 3,
                Ev::Dl(_) => 1,
                Ev::IoR(..) | Ev::IoW(..) => 4,
                Ev::Ack(_) => 0,
                Ev::Idle(n) => *n as u32,
                Ev::Odd(_, _, n) => *n as u32,
            })
            .sum()
    }
}

/// Deterministic environment: memory = preset bytes over a background function xor a key,
/// ports = function of the port xor a key, plus the writes of the current macro-step.
#[derive(Clone)]
pub struct Env {
    pub preset: [(u16, u8); 8],
    pub npreset: usize,
    pub writes: [(u16, u8); 8],
    pub nwrites: usize,
    pub mem_key: u8,
    pub io_key: u8,
    pub bg: u8,
    pub int_line: bool,
    pub nmi_line: bool,
    pub ack_byte: u8,
}

impl Env {
    pub fn new(bg: u8) -> Env {
        Env {
            preset: [(0, 0); 8],
            npreset: 0,
            writes: [(0, 0); 8],
            nwrites: 0,
            mem_key: 0,
            io_key: 0,
            bg,
            int_line: false,
            nmi_line: false,
            ack_byte: 0xFF,
        }
    }
    #[inline]
    pub fn background(&self, addr: u16) -> u8 {
        // position coded: adjacent addresses differ, low and high byte both matter
        let a = addr as u32;
        ((a.wrapping_mul(0x9D) >> 3) as u8)
            .wrapping_add((a >> 8) as u8)
            .wrapping_add(self.bg)
            ^ self.mem_key
    }
    #[inline]
    pub fn read(&self, addr: u16) -> u8 {
        for i in (0..self.nwrites).rev() {
            if self.writes[i].0 == addr {
                return self.writes[i].1;
            }
        }
        for i in 0..self.npreset {
            if self.preset[i].0 == addr {
                return self.preset[i].1;
            }
        }
        self.background(addr)
    }
    #[inline]
    pub fn write(&mut self, addr: u16, v: u8) {
        if self.nwrites < 8 {
            self.writes[self.nwrites] = (addr, v);
            self.nwrites += 1;
        } else {
            // shift (never happens within one instruction: at most 2-3 writes)
            self.writes.copy_within(1..8, 0);
            self.writes[7] = (addr, v);
        }
    }
    #[inline]
    pub fn io(&self, port: u16) -> u8 {
        ((port as u32).wrapping_mul(0x35) as u8).wrapping_add((port >> 8) as u8) ^ self.io_key ^ 0x5A
    }
    pub fn set_code(&mut self, pc: u16, bytes: &[u8]) {
        self.npreset = 0;
        for (i, b) in bytes.iter().enumerate() {
            self.preset[self.npreset] = (pc.wrapping_add(i as u16), *b);
            self.npreset += 1;
        }
    }
    pub fn preset_byte(&mut self, addr: u16, v: u8) {
        if self.npreset < 8 {
            self.preset[self.npreset] = (addr, v);
            self.npreset += 1;
        }
    }
}

// ------------------------------------------------------------------ implementation side

pub struct ImplBus {
    pub env: Env,
    pub log: Log,
    /// pending wait_mreq (addr, clk) waiting for its read_internal/write_internal
    pending: Option<(u16, usize)>,
    pub line_samples: u32,
    pub unknown_opcodes: u32,
}

impl ImplBus {
    pub fn new(env: Env) -> ImplBus {
        ImplBus {
            env,
            log: Log::new(),
            pending: None,
            line_samples: 0,
            unknown_opcodes: 0,
        }
    }
    #[inline]
    fn flush_pending(&mut self) {
        if let Some((a, c)) = self.pending.take() {
            // a wait with MREQ that is not followed by a data access
            self.log.push(Ev::Odd(1, a, c as u8));
        }
    }
}

impl Z80Bus for ImplBus {
    #[inline]
    fn read_internal(&mut self, addr: u16) -> u8 {
        let v = self.env.read(addr);
        match self.pending.take() {
            Some((a, 4)) if a == addr => self.log.push(Ev::M1(addr, v)),
            Some((a, 3)) if a == addr => self.log.push(Ev::Rd(addr, v)),
            Some((a, c)) => {
                self.log.push(Ev::Odd(2, a, c as u8));
                self.log.push(Ev::Rd(addr, v));
            }
            None => self.log.push(Ev::Odd(3, addr, 0)),
        }
        v
    }
    #[inline]
    fn write_internal(&mut self, addr: u16, data: u8) {
        match self.pending.take() {
            Some((a, 3)) if a == addr => self.log.push(Ev::Wr(addr, data)),
            Some((a, c)) => {
                self.log.push(Ev::Odd(4, a, c as u8));
                self.log.push(Ev::Wr(addr, data));
            }
            None => self.log.push(Ev::Odd(5, addr, 0)),
        }
        self.env.write(addr, data);
    }
    #[inline]
    fn wait_mreq(&mut self, addr: u16, clk: usize) {
        self.flush_pending();
        self.pending = Some((addr, clk));
    }
    #[inline]
    fn wait_no_mreq(&mut self, addr: u16, clk: usize) {
        self.flush_pending();
        if clk == 1 {
            self.log.push(Ev::Dl(addr));
        } else {
            self.log.push(Ev::Odd(6, addr, clk as u8));
        }
    }
    #[inline]
    fn wait_internal(&mut self, clk: usize) {
        self.flush_pending();
        self.log.push(Ev::Idle(clk as u8));
    }
    #[inline]
    fn read_io(&mut self, port: u16) -> u8 {
        self.flush_pending();
        let v = self.env.io(port);
        self.log.push(Ev::IoR(port, v));
        v
    }
    #[inline]
    fn write_io(&mut self, port: u16, data: u8) {
        self.flush_pending();
        self.log.push(Ev::IoW(port, data));
    }
    #[inline]
    fn read_interrupt(&mut self) -> u8 {
        self.log.push(Ev::Ack(self.env.ack_byte));
        self.env.ack_byte
    }
    fn reti(&mut self) {}
    fn halt(&mut self, _halted: bool) {}
    #[inline]
    fn int_active(&self) -> bool {
        self.env.int_line
    }
    #[inline]
    fn nmi_active(&self) -> bool {
        self.env.nmi_line
    }
    fn pc_callback(&mut self, _addr: u16) {}
    fn process_unknown_opcode(&mut self, _prefix: Prefix, _opcode: Opcode) {
        self.unknown_opcodes += 1;
    }
}

// ------------------------------------------------------------------ reference side

pub struct RBus {
    pub env: Env,
    pub log: Log,
    /// lines are answered only at the first sampling boundary of a macro-step
    pub armed: bool,
}

impl RBus {
    pub fn new(env: Env) -> RBus {
        RBus {
            env,
            log: Log::new(),
            armed: true,
        }
    }
}

impl RefBus for RBus {
    #[inline]
    fn m1(&mut self, addr: u16) -> u8 {
        let v = self.env.read(addr);
        self.log.push(Ev::M1(addr, v));
        v
    }
    #[inline]
    fn mem_read(&mut self, addr: u16) -> u8 {
        let v = self.env.read(addr);
        self.log.push(Ev::Rd(addr, v));
        v
    }
    #[inline]
    fn mem_write(&mut self, addr: u16, val: u8) {
        self.log.push(Ev::Wr(addr, val));
        self.env.write(addr, val);
    }
    #[inline]
    fn delay(&mut self, addr: u16, n: u8) {
        for _ in 0..n {
            self.log.push(Ev::Dl(addr));
        }
    }
    #[inline]
    fn io_read(&mut self, port: u16) -> u8 {
        let v = self.env.io(port);
        self.log.push(Ev::IoR(port, v));
        v
    }
    #[inline]
    fn io_write(&mut self, port: u16, val: u8) {
        self.log.push(Ev::IoW(port, val));
    }
    #[inline]
    fn int_ack(&mut self) -> u8 {
        self.log.push(Ev::Ack(self.env.ack_byte));
        self.env.ack_byte
    }
    #[inline]
    fn idle(&mut self, n: u8) {
        self.log.push(Ev::Idle(n));
    }
    #[inline]
    fn int_line(&mut self) -> bool {
        let v = self.armed && self.env.int_line;
        self.armed = false;
        v
    }
    #[inline]
    fn nmi_line(&mut self) -> bool {
        // nmi is sampled before int at the same boundary: do not disarm here
        self.armed && self.env.nmi_line
    }
}

// ------------------------------------------------------------------ state

/// Architectural CPU state in plain fields (same layout as RefZ80)
pub type CpuState = RefZ80;

pub fn to_impl(s: &CpuState) -> Z80 {
    let mut cpu = Z80::default();
    let r = &mut cpu.regs;
    r.set_af(u16::from_be_bytes([s.a_alt, s.f_alt]));
    r.set_bc(u16::from_be_bytes([s.b_alt, s.c_alt]));
    r.set_de(u16::from_be_bytes([s.d_alt, s.e_alt]));
    r.set_hl(u16::from_be_bytes([s.h_alt, s.l_alt]));
    r.exx();
    r.swap_af_alt();
    r.set_af(u16::from_be_bytes([s.a, s.f]));
    r.set_bc(u16::from_be_bytes([s.b, s.c]));
    r.set_de(u16::from_be_bytes([s.d, s.e]));
    r.set_hl(u16::from_be_bytes([s.h, s.l]));
    r.set_ix(s.ix);
    r.set_iy(s.iy);
    r.set_sp(s.sp);
    r.set_pc(s.pc);
    r.set_i(s.i);
    r.set_r(s.r);
    r.set_iff1(s.iff1);
    r.set_iff2(s.iff2);
    r.set_mem_ptr(s.memptr);
    r.verif_set_q(s.q);
    cpu.set_im(s.im);
    cpu.halted = s.halted;
    cpu.skip_interrupt = s.int_inhibit;
    cpu
}

/// Extract the architectural state of the real CPU (alternate set through an exx round trip on a
/// clone, never through the `*_alt` getters)
pub fn from_impl(cpu: &Z80) -> CpuState {
    let mut c = cpu.clone();
    let r = &cpu.regs;
    let [a, f] = r.get_af().to_be_bytes();
    let [b, cc] = r.get_bc().to_be_bytes();
    let [d, e] = r.get_de().to_be_bytes();
    let [h, l] = r.get_hl().to_be_bytes();
    c.regs.exx();
    c.regs.swap_af_alt();
    let [a2, f2] = c.regs.get_af().to_be_bytes();
    let [b2, c2] = c.regs.get_bc().to_be_bytes();
    let [d2, e2] = c.regs.get_de().to_be_bytes();
    let [h2, l2] = c.regs.get_hl().to_be_bytes();
    let p = cpu.verif_active_prefix();
    RefZ80 {
        a,
        f,
        b,
        c: cc,
        d,
        e,
        h,
        l,
        a_alt: a2,
        f_alt: f2,
        b_alt: b2,
        c_alt: c2,
        d_alt: d2,
        e_alt: e2,
        h_alt: h2,
        l_alt: l2,
        ix: r.get_ix(),
        iy: r.get_iy(),
        sp: r.get_sp(),
        pc: r.get_pc(),
        i: r.get_i(),
        r: r.get_r(),
        iff1: r.get_iff1(),
        iff2: r.get_iff2(),
        im: cpu.get_im().into(),
        halted: cpu.halted,
        memptr: r.get_mem_ptr(),
        q: r.verif_q().0,
        pending_prefix: if p == 0xDD || p == 0xFD { p } else { 0 },
        int_inhibit: cpu.skip_interrupt,
    }
}

/// One aligned macro-step on the implementation: `emulate()` until no prefix is pending.
/// Returns the number of emulate() calls (0 = the chain never resolved within the cap).
pub fn impl_macro_step(cpu: &mut Z80, bus: &mut ImplBus) -> u32 {
    for k in 1..=6u32 {
        cpu.emulate(bus);
        if cpu.verif_active_prefix() == 0 {
            return k;
        }
    }
    0
}

/// One aligned macro-step on the reference: an accepted interrupt is followed by the first
/// instruction of the handler (as the implementation does in one `emulate()`), prefixes are
/// followed until an instruction completes. Returns (steps, interrupt kind: 0 none, 1 INT, 2 NMI).
pub fn ref_macro_step(cpu: &mut RefZ80, bus: &mut RBus) -> (u32, u8) {
    bus.armed = true;
    let mut int = 0u8;
    for k in 1..=8u32 {
        match cpu.step(bus) {
            StepKind::IntAccepted => int = 1,
            StepKind::NmiAccepted => int = 2,
            StepKind::Prefix => {}
            StepKind::Instruction => return (k, int),
        }
        bus.armed = false;
    }
    (0, int)
}

/// Q is observable only through bits 3/5 of the flags of an immediately following SCF/CCF, and
/// never after an instruction that leaves PC on itself (a repeating block iteration or HALT is
/// followed by itself or by an interrupt acceptance, which clears Q): normalise accordingly.
pub fn normalize_q(pre_pc: u16, i: &mut CpuState, r: &mut CpuState) {
    if r.pc.wrapping_sub(pre_pc) < 2 && i.pc == r.pc {
        i.q = 0;
        r.q = 0;
    } else {
        i.q &= 0x28;
        r.q &= 0x28;
    }
}

/// Names of the fields that differ (None = equal). `cmp_inhibit`: compare the EI/DI latch too.
pub fn diff_states(i: &CpuState, r: &CpuState, cmp_inhibit: bool) -> Option<String> {
    let mut d: Vec<String> = Vec::new();
    macro_rules! f {
        ($name:ident) => {
            if i.$name != r.$name {
                d.push(format!("{}: impl {:x?} ref {:x?}", stringify!($name), i.$name, r.$name));
            }
        };
    }
    f!(a);
    f!(f);
    f!(b);
    f!(c);
    f!(d);
    f!(e);
    f!(h);
    f!(l);
    f!(a_alt);
    f!(f_alt);
    f!(b_alt);
    f!(c_alt);
    f!(d_alt);
    f!(e_alt);
    f!(h_alt);
    f!(l_alt);
    f!(ix);
    f!(iy);
    f!(sp);
    f!(pc);
    f!(i);
    f!(r);
    f!(iff1);
    f!(iff2);
    f!(im);
    f!(halted);
    f!(memptr);
    f!(q);
    f!(pending_prefix);
    if cmp_inhibit {
        f!(int_inhibit);
    }
    if d.is_empty() {
        None
    } else {
        Some(d.join("; "))
    }
}

/// Short names of the differing fields only (for class keys)
pub fn diff_fields(i: &CpuState, r: &CpuState, cmp_inhibit: bool) -> Vec<&'static str> {
    let mut d = Vec::new();
    macro_rules! f {
        ($name:ident) => {
            if i.$name != r.$name {
                d.push(stringify!($name));
            }
        };
    }
    f!(a);
    f!(f);
    f!(b);
    f!(c);
    f!(d);
    f!(e);
    f!(h);
    f!(l);
    f!(a_alt);
    f!(f_alt);
    f!(b_alt);
    f!(c_alt);
    f!(d_alt);
    f!(e_alt);
    f!(h_alt);
    f!(l_alt);
    f!(ix);
    f!(iy);
    f!(sp);
    f!(pc);
    f!(i);
    f!(r);
    f!(iff1);
    f!(iff2);
    f!(im);
    f!(halted);
    f!(memptr);
    f!(q);
    f!(pending_prefix);
    if cmp_inhibit {
        f!(int_inhibit);
    }
    d
}

pub fn fmt_log(l: &[Ev]) -> String {
    l.iter()
        .map(|e| match e {
            Ev::M1(a, v) => format!("M1[{:04x}]={:02x}", a, v),
            Ev::Rd(a, v) => format!("R[{:04x}]={:02x}", a, v),
            Ev::Wr(a, v) => format!("W[{:04x}]={:02x}", a, v),
            Ev::Dl(a) => format!("d[{:04x}]", a),
            Ev::IoR(p, v) => format!("IN[{:04x}]={:02x}", p, v),
            Ev::IoW(p, v) => format!("OUT[{:04x}]={:02x}", p, v),
            Ev::Ack(v) => format!("ACK={:02x}", v),
            Ev::Idle(n) => format!("idle{}", n),
            Ev::Odd(k, a, n) => format!("ODD{}[{:04x}]x{}", k, a, n),
        })
        .collect::<Vec<_>>()
        .join(" ")
}

/// Memory/port data effects only (order preserved): reads and writes with data, no timing
pub fn data_events(l: &[Ev]) -> Vec<Ev> {
    l.iter()
        .filter(|e| matches!(e, Ev::M1(..) | Ev::Rd(..) | Ev::Wr(..) | Ev::IoR(..) | Ev::IoW(..)))
        .map(|e| match e {
            // an opcode fetch is a memory read as far as data effects go
            Ev::M1(a, v) => Ev::Rd(*a, *v),
            x => *x,
        })
        .collect()
}
