//! vcheck <Cxx> [--tier quick|thorough] [--replay file]
mod checks;
mod rig;
mod formats;
mod oracle;
mod refzx;
mod tapemodel;
mod z80lock;
mod z80prod;
mod vcore;

use vcore::{Ctx, Tier};

/// Counting allocator: records the largest single allocation request per thread (C15's
/// "memory out of proportion" monitor). Pass-through to the system allocator otherwise.
pub struct CountingAlloc;

thread_local! {
    pub static MAX_ALLOC_REQ: std::cell::Cell<usize> = const { std::cell::Cell::new(0) };
}

unsafe impl std::alloc::GlobalAlloc for CountingAlloc {
    unsafe fn alloc(&self, l: std::alloc::Layout) -> *mut u8 {
        let _ = MAX_ALLOC_REQ.try_with(|m| {
            if l.size() > m.get() {
                m.set(l.size())
            }
        });
        std::alloc::System.alloc(l)
    }
    unsafe fn dealloc(&self, p: *mut u8, l: std::alloc::Layout) {
        std::alloc::System.dealloc(p, l)
    }
    unsafe fn alloc_zeroed(&self, l: std::alloc::Layout) -> *mut u8 {
        let _ = MAX_ALLOC_REQ.try_with(|m| {
            if l.size() > m.get() {
                m.set(l.size())
            }
        });
        std::alloc::System.alloc_zeroed(l)
    }
    unsafe fn realloc(&self, p: *mut u8, l: std::alloc::Layout, n: usize) -> *mut u8 {
        let _ = MAX_ALLOC_REQ.try_with(|m| {
            if n > m.get() {
                m.set(n)
            }
        });
        std::alloc::System.realloc(p, l, n)
    }
}

#[global_allocator]
static GLOBAL: CountingAlloc = CountingAlloc;

fn main() {
    let args: Vec<String> = std::env::args().collect();
    if args.len() < 2 {
        eprintln!("usage: vcheck <Cxx|list> [--tier quick|thorough] [--replay file]");
        std::process::exit(2);
    }
    let prop = args[1].clone();
    let mut tier = match std::env::var("VERIF_TIER").ok().as_deref() {
        Some("thorough") => Tier::Thorough,
        _ => Tier::Quick,
    };
    let mut replay: Option<String> = None;
    let mut i = 2;
    while i < args.len() {
        match args[i].as_str() {
            "--tier" => {
                i += 1;
                tier = if args.get(i).map(|s| s.as_str()) == Some("thorough") {
                    Tier::Thorough
                } else {
                    Tier::Quick
                };
            }
            "--replay" => {
                i += 1;
                replay = args.get(i).cloned();
            }
            "quick" => tier = Tier::Quick,
            "thorough" => tier = Tier::Thorough,
            _ => {}
        }
        i += 1;
    }
    let seed: u64 = std::env::var("VERIF_SEED").ok().and_then(|s| s.parse().ok()).unwrap_or(1);
    // a subject panic inside a case is caught per case; keep the default hook quiet
    // the hook only records where a panic came from (code under /repo = the subject) so that
    // `Ctx::guard` can tell a subject panic (a finding of the case) from a harness bug (exit 2)
    let verbose_panics = std::env::var("VERIF_PANIC").is_ok();
    std::panic::set_hook(Box::new(move |info| {
        let loc = info.location().map(|l| format!("{}:{}", l.file(), l.line())).unwrap_or_default();
        vcore::LAST_PANIC_LOC.with(|c| *c.borrow_mut() = loc.clone());
        if verbose_panics {
            eprintln!("panic at {}: {}", loc, info);
        }
    }));
    // a panic of the harness itself is a machinery failure (exit 2), never a verdict
    let code = match std::panic::catch_unwind(std::panic::AssertUnwindSafe(|| checks::dispatch(&prop, tier, seed, replay))) {
        Ok(c) => c,
        Err(p) => {
            let msg = p.downcast_ref::<String>().cloned().or_else(|| p.downcast_ref::<&str>().map(|s| s.to_string())).unwrap_or_default();
            eprintln!("MACHINERY: the check itself panicked: {} (set VERIF_PANIC=1 for the location)", msg);
            2
        }
    };
    std::process::exit(code);
}

#[allow(dead_code)]
pub fn mk_ctx(prop: &str, tier: Tier, seed: u64, level: &'static str) -> Ctx {
    Ctx::new(prop, tier, seed, level)
}
