//! vcheck <Cxx> [--tier quick|thorough] [--replay file]
mod checks;
mod rig;
mod formats;
mod oracle;
mod refzx;
mod tapemodel;
mod z80lock;
mod z80prod;
mod vcore;

use vcore::{Ctx, Tier};

fn main() {
    let args: Vec<String> = std::env::args().collect();
    if args.len() < 2 {
        eprintln!("usage: vcheck <Cxx|list> [--tier quick|thorough] [--replay file]");
        std::process::exit(2);
    }
    let prop = args[1].clone();
    let mut tier = match std::env::var("VERIF_TIER").ok().as_deref() {
        Some("thorough") => Tier::Thorough,
        _ => Tier::Quick,
    };
    let mut replay: Option<String> = None;
    let mut i = 2;
    while i < args.len() {
        match args[i].as_str() {
            "--tier" => {
                i += 1;
                tier = if args.get(i).map(|s| s.as_str()) == Some("thorough") {
                    Tier::Thorough
                } else {
                    Tier::Quick
                };
            }
            "--replay" => {
                i += 1;
                replay = args.get(i).cloned();
            }
            "quick" => tier = Tier::Quick,
            "thorough" => tier = Tier::Thorough,
            _ => {}
        }
        i += 1;
    }
    let seed: u64 = std::env::var("VERIF_SEED").ok().and_then(|s| s.parse().ok()).unwrap_or(1);
    // a subject panic inside a case is caught per case; keep the default hook quiet
    std::panic::set_hook(Box::new(|_| {}));
    let code = checks::dispatch(&prop, tier, seed, replay);
    std::process::exit(code);
}

#[allow(dead_code)]
pub fn mk_ctx(prop: &str, tier: Tier, seed: u64, level: &'static str) -> Ctx {
    Ctx::new(prop, tier, seed, level)
}
