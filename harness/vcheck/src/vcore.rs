//! vcore: shared machinery for every check.
//!
//! * `Ctx`       – verdict collection, known-finding matching, replay files, evidence writer
//! * `par_for`   – static/dynamic sharding of an index space over worker threads
//! * `bfs`       – generic explicit-state breadth-first search (cloning instantiation)
//! * `Dev`       – deviation-bounded environment explorer (choice-point recorder)
//!
//! Everything is deterministic: no wall clock in results, sorted output.

use serde_json::{json, Value};
use std::collections::{BTreeMap, BTreeSet, HashSet, VecDeque};
use std::hash::Hash;
use std::sync::atomic::{AtomicU64, AtomicUsize, Ordering};
use std::sync::Mutex;
use std::time::Instant;

pub const VERIF_DIR: &str = "/verif";

thread_local! {
    /// location of the last panic raised on this thread (set by the panic hook in main.rs)
    pub static LAST_PANIC_LOC: std::cell::RefCell<String> = const { std::cell::RefCell::new(String::new()) };
}

fn normalize_panic(msg: &str) -> String {
    let mut out = String::new();
    let mut last_digit = false;
    for c in msg.chars() {
        if c.is_ascii_digit() {
            if !last_digit {
                out.push('N');
            }
            last_digit = true;
        } else {
            last_digit = false;
            out.push(if c.is_ascii_alphanumeric() || c == '-' { c } else { '_' });
        }
    }
    out.truncate(60);
    out
}

#[derive(Clone, Copy, PartialEq, Eq, Debug)]
pub enum Tier {
    Quick,
    Thorough,
}

impl Tier {
    pub fn name(self) -> &'static str {
        match self {
            Tier::Quick => "quick",
            Tier::Thorough => "thorough",
        }
    }
    pub fn is_thorough(self) -> bool {
        self == Tier::Thorough
    }
}

#[derive(Clone, Debug)]
pub struct ViolationRec {
    pub key: String,
    pub what: String,
    pub replay: Value,
    pub count: u64,
}

#[derive(Default)]
struct Inner {
    violations: BTreeMap<String, ViolationRec>,
    samples: Vec<Value>,
    notes: BTreeMap<String, Value>,
    outcomes: BTreeSet<u64>,
}

/// Per-run context of one property check.
pub struct Ctx {
    pub prop: String,
    pub tier: Tier,
    pub seed: u64,
    pub level: &'static str,
    start: Instant,
    inner: Mutex<Inner>,
    pub evaluations: AtomicU64,
    pub states: AtomicU64,
    pub transitions: AtomicU64,
    pub traces: AtomicU64,
    pub nontrivial: AtomicU64,
    known: Vec<(String, String, String)>, // (prop, key, text)
}

pub fn sanitize_key(k: &str) -> String {
    k.chars()
        .map(|c| {
            if c.is_ascii_alphanumeric() || "-_.:+=,()[]<>/'*".contains(c) {
                c
            } else {
                '_'
            }
        })
        .collect()
}

fn file_key(k: &str) -> String {
    let s: String = k
        .chars()
        .map(|c| if c.is_ascii_alphanumeric() || c == '-' || c == '_' || c == '.' { c } else { '_' })
        .collect();
    if s.len() > 120 {
        s[..120].to_string()
    } else {
        s
    }
}

impl Ctx {
    pub fn new(prop: &str, tier: Tier, seed: u64, level: &'static str) -> Ctx {
        let mut known = Vec::new();
        let path = format!("{}/KNOWN_FINDINGS.txt", VERIF_DIR);
        if let Ok(text) = std::fs::read_to_string(&path) {
            for line in text.lines() {
                let line = line.trim();
                if let Some(rest) = line.strip_prefix("finding:") {
                    // finding: property=Cxx key=<key> <text>
                    let mut p = String::new();
                    let mut k = String::new();
                    let mut text = Vec::new();
                    for tok in rest.split_whitespace() {
                        if let Some(v) = tok.strip_prefix("property=") {
                            if p.is_empty() {
                                p = v.to_string();
                                continue;
                            }
                        }
                        if let Some(v) = tok.strip_prefix("key=") {
                            if k.is_empty() {
                                k = v.to_string();
                                continue;
                            }
                        }
                        text.push(tok);
                    }
                    if !p.is_empty() && !k.is_empty() {
                        known.push((p, k, text.join(" ")));
                    }
                }
            }
        }
        Ctx {
            prop: prop.to_string(),
            tier,
            seed,
            level,
            start: Instant::now(),
            inner: Mutex::new(Inner::default()),
            evaluations: AtomicU64::new(0),
            states: AtomicU64::new(0),
            transitions: AtomicU64::new(0),
            traces: AtomicU64::new(0),
            nontrivial: AtomicU64::new(0),
            known,
        }
    }

    pub fn thorough(&self) -> bool {
        self.tier.is_thorough()
    }

    /// Record a violation of class `key` (code-independent description of the failing case).
    /// Only the first case of a class keeps its replay (searches are simplest-first).
    pub fn violation(&self, key: &str, what: &str, replay: Value) {
        let key = sanitize_key(key);
        let mut g = self.inner.lock().unwrap();
        let e = g.violations.entry(key.clone()).or_insert_with(|| ViolationRec {
            key,
            what: what.to_string(),
            replay,
            count: 0,
        });
        e.count += 1;
    }

    /// Run one case; a panic raised by code of the subject (source under /repo) is a violation of
    /// that case, a panic of the harness itself is re-raised (machinery failure, exit 2).
    pub fn guard<R>(&self, what: &str, case: Value, f: impl FnOnce() -> R) -> Option<R> {
        match std::panic::catch_unwind(std::panic::AssertUnwindSafe(f)) {
            Ok(r) => Some(r),
            Err(p) => {
                let loc = LAST_PANIC_LOC.with(|c| c.borrow().clone());
                let msg = p.downcast_ref::<String>().cloned().or_else(|| p.downcast_ref::<&str>().map(|s| s.to_string())).unwrap_or_else(|| "panic".into());
                if loc.starts_with("/repo/") {
                    let file = loc.trim_start_matches("/repo/").split(':').next().unwrap_or("").to_string();
                    self.violation(
                        &format!("{}:panic:{}:{}", self.prop, file, normalize_panic(&msg)),
                        &format!("{}: the code under test panicked at {}: {}", what, loc, msg),
                        case,
                    );
                    None
                } else {
                    std::panic::resume_unwind(p)
                }
            }
        }
    }

    pub fn violation_classes(&self) -> usize {
        self.inner.lock().unwrap().violations.len()
    }

    pub fn sample(&self, v: Value) {
        let mut g = self.inner.lock().unwrap();
        if g.samples.len() < 12 {
            g.samples.push(v);
        }
    }

    pub fn note(&self, k: &str, v: Value) {
        self.inner.lock().unwrap().notes.insert(k.to_string(), v);
    }

    /// Add to a numeric note (created at 0)
    pub fn note_add(&self, k: &str, n: u64) {
        let mut g = self.inner.lock().unwrap();
        let cur = g.notes.get(k).and_then(|v| v.as_u64()).unwrap_or(0);
        g.notes.insert(k.to_string(), json!(cur + n));
    }

    /// Register an observed outcome digest (vacuity alarm: distinct outcomes are reported)
    pub fn outcome(&self, h: u64) {
        let mut g = self.inner.lock().unwrap();
        if g.outcomes.len() < 1_000_000 {
            g.outcomes.insert(h);
        }
    }

    pub fn outcomes_bulk(&self, hs: &HashSet<u64>) {
        let mut g = self.inner.lock().unwrap();
        for h in hs {
            if g.outcomes.len() >= 1_000_000 {
                break;
            }
            g.outcomes.insert(*h);
        }
    }

    pub fn add_eval(&self, n: u64) {
        self.evaluations.fetch_add(n, Ordering::Relaxed);
    }
    pub fn add_states(&self, n: u64) {
        self.states.fetch_add(n, Ordering::Relaxed);
    }
    pub fn add_transitions(&self, n: u64) {
        self.transitions.fetch_add(n, Ordering::Relaxed);
    }
    pub fn add_traces(&self, n: u64) {
        self.traces.fetch_add(n, Ordering::Relaxed);
    }
    pub fn add_nontrivial(&self, n: u64) {
        self.nontrivial.fetch_add(n, Ordering::Relaxed);
    }

    /// Finish: write evidence, replay files, print verdict lines. Returns the process exit code.
    pub fn finish(&self, rule: &str, exhaustive: bool, assumptions: &[&str]) -> i32 {
        for (i, loc, msg) in SUBJECT_PANICS.lock().unwrap().drain(..) {
            let file = loc.trim_start_matches("/repo/").split(':').next().unwrap_or("").to_string();
            self.violation(
                &format!("{}:panic:{}:{}", self.prop, file, normalize_panic(&msg)),
                &format!("the code under test panicked at {} while the check executed work item #{}: {}", loc, i, msg),
                json!({"kind":"panic","item":i,"location":loc}),
            );
        }
        let g = self.inner.lock().unwrap();
        let mut unknown = 0;
        let mut known_hit = 0;
        let mut lines = Vec::new();
        let _ = std::fs::create_dir_all(format!("{}/replays", VERIF_DIR));
        let _ = std::fs::create_dir_all(format!("{}/evidence", VERIF_DIR));
        let mut vio_list = Vec::new();
        for (key, rec) in g.violations.iter() {
            let known = self
                .known
                .iter()
                .find(|(p, k, _)| *p == self.prop && k == key);
            if let Some((_, _, text)) = known {
                known_hit += 1;
                lines.push(format!(
                    "KNOWN-FINDING: property={} key={} {} [{} case(s) this run]",
                    self.prop, key, text, rec.count
                ));
                vio_list.push(json!({"key": key, "known": true, "cases": rec.count, "what": rec.what}));
            } else {
                unknown += 1;
                let path = format!("{}/replays/{}-{}.json", VERIF_DIR, self.prop, file_key(key));
                let body = json!({
                    "property": self.prop,
                    "key": key,
                    "what": rec.what,
                    "cases_in_class": rec.count,
                    "case": rec.replay,
                });
                let _ = std::fs::write(&path, serde_json::to_string_pretty(&body).unwrap());
                lines.push(format!("DETAIL property={} key={} {}", self.prop, key, rec.what));
                lines.push(format!("VIOLATION property={} replay={}", self.prop, path));
                vio_list.push(json!({"key": key, "known": false, "cases": rec.count, "what": rec.what, "replay": path}));
            }
        }
        let wall = self.start.elapsed().as_secs_f64();
        let evals = self.evaluations.load(Ordering::Relaxed);
        let states = self.states.load(Ordering::Relaxed);
        let transitions = self.transitions.load(Ordering::Relaxed);
        let traces = self.traces.load(Ordering::Relaxed);
        let mut nontrivial = self.nontrivial.load(Ordering::Relaxed);
        if nontrivial == 0 {
            nontrivial = g.outcomes.len() as u64;
        }
        let mut cov = serde_json::Map::new();
        cov.insert("evaluations".into(), json!(evals.max(transitions)));
        cov.insert("distinct_nontrivial".into(), json!(nontrivial));
        cov.insert("distinct_outcomes".into(), json!(g.outcomes.len()));
        cov.insert("rule".into(), json!(rule));
        cov.insert("samples".into(), json!(g.samples));
        cov.insert("exhaustive".into(), json!(exhaustive));
        if states > 0 && transitions > 0 {
            cov.insert("states".into(), json!(states));
            cov.insert("transitions".into(), json!(transitions));
            cov.insert("traces_validated_against_impl".into(), json!(traces));
        }
        for (k, v) in g.notes.iter() {
            cov.insert(k.clone(), v.clone());
        }
        cov.insert("violation_classes".into(), json!(vio_list));
        let ev = json!({
            "property_id": self.prop,
            "tier": self.tier.name(),
            "seed": self.seed,
            "level": self.level,
            "coverage": Value::Object(cov),
            "assumptions": assumptions,
            "wall_s": wall,
            "violations": unknown,
            "known_findings_hit": known_hit,
        });
        let evpath = format!("{}/evidence/{}.json", VERIF_DIR, self.prop);
        if let Err(e) = std::fs::write(&evpath, serde_json::to_string_pretty(&ev).unwrap()) {
            eprintln!("MACHINERY: cannot write evidence {}: {}", evpath, e);
            return 2;
        }
        for l in &lines {
            println!("{}", l);
        }
        println!(
            "SUMMARY property={} tier={} evaluations={} states={} transitions={} distinct_outcomes={} violations={} known={} wall_s={:.1}",
            self.prop,
            self.tier.name(),
            evals,
            states,
            transitions,
            g.outcomes.len(),
            unknown,
            known_hit,
            wall
        );
        if unknown > 0 {
            1
        } else {
            0
        }
    }
}

pub fn n_threads() -> usize {
    std::env::var("VERIF_THREADS")
        .ok()
        .and_then(|s| s.parse().ok())
        .unwrap_or_else(|| std::thread::available_parallelism().map(|n| n.get()).unwrap_or(8).min(16))
}

/// Panics raised by code of the subject inside a `par_for` item that no `Ctx::guard` caught:
/// (item index, location, message). `Ctx::finish` turns them into violations.
pub static SUBJECT_PANICS: Mutex<Vec<(usize, String, String)>> = Mutex::new(Vec::new());

fn run_item<F: FnOnce()>(i: usize, f: F) {
    if let Err(p) = std::panic::catch_unwind(std::panic::AssertUnwindSafe(f)) {
        let loc = LAST_PANIC_LOC.with(|c| c.borrow().clone());
        if loc.starts_with("/repo/") {
            let msg = p.downcast_ref::<String>().cloned().or_else(|| p.downcast_ref::<&str>().map(|s| s.to_string())).unwrap_or_else(|| "panic".into());
            SUBJECT_PANICS.lock().unwrap().push((i, loc, msg));
        } else {
            std::panic::resume_unwind(p);
        }
    }
}

/// Run `f(i)` for every i in 0..n on the worker pool (dynamic chunked sharding; order of
/// evaluation is irrelevant for results because every case is independent).
pub fn par_for<F: Fn(usize) + Sync>(n: usize, chunk: usize, f: F) {
    let next = AtomicUsize::new(0);
    let chunk = chunk.max(1);
    let threads = n_threads().min(n.max(1));
    std::thread::scope(|s| {
        for _ in 0..threads {
            s.spawn(|| loop {
                let start = next.fetch_add(chunk, Ordering::Relaxed);
                if start >= n {
                    break;
                }
                let end = (start + chunk).min(n);
                for i in start..end {
                    run_item(i, || f(i));
                }
            });
        }
    });
}

/// Like par_for, but each worker owns a state created by `init` (e.g. an emulator instance).
pub fn par_for_with<S, I: Fn() -> S + Sync, F: Fn(&mut S, usize) + Sync>(n: usize, chunk: usize, init: I, f: F) {
    let next = AtomicUsize::new(0);
    let chunk = chunk.max(1);
    let threads = n_threads().min(n.max(1));
    std::thread::scope(|s| {
        for _ in 0..threads {
            s.spawn(|| {
                let mut st = init();
                loop {
                    let start = next.fetch_add(chunk, Ordering::Relaxed);
                    if start >= n {
                        break;
                    }
                    let end = (start + chunk).min(n);
                    for i in start..end {
                        let stp = &mut st;
                        let mut poisoned = false;
                        run_item(i, || f(stp, i));
                        if SUBJECT_PANICS.lock().map(|g| g.last().map(|x| x.0 == i).unwrap_or(false)).unwrap_or(false) {
                            poisoned = true;
                        }
                        if poisoned {
                            // the worker state may be half-updated after a subject panic: rebuild it
                            st = init();
                        }
                    }
                }
            });
        }
    });
}

#[derive(Default, Debug, Clone)]
pub struct BfsStats {
    pub states: u64,
    pub transitions: u64,
    pub max_depth: usize,
    pub capped: bool,
}

/// Generic explicit-state BFS, cloning instantiation. `step` returns the successor or None
/// when the transition is pruned (a violation was reported by the callback itself).
pub fn bfs<S: Clone, K: Hash + Eq, A>(
    init: Vec<S>,
    key: impl Fn(&S) -> K,
    actions: impl Fn(&S, usize) -> Vec<A>,
    mut step: impl FnMut(&S, &A, usize) -> Option<S>,
    max_depth: usize,
    state_cap: usize,
) -> BfsStats {
    let mut seen: HashSet<K> = HashSet::new();
    let mut q: VecDeque<(S, usize)> = VecDeque::new();
    let mut st = BfsStats::default();
    for s in init {
        if seen.insert(key(&s)) {
            q.push_back((s, 0));
            st.states += 1;
        }
    }
    while let Some((s, d)) = q.pop_front() {
        st.max_depth = st.max_depth.max(d);
        if d >= max_depth {
            continue;
        }
        for a in actions(&s, d) {
            st.transitions += 1;
            if let Some(n) = step(&s, &a, d) {
                if seen.len() >= state_cap {
                    st.capped = true;
                    continue;
                }
                if seen.insert(key(&n)) {
                    st.states += 1;
                    q.push_back((n, d + 1));
                }
            }
        }
    }
    st
}

/// Deviation-bounded environment explorer. A run asks `choose(arity)` at every choice point;
/// run 0 takes 0 everywhere; then every choice point is revisited with every alternative, up
/// to `bound` deviations per run.
pub struct Dev {
    prefix: Vec<usize>,
    pos: usize,
    pub trace: Vec<(usize, usize)>, // (choice taken, arity)
    pub diverged: bool,
}

impl Dev {
    pub fn new(prefix: Vec<usize>) -> Dev {
        Dev {
            prefix,
            pos: 0,
            trace: Vec::new(),
            diverged: false,
        }
    }
    pub fn choose(&mut self, arity: usize) -> usize {
        let c = if self.pos < self.prefix.len() {
            let c = self.prefix[self.pos];
            if c >= arity {
                self.diverged = true;
                0
            } else {
                c
            }
        } else {
            0
        };
        self.pos += 1;
        self.trace.push((c, arity));
        c
    }
    pub fn deviations(&self) -> usize {
        self.trace.iter().filter(|(c, _)| *c != 0).count()
    }
}

/// Explore all runs with at most `bound` deviations. `run` executes one run with the given
/// Dev and returns it back. Returns (runs, max choice points).
pub fn explore_dev(bound: usize, run_cap: usize, mut run: impl FnMut(&mut Dev)) -> (u64, usize, bool) {
    let mut stack: Vec<Vec<usize>> = vec![vec![]];
    let mut runs = 0u64;
    let mut max_points = 0usize;
    let mut capped = false;
    while let Some(prefix) = stack.pop() {
        if runs as usize >= run_cap {
            capped = true;
            break;
        }
        let plen = prefix.len();
        let mut dev = Dev::new(prefix);
        run(&mut dev);
        runs += 1;
        if dev.diverged {
            eprintln!("MACHINERY: divergence while replaying a choice prefix");
            std::process::exit(2);
        }
        max_points = max_points.max(dev.trace.len());
        let used = dev.deviations();
        if used >= bound {
            continue;
        }
        for i in plen..dev.trace.len() {
            let arity = dev.trace[i].1;
            for alt in 1..arity {
                let mut p: Vec<usize> = dev.trace[..i].iter().map(|(c, _)| *c).collect();
                p.push(alt);
                stack.push(p);
            }
        }
    }
    (runs, max_points, capped)
}

pub fn fnv(data: &[u8]) -> u64 {
    let mut h: u64 = 0xcbf29ce484222325;
    for b in data {
        h ^= *b as u64;
        h = h.wrapping_mul(0x100000001b3);
    }
    h
}

pub fn fnv_mix(h: u64, v: u64) -> u64 {
    let mut h = h;
    for i in 0..8 {
        h ^= (v >> (i * 8)) & 0xff;
        h = h.wrapping_mul(0x100000001b3);
    }
    h
}

/// Tiny deterministic PRNG used only for *irrelevant* background patterns.
#[derive(Clone)]
pub struct Rng(pub u64);
impl Rng {
    pub fn next(&mut self) -> u64 {
        self.0 ^= self.0 << 13;
        self.0 ^= self.0 >> 7;
        self.0 ^= self.0 << 17;
        self.0
    }
    pub fn byte(&mut self) -> u8 {
        (self.next() >> 24) as u8
    }
}

pub fn hex(bytes: &[u8]) -> String {
    bytes.iter().map(|b| format!("{:02x}", b)).collect::<Vec<_>>().join("")
}

pub fn unhex(s: &str) -> Vec<u8> {
    let s: Vec<u8> = s.bytes().filter(|b| b.is_ascii_hexdigit()).collect();
    s.chunks(2)
        .map(|c| u8::from_str_radix(std::str::from_utf8(c).unwrap(), 16).unwrap())
        .collect()
}
